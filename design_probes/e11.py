import asyncio, sys
from vloop import *
import cubed.runtime.asyncio as cra
from cubed.runtime.asyncio import async_map_unordered
from cubed.runtime.executors.local import threads_create_futures_func
import cubed.runtime.backup as crb

class TaskError(Exception): pass

class FakePool:
    """submit() returns a concurrent Future resolved at a scripted virtual time."""
    def __init__(self, loop, script, log):
        self.loop, self.script, self.log = loop, script, log
        self.subs = {}
    def submit(self, fn, i, **kw):
        k = self.subs.get(i, 0); self.subs[i] = k + 1
        dur, nfail = self.script.get((i, k), (1.0, 0))
        fut = cf.Future()
        state = {"n": 0}
        def body(i, **kw2):
            state["n"] += 1
            self.log.append(("attempt", i, k, state["n"]))
            if state["n"] <= nfail: raise TaskError((i, k, state["n"]))
            return i
        def fire():
            if fut.cancelled(): return
            fut.set_running_or_notify_cancel()
            try:
                # fn is partial(retryer, function) ; we substitute the scripted body via kw
                fut.set_result(fn(i, **kw))
            except BaseException as e:
                fut.set_exception(e)
        self.loop.call_later(dur, fire)
        return fut

def run(script, n, retries, use_backups, batch_size):
    loop = VirtualTimeLoop()
    asyncio.set_event_loop(loop)
    clock = VClock(loop)
    cra.time = clock  # patch module-level 'time' used by async_map_unordered
    log = []
    pool = FakePool(loop, script, log)
    attempts = {}
    def function(i, **kw):
        # count attempt per (input, submission): submission index = pool.subs[i]-1 at the time of firing is ambiguous; use log
        key = (i, function.cur)
        attempts[key] = attempts.get(key, 0) + 1
        dur, nfail = script.get(key, (1.0, 0))
        if attempts[key] <= nfail: raise TaskError(key + (attempts[key],))
        return i
    # simpler pool: set function.cur at fire time
    class Pool2:
        def __init__(self): self.subs = {}
        def submit(self, fn, i, **kw):
            k = self.subs.get(i, 0); self.subs[i] = k + 1
            dur, nfail = script.get((i, k), (1.0, 0))
            fut = cf.Future()
            def fire():
                if not fut.set_running_or_notify_cancel(): return
                function.cur = k
                try: fut.set_result(fn(i, **kw))
                except BaseException as e: fut.set_exception(e)
            loop.call_later(dur, fire)
            return fut
    pool = Pool2()
    cff = threads_create_futures_func(pool, function, retries=retries)
    results = []
    async def main():
        async for r in async_map_unordered(cff, list(range(n)), use_backups=use_backups, batch_size=batch_size):
            results.append(r)
    try:
        loop.run_until_complete(main())
        out = ("ok", sorted(results))
    except TaskError as e:
        out = ("taskerror", e.args)
    except Hang as e:
        out = ("hang", str(e))
    except Exception as e:
        out = ("crash", type(e).__name__, str(e))
    finally:
        loop.close()
    return out, pool.subs, attempts, loop.time()

print(run({}, 12, 2, False, None))
print(run({(3,0): (1.0, 2)}, 12, 2, False, None))
print(run({(3,0): (1.0, 3)}, 12, 2, False, None))
# straggler: input 11 takes 100s; backup takes 1s -> finishes at ~ launch+1
print(run({(11,0): (100.0, 0)}, 12, 2, True, None))
# simultaneous: backup launched at t=4 (first tick after >3x) hmm find: make both finish at same time
for d in [5.0, 6.0, 7.0, 8.0, 9.0]:
    print(d, run({(11,0): (d, 0)}, 12, 2, True, None))
print(run({(11,0): (100.0, 0)}, 12, 2, True, 5))
print("----")
print(run({(3,0): (100.0, 0)}, 25, 2, True, 10)[0])
print(run({(13,0): (100.0, 0)}, 25, 2, True, 10)[0])
print(run({(13,0): (100.0, 0)}, 40, 2, True, 12)[0])
