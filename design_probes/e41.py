"""C10 probe: stateful history machine."""
import sys, os, tempfile, numpy as np, cubed, cubed.array_api as xp, zarr, warnings, collections
import hypothesis
from hypothesis import settings, strategies as st, HealthCheck, Phase, seed
from hypothesis.stateful import RuleBasedStateMachine, rule, invariant, precondition, initialize, run_state_machine_as_test
from cubed.runtime.create import create_executor
warnings.simplefilter("ignore")
EXS = [create_executor("single-threaded"), create_executor("threads", {"max_workers": 4})]
MODE = sys.argv[2] if len(sys.argv) > 2 else "all"   # "all" or "safe" (never store a lazy array that has dependents)
FAILS = collections.Counter(); FIRST = {}
class M(RuleBasedStateMachine):
    def __init__(self):
        super().__init__()
        self.wd = tempfile.mkdtemp(); self.spec = cubed.Spec(self.wd, allowed_mem=10_000_000)
        self.pool = []   # (array, shadow, parents idx)
        self.targets = []  # (path, expected)
        self.inputs = []
        self.hist = []; self.nt = 0; self.poisoned = False
    @initialize(n=st.integers(2, 6), m=st.integers(1, 5), c=st.integers(1, 3))
    def init(self, n, m, c):
        d = np.arange(n * m).reshape(n, m) + 1
        self.inputs.append((d, d.copy()))
        self.pool.append((xp.asarray(d, chunks=(c, m), spec=self.spec), d.copy(), set()))
        self.hist.append(("init", n, m, c))
    def _anc(self, i):
        out = {i}
        for p in self.pool[i][2]: out |= self._anc(p)
        return out
    @rule(i=st.integers(0, 50), j=st.integers(0, 50), op=st.sampled_from(["neg", "add", "sum0", "idx", "rechunk", "T", "mul2"]))
    def derive(self, i, j, op):
        i %= len(self.pool); j %= len(self.pool)
        a, s, _ = self.pool[i]; b, t, _ = self.pool[j]
        try:
            if op == "neg": r, v, par = xp.negative(a), -s, {i}
            elif op == "mul2": r, v, par = a * 2, s * 2, {i}
            elif op == "add":
                if s.shape != t.shape: return
                r, v, par = xp.add(a, b), s + t, {i, j}
            elif op == "sum0":
                if s.ndim == 0: return
                r, v, par = xp.sum(a, axis=0), s.sum(axis=0), {i}
            elif op == "idx":
                if s.ndim == 0 or s.shape[0] < 2: return
                r, v, par = a[1:], s[1:], {i}
            elif op == "rechunk":
                if s.ndim == 0 or s.size == 0: return
                r, v, par = a.rechunk(tuple(max(1, x // 2) for x in s.shape)), s, {i}
            elif op == "T":
                if s.ndim != 2: return
                r, v, par = a.T, s.T, {i}
        except ValueError: return
        self.pool.append((r, v, par)); self.hist.append(("derive", op, i, j))
    def _has_dependents(self, i): return any(i in self._anc(k) and k != i for k in range(len(self.pool)))
    @rule(i=st.integers(0, 50), eager=st.booleans(), e=st.integers(0, 1))
    def store(self, i, eager, e):
        i %= len(self.pool); a, s, _ = self.pool[i]
        if s.ndim == 0: return
        if MODE == "safe" and self._has_dependents(i): return
        p = os.path.join(self.wd, f"t{len(self.targets)}.zarr")
        self.hist.append(("store", i, eager, e))
        if self._has_dependents(i): self.nt += 1
        try:
            if eager: cubed.to_zarr(a, p, executor=EXS[e])
            else: cubed.to_zarr(a, p, compute=False).compute(executor=EXS[e], _return_in_memory_array=False)
        except Exception as ex: self._fail("store raises " + type(ex).__name__, i); return
        self.targets.append((p, s.copy()))
    @rule(i=st.integers(0, 50), opt=st.booleans(), e=st.integers(0, 1), resume=st.booleans())
    def compute(self, i, opt, e, resume):
        i %= len(self.pool); self.hist.append(("compute", i, opt, e, resume)); self._check(i, opt, e, resume)
    def _fail(self, kind, i):
        FAILS[kind] += 1; FIRST.setdefault(kind, list(self.hist)); self.poisoned = True
    def _check(self, i, opt=True, e=0, resume=False):
        if self.poisoned: return
        a, s, _ = self.pool[i]
        try: r = a.compute(executor=EXS[e], optimize_graph=opt, resume=resume or None)
        except NotImplementedError: return
        except Exception as ex: self._fail("compute raises " + type(ex).__name__ + ":" + str(ex)[:40], i); return
        if r.shape != s.shape or not np.array_equal(r, s): self._fail("VALUE", i)
    @invariant()
    def intact(self):
        if self.poisoned: return
        for d, c in self.inputs:
            if not np.array_equal(d, c): self._fail("INPUT MODIFIED", -1)
        for p, exp in self.targets:
            if not np.array_equal(zarr.open_array(p)[...], exp): self._fail("TARGET CHANGED", -1)
    def teardown(self):
        import shutil; shutil.rmtree(self.wd, ignore_errors=True)
S = settings(max_examples=int(sys.argv[1]), stateful_step_count=15, deadline=None, database=None, suppress_health_check=list(HealthCheck), phases=[Phase.generate])
run_state_machine_as_test(seed(1)(M), settings=S)
print(MODE, dict(FAILS))
for k, v in FIRST.items(): print(k, v)
