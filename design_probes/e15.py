import numpy as np, cubed, cubed.array_api as xp, tempfile
from zarr.storage import MemoryStore, LocalStore, WrapperStore
from cubed.runtime.types import DagExecutor
from cubed.runtime.pipeline import visit_nodes
class Crash(Exception): pass
class CrashExec(DagExecutor):
    name = "crash"
    def __init__(self, crash_after=None): super().__init__(); self.crash_after = crash_after; self.ran = []
    def execute_dag(self, dag, callbacks=None, spec=None, compute_id=None, **kw):
        n = 0
        for name, node in visit_nodes(dag):
            p = node["pipeline"]
            for m in p.mappable:
                if self.crash_after is not None and n == self.crash_after: raise Crash()
                p.function(m, config=p.config); n += 1
                self.ran.append(name)
def build(spec):
    an = np.arange(48.).reshape(6,8)
    a = xp.asarray(an, chunks=(2,3), spec=spec)
    x = xp.negative(a); y = xp.sum(x * 2, axis=0, split_every=2)
    return y, (-an*2).sum(axis=0)
def total_tasks():
    spec = cubed.Spec(intermediate_store=MemoryStore(), allowed_mem=10_000_000)
    y, exp = build(spec); ex = CrashExec(); y.compute(executor=ex, optimize_graph=False); return len(ex.ran)
T = total_tasks(); print("T", T)
for opt in (False, True):
  res = []
  for k in range(T+1):
    spec = cubed.Spec(intermediate_store=MemoryStore(), allowed_mem=10_000_000)
    y, exp = build(spec)
    try:
        y.compute(executor=CrashExec(k), optimize_graph=opt)
    except Crash: pass
    ex2 = CrashExec()
    try:
        r = y.compute(executor=ex2, optimize_graph=opt, resume=True)
        res.append((k, np.array_equal(r, exp), len(ex2.ran)))
    except Exception as e:
        res.append((k, type(e).__name__, str(e)[:80]))
  print(opt, res)
# mean (structured) resume
spec = cubed.Spec(intermediate_store=MemoryStore(), allowed_mem=10_000_000)
a = xp.asarray(np.arange(48.).reshape(6,8), chunks=(2,3), spec=spec)
m = xp.mean(a, axis=0)
try: print(m.compute(executor=CrashExec(), resume=True))
except Exception as e: print(type(e).__name__, e)
m.compute(executor=CrashExec())
try: print(m.compute(executor=CrashExec(), resume=True))
except Exception as e: print(type(e).__name__, e)
