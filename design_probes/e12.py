import asyncio, networkx as nx
from vloop import *
import cubed.runtime.asyncio as cra
from cubed.runtime.asyncio import async_map_dag
from cubed.runtime.types import CubedPipeline, Callback

def run(dag_spec, durations, parallel, batch_size=None, use_backups=False):
    loop = VirtualTimeLoop(); asyncio.set_event_loop(loop)
    cra.time = VClock(loop)
    dag = nx.MultiDiGraph()
    for op, (ntasks, preds) in dag_spec.items():
        dag.add_node(op, pipeline=CubedPipeline(lambda *a, **k: None, op, list(range(ntasks)), op), type="op")
        dag.add_node("arr-"+op, type="array")
        dag.add_edge(op, "arr-"+op)
        for p in preds: dag.add_edge("arr-"+p, op)
    log = []
    def cff(inputs, name=None, func=None, config=None, **kw):
        out = []
        for i in inputs:
            f = loop.create_future()
            log.append((loop.time(), "start", config, i))
            name = config; d = durations.get((name, i), 1.0)
            def done(f=f, name=name, i=i):
                log.append((loop.time(), "end", name, i))
                f.set_result((None, dict(name=name)))
            loop.call_later(d, done)
            out.append((i, f))
        return out
    events = []
    class CB(Callback):
        def on_operation_start(self, e): events.append(("op_start", e.name))
        def on_operation_end(self, e): events.append(("op_end", e.name))
        def on_task_end(self, e): events.append(("task_end", e.name))
    kw = {}
    if batch_size: kw["batch_size"] = batch_size
    loop.run_until_complete(async_map_dag(cff, dag, callbacks=[CB()], compute_arrays_in_parallel=parallel, use_backups=use_backups, **kw))
    loop.close()
    return log, events
dag_spec = {"a": (3, []), "b": (2, []), "c": (4, ["a", "b"]), "d": (1, ["a"]), "e": (2, ["c", "d"])}
for par in (False, True):
    log, ev = run(dag_spec, {("a", 1): 5.0, ("c", 0): 3.0}, par, batch_size=2)
    print(par, log[:8], "...", len(log), ev[:6])
