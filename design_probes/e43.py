"""C12 probe: declared metadata vs computed vs zarr; block shapes via checking proxies."""
import sys, json, numpy as np, cubed, warnings, collections, dataclasses, zarr
from hypothesis import given, seed, settings, strategies as st, HealthCheck, Phase
from zarr.storage import MemoryStore
from cubed.runtime.types import DagExecutor
from cubed.runtime.pipeline import visit_nodes
from cubed.primitive.blockwise import BlockwiseSpec
from cubed.storage.zarr import LazyZarrArray
from miniir import *
SEED = int(sys.argv[1]); N = int(sys.argv[2])
BAD = []
class CheckArr:
    def __init__(self, arr, name, task): self._a, self._n, self._t = arr, name, task
    def _chk(self, sel, value, field=None):
        exp = tuple(s.stop - s.start for s in sel); got = tuple(np.shape(value))
        if exp != got: BAD.append((self._n, self._t, field, exp, got))
    def __setitem__(self, sel, value): self._chk(sel, value); self._a[sel] = value
    def set_basic_selection(self, sel, value, fields=None): self._chk(sel, value, fields); self._a.set_basic_selection(sel, value, fields=fields)
    def __getattr__(self, k): return getattr(self._a, k)
class CheckProxy:
    def __init__(self, p, name, task): self._p, self._n, self._t = p, name, task
    array = property(lambda s: s._p.array); chunks = property(lambda s: s._p.chunks)
    def open(self): return CheckArr(self._p.open(), self._n, self._t)
class Ex(DagExecutor):
    name = "chk"
    def execute_dag(self, dag, callbacks=None, spec=None, compute_id=None, **kw):
        for name, node in visit_nodes(dag):
            p = node["pipeline"]
            for m in p.mappable:
                cfg = p.config
                if isinstance(cfg, BlockwiseSpec): cfg = dataclasses.replace(cfg, writes_map={k: CheckProxy(v, k, (name, tuple(m))) for k, v in cfg.writes_map.items()})
                p.function(m, config=cfg)
stats = collections.Counter(); fails = {}
def fail(k, prog, extra=None): stats[k] += 1; fails.setdefault(k, (prog, extra))
@seed(SEED)
@settings(max_examples=N, database=None, deadline=None, suppress_health_check=list(HealthCheck), phases=[Phase.generate])
@given(programs_multi(), st.booleans())
def run(pv, optimize):
    prog, vals = pv
    ms = MemoryStore(); spec = cubed.Spec(intermediate_store=ms, allowed_mem=100_000_000)
    try: arrs = build_all(prog, spec)
    except Exception: stats["declined"] += 1; return
    decl = [(a.shape, np.dtype(a.dtype), a.chunks) for a in arrs]
    outs = arrs if not optimize else [arrs[i] for i in prog["outs"]]
    BAD.clear()
    try: res = cubed.compute(*outs, executor=Ex(), optimize_graph=optimize)
    except Exception as e: stats["exec fails:" + type(e).__name__] += 1; return
    stats["cases"] += 1
    if BAD: fail("BLOCK SHAPE", prog, BAD[:2])
    idxs = range(len(arrs)) if not optimize else prog["outs"]
    for r, i in zip(res, idxs):
        sh, dt, ch = decl[i]
        if r.shape != sh: fail("DECLARED SHAPE != computed", prog, (i, sh, r.shape))
        if np.dtype(r.dtype) != dt: fail("DECLARED DTYPE != computed", prog, (i, dt, r.dtype))
        if r.shape != vals[i].shape: fail("shape vs numpy", prog, (i,))
        if tuple(map(sum, ch)) != sh: fail("chunks don't sum to shape", prog, (i, ch, sh))
        a = arrs[i]
        if isinstance(a._zarray, LazyZarrArray) and a.size > 0:
            z = zarr.open_array(ms, path=a.name)
            if z.shape != sh or z.dtype != dt: fail("ZARR META differs", prog, (i, z.shape, z.dtype))
            try: zc = z.chunks
            except NotImplementedError: zc = None
            if zc is not None and tuple(zc) != tuple(max(c[0], 1) if c else 1 for c in ch): fail("ZARR CHUNKS differ", prog, (i, zc, ch))
run()
print(dict(stats))
for k, (p, x) in fails.items(): print(k, x, json.dumps(p, default=str)[:300])
