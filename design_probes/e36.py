"""C04 probe: admission boundary and no-side-effects on refusal; fusion memory monotonicity."""
import sys, json, numpy as np, cubed, warnings, collections
from functools import partial
from hypothesis import given, seed, settings, strategies as st, HealthCheck, Phase
from zarr.storage import MemoryStore
from cubed.runtime.types import DagExecutor
from cubed.runtime.executors.local import SingleThreadedExecutor
import cubed.core.optimization as opt
from miniir import *
from tstore import TraceStore, LOG
SEED = int(sys.argv[1]); N = int(sys.argv[2])
class RecExec(SingleThreadedExecutor):
    def __init__(self): super().__init__(); self.entered = 0
    def execute_dag(self, dag, **kw): self.entered += 1; return super().execute_dag(dag, **kw)
stats = collections.Counter(); fails = {}
def fail(k, prog, extra=None): stats[k] += 1; fails.setdefault(k, (prog, extra))
fuse_log = []
_fm = opt.fuse_multiple
def fm(op, *preds):
    r = _fm(op, *preds); fuse_log.append((r.projected_mem, op.projected_mem, [p.projected_mem for p in preds if p is not None])); return r
opt.fuse_multiple = fm
@seed(SEED)
@settings(max_examples=N, database=None, deadline=None, suppress_health_check=list(HealthCheck), phases=[Phase.generate])
@given(programs_multi(), st.integers(-1, 1), st.integers(0, 10**6), st.booleans())
def run(pv, delta, pick, optimize):
    prog, vals = pv
    stats["cases"] += 1
    # pass 1: thresholds
    spec0 = cubed.Spec(intermediate_store=MemoryStore(), allowed_mem=10**9, reserved_mem=100)
    try: arrs = build_all(prog, spec0)
    except Exception: stats["declined"] += 1; return
    outs = [arrs[i] for i in prog["outs"]]
    fuse_log.clear()
    pl_u = cubed.plan(*outs, optimize_graph=False); pl_o = cubed.plan(*outs)
    for fused, own, preds in fuse_log:
        if fused < max([own] + preds): fail("FUSED < max(replaced)", prog, (fused, own, preds))
    T = sorted({d["primitive_op"].projected_mem for pl in (pl_u, pl_o) for n, d in pl.dag.nodes(data=True) if "primitive_op" in d})
    if not T: return
    t = T[pick % len(T)]; A = t + delta
    if A < 100: return
    ms = MemoryStore(); ts = TraceStore(ms); LOG.clear()
    spec = cubed.Spec(intermediate_store=ts, allowed_mem=A, reserved_mem=100)
    try: arrs = build_all(prog, spec)
    except ValueError as e: stats["refused at build (rechunk planner?)"] += 1; return
    except Exception as e: fail("build:" + type(e).__name__, prog, str(e)[:60]); return
    outs = [arrs[i] for i in prog["outs"]]
    pu = cubed.plan(*outs, optimize_graph=False); po = cubed.plan(*outs)
    P = (po if optimize else pu).max_projected_mem
    if pu.max_projected_mem <= A and po.max_projected_mem > A: fail("OPTIMIZER BROKE BUDGET", prog, (A, pu.max_projected_mem, po.max_projected_mem))
    ex = RecExec(); LOG.clear()
    try:
        res = cubed.compute(*outs, executor=ex, optimize_graph=optimize)
        if P > A: fail("ACCEPTED over budget", prog, (P, A))
        else:
            stats["accepted", delta] += 1
            for r, i in zip(res, prog["outs"]):
                if r.shape != vals[i].shape or not np.allclose(r, vals[i], equal_nan=True): fail("value", prog)
    except ValueError as e:
        if "exceeds allowed_mem" not in str(e): fail("other ValueError:" + str(e)[:50], prog); return
        if P <= A: fail("REFUSED within budget", prog, (P, A))
        else:
            stats["refused", delta] += 1
            writes = [l for l in LOG if l[0] in ("set", "set_if_not_exists", "delete")]
            if ex.entered or writes or len(ms._store_dict): fail("SIDE EFFECTS on refusal", prog, (ex.entered, writes[:3]))
    except Exception as e: fail("exec:" + type(e).__name__ + str(e)[:50], prog)
run()
print(dict(stats))
for k, (p, x) in fails.items(): print(k, x, json.dumps(p, default=str)[:300])
