import asyncio, selectors, concurrent.futures as cf

class Hang(Exception): pass

class VirtualTimeLoop(asyncio.SelectorEventLoop):
    """Event loop whose clock only advances when it would otherwise sleep."""
    def __init__(self):
        super().__init__()
        self._vt = 0.0
        sel = self._selector
        orig = sel.select
        def select(timeout=None):
            ev = orig(0)
            if ev: return ev
            if timeout is None:
                raise Hang("event loop idle forever at t=%s" % self._vt)
            if timeout > 0:
                self._vt += timeout
            return []
        sel.select = select
    def time(self):
        return self._vt

class VClock:
    def __init__(self, loop): self.loop = loop
    def monotonic(self): return self.loop.time()
    def time(self): return 1_000_000.0 + self.loop.time()
