import numpy as np, cubed, cubed.array_api as xp, random, collections, warnings, sys, itertools
from math import prod
from zarr.storage import MemoryStore
from cubed.storage.zarr import LazyZarrArray
from cubed.runtime.create import create_executor
warnings.simplefilter("ignore")
rnd = random.Random(int(sys.argv[1])); N = int(sys.argv[2])
ex = create_executor("single-threaded")
stats = collections.Counter(); exs = {}
def bounds(chunks, n):
    if all(isinstance(c, int) for c in [chunks]): pass
    return None
def grid_bounds(c, n):
    # c: int (regular) or tuple (rectilinear)
    if isinstance(c, int):
        return set(range(0, n, c)) | {n}
    out = {0}; s = 0
    for x in c: s += x; out.add(s)
    return out
for it in range(N):
    nd = rnd.choice([1, 2, 2, 3])
    shape = tuple(rnd.choice([1, 2, 3, 5, 7, 8, 10, 12, 13, 16, 20, 30]) for _ in range(nd))
    src = tuple(rnd.randint(1, n) for n in shape); tgt = tuple(rnd.randint(1, n) for n in shape)
    itemsize = 8
    base = max(prod(src), prod(tgt)) * itemsize
    allowed = int(base * rnd.choice([4.0, 4.5, 5, 6, 8, 12, 30, 100]))
    irr = rnd.random() < 0.6
    spec = cubed.Spec(intermediate_store=MemoryStore(), allowed_mem=allowed, reserved_mem=0)
    d = np.arange(prod(shape), dtype=np.float64).reshape(shape)
    a = cubed.from_array(d, chunks=src, spec=spec)   # materialized via map_blocks
    try:
        b = a.rechunk(tgt, allow_irregular=irr)
    except ValueError as e:
        stats["declined ValueError"] += 1; continue
    except Exception as e:
        k = ("BUILD", type(e).__name__, str(e)[:60]); stats[k] += 1; exs.setdefault(k, (shape, src, tgt, allowed, irr)); continue
    if b is a: stats["noop"] += 1; continue
    plan = b.plan(optimize_graph=False)
    nre = 0
    for n, dd in plan.dag.nodes(data=True):
        if dd.get("op_name") != "rechunk": continue
        nre += 1
        po = dd["primitive_op"]; copy = po.write_chunks; tarr = po.target_array
        tch = tarr.chunks
        for ax, (cc, n_) in enumerate(zip(copy, shape)):
            cb = grid_bounds(cc, n_); tb = grid_bounds(tch[ax], n_)
            if not cb <= tb:
                k = ("MISALIGNED copy vs target", irr); stats[k] += 1; exs.setdefault(k, (shape, src, tgt, allowed, irr, copy, tch))
        if po.projected_mem > allowed:
            k = ("OVER MEM", irr); stats[k] += 1; exs.setdefault(k, (shape, src, tgt, allowed, irr, po.projected_mem))
    stats["stages", nre] += 1
    if b.chunks != cubed.utils.normalize_chunks(tgt, shape, dtype=d.dtype):
        k = ("FINAL CHUNKS differ", irr); stats[k] += 1; exs.setdefault(k, (shape, src, tgt, allowed, irr, b.chunks))
    if prod(shape) <= 2000 and plan.num_tasks < 300:
        try:
            got = b.compute(executor=ex, optimize_graph=False)
            if not np.array_equal(got, d): k = ("VALUE", irr); stats[k] += 1; exs.setdefault(k, (shape, src, tgt, allowed, irr))
            else: stats["executed ok"] += 1
        except Exception as e:
            k = ("EXEC", type(e).__name__, str(e)[:60], irr); stats[k] += 1; exs.setdefault(k, (shape, src, tgt, allowed, irr))
for k, v in sorted(stats.items(), key=str): print(v, k)
for k, v in exs.items(): print(k, "::", v)
