import os, time, json, contextvars
from zarr.storage import WrapperStore, LocalStore
CUR = contextvars.ContextVar("cur_task", default=None)
class FileTraceStore(WrapperStore):
    _supports_sync_io = False
    def __init__(self, store, logdir=None, delay_ms=0):
        super().__init__(store); self.logdir = logdir; self.delay_ms = delay_ms
    def _with_store(self, store):
        return type(self)(store, self.logdir, self.delay_ms)
    def _log(self, *rec):
        with open(os.path.join(self.logdir, f"{os.getpid()}.log"), "a") as f:
            f.write(json.dumps([time.monotonic_ns(), os.getpid(), *rec]) + "\n")
    async def get(self, key, prototype, byte_range=None):
        self._log("get_start", key)
        r = await self._store.get(key, prototype, byte_range)
        self._log("get_end", key, r is not None)
        return r
    async def set(self, key, value):
        import asyncio
        self._log("set_start", key)
        if self.delay_ms and "/c/" in key:
            await asyncio.sleep((hash(key) % self.delay_ms) / 1000)
        r = await self._store.set(key, value)
        self._log("set_end", key)
        return r
    async def delete(self, key):
        self._log("delete", key); return await self._store.delete(key)
    async def set_if_not_exists(self, key, value):
        self._log("set_if_not_exists", key); return await self._store.set_if_not_exists(key, value)
