import numpy as np, cubed, cubed.array_api as xp, warnings, collections
from zarr.storage import MemoryStore, WrapperStore
from cubed.runtime.create import create_executor
class FaultStore(WrapperStore):
    _supports_sync_io = False
    def __init__(self, store, state=None): super().__init__(store); self.state = state if state is not None else {"key": None, "kind": None, "fail": 0, "count": collections.Counter()}
    def _with_store(self, s): return type(self)(s, self.state)
    async def get(self, key, prototype, byte_range=None):
        if self.state["kind"] == "get" and key == self.state["key"]:
            self.state["count"][key] += 1
            if self.state["count"][key] <= self.state["fail"]: raise OSError(f"injected read fault {self.state['count'][key]} on {key}")
        return await self._store.get(key, prototype, byte_range)
    async def set(self, key, value):
        if self.state["kind"] == "set" and key == self.state["key"]:
            self.state["count"][key] += 1
            if self.state["count"][key] <= self.state["fail"]: raise OSError(f"injected write fault {self.state['count'][key]} on {key}")
        return await self._store.set(key, value)
ex = create_executor("threads", {"max_workers": 4})
for kind in ("get", "set"):
    for f in range(0, 5):
        fs = FaultStore(MemoryStore())
        spec = cubed.Spec(intermediate_store=fs, allowed_mem=10_000_000)
        an = np.arange(24.).reshape(4, 6)
        a = xp.asarray(an, chunks=(2, 3), spec=spec)
        b = xp.negative(a); c = xp.sum(b, axis=0)
        key = f"{b.name}/c/1/0"
        fs.state.update(key=key, kind=kind, fail=f)
        try:
            r = c.compute(executor=ex, optimize_graph=False)
            out = ("ok", bool(np.array_equal(r, (-an).sum(axis=0))))
        except Exception as e:
            out = ("raised", type(e).__name__, str(e)[:40])
        print(kind, "fail first", f, "->", out, "accesses", fs.state["count"][key])
