import time, json, numpy as np, cubed, cubed.array_api as xp, warnings
from hypothesis import given, seed, settings, strategies as st, HealthCheck, Phase
from zarr.storage import MemoryStore
from cubed.runtime.create import create_executor
warnings.simplefilter("ignore"); np.seterr(all="ignore")
EX = create_executor("single-threaded")
DTYPES = ["int64", "float64", "int8", "bool"]
def pattern(shape, dtype, k):
    n = int(np.prod(shape))
    d = ((np.arange(n) * (7 + 2*k) + 3*k) % 11 - 3).reshape(shape)
    return d.astype(dtype)
@st.composite
def shapes(draw, max_dims=3):
    nd = draw(st.integers(0, max_dims))
    return tuple(draw(st.sampled_from([0,1,1,2,3,4,5,6,7])) for _ in range(nd))
def chunk_st(side):
    s = max(side, 1)
    return st.sampled_from(sorted({1, 2, 3, s, (s+1)//2}) ).map(lambda c: min(c, s))
# op table: name -> (applicable(nodes)->list of arg tuples, params strategy(args), cubed fn, numpy fn)
def unary_num(nodes): return [(i,) for i, n in enumerate(nodes) if n["v"].dtype != bool]
def any1(nodes): return [(i,) for i in range(len(nodes))]
def bcast_pairs(nodes):
    out = []
    for i, a in enumerate(nodes):
        for j, b in enumerate(nodes):
            if a["v"].dtype == bool or b["v"].dtype == bool: continue
            try: np.broadcast_shapes(a["v"].shape, b["v"].shape); out.append((i, j))
            except ValueError: pass
    return out
def axis_param(draw, v, allow_tuple=True):
    nd = v.ndim
    opts = [st.none()]
    if nd: opts.append(st.integers(-nd, nd-1))
    if nd and allow_tuple: opts.append(st.lists(st.integers(0, nd-1), min_size=1, max_size=nd, unique=True).map(tuple))
    return draw(st.one_of(*opts))
OPS = {
 "negative": (unary_num, lambda draw, vs: {}, lambda a, **p: xp.negative(a), lambda a, **p: np.negative(a)),
 "add": (bcast_pairs, lambda draw, vs: {}, lambda a, b, **p: xp.add(a, b), lambda a, b, **p: np.add(a, b)),
 "sum": (unary_num, lambda draw, vs: {"axis": axis_param(draw, vs[0]), "keepdims": draw(st.booleans()), "split_every": draw(st.sampled_from([None, 2, 3, 4]))},
         lambda a, **p: xp.sum(a, **p), lambda a, axis, keepdims, split_every: np.sum(a, axis=axis, keepdims=keepdims)),
 "max": (lambda nodes: [(i,) for i, n in enumerate(nodes) if n["v"].dtype != bool and n["v"].size > 0], lambda draw, vs: {"axis": axis_param(draw, vs[0]), "keepdims": draw(st.booleans())},
         lambda a, **p: xp.max(a, **p), lambda a, **p: np.max(a, **p)),
 "flip": (any1, lambda draw, vs: {"axis": axis_param(draw, vs[0])}, lambda a, **p: xp.flip(a, **p), lambda a, **p: np.flip(a, **p)),
 "T": (any1, lambda draw, vs: {"axes": tuple(draw(st.permutations(range(vs[0].ndim))))}, lambda a, axes: xp.permute_dims(a, axes), lambda a, axes: np.transpose(a, axes)),
 "index": (lambda nodes: [(i,) for i, n in enumerate(nodes) if n["v"].ndim > 0], None, lambda a, key: a[key], lambda a, key: a[key]),
 "rechunk": (lambda nodes: [(i,) for i, n in enumerate(nodes) if n["v"].ndim > 0 and n["v"].size > 0], lambda draw, vs: {"chunks": tuple(draw(chunk_st(s)) for s in vs[0].shape)}, lambda a, chunks: a.rechunk(chunks), lambda a, chunks: a),
 "concat": (lambda nodes: [(i, j) for i, a in enumerate(nodes) for j, b in enumerate(nodes) if a["v"].ndim == b["v"].ndim > 0 and a["v"].dtype == b["v"].dtype], None, lambda a, b, axis: xp.concat([a, b], axis=axis), lambda a, b, axis: np.concatenate([a, b], axis=axis)),
}
def index_params(draw, vs):
    key = []
    for n in vs[0].shape:
        c = draw(st.integers(0, 9))
        if c < 2 and n > 0: key.append(draw(st.integers(-n, n-1)))
        elif c < 3: key.append(slice(None))
        else:
            key.append(slice(draw(st.one_of(st.none(), st.integers(-n-1, n+1))), draw(st.one_of(st.none(), st.integers(-n-1, n+1))), draw(st.sampled_from([None, 1, 2, 3, -1, -2]))))
    return {"key": tuple(key)}
def concat_params(draw, vs):
    a, b = vs
    axes = [ax for ax in range(a.ndim) if all(a.shape[i] == b.shape[i] for i in range(a.ndim) if i != ax)]
    if not axes: return None
    return {"axis": draw(st.sampled_from(axes))}
OPS["index"] = (OPS["index"][0], index_params) + OPS["index"][2:]
OPS["concat"] = (OPS["concat"][0], concat_params) + OPS["concat"][2:]
@st.composite
def programs(draw):
    nin = draw(st.integers(1, 3))
    inputs, nodes = [], []
    for k in range(nin):
        shape = draw(shapes()); dtype = draw(st.sampled_from(DTYPES))
        chunks = tuple(draw(chunk_st(s)) for s in shape)
        inputs.append({"shape": shape, "dtype": dtype, "chunks": chunks, "k": k})
        nodes.append({"v": pattern(shape, dtype, k)})
    ops = []
    for _ in range(draw(st.integers(0, 5))):
        cands = {name: OPS[name][0](nodes) for name in OPS}
        cands = {n: c for n, c in cands.items() if c}
        if not cands: break
        name = draw(st.sampled_from(sorted(cands)))
        args = draw(st.sampled_from(cands[name]))
        vs = [nodes[i]["v"] for i in args]
        params = OPS[name][1](draw, vs)
        if params is None: continue
        try: v = np.asarray(OPS[name][3](*vs, **params))
        except Exception: continue
        ops.append({"op": name, "args": list(args), "params": params}); nodes.append({"v": v})
    out = draw(st.integers(0, len(nodes)-1))
    return {"inputs": inputs, "ops": ops, "out": out}, nodes[out]["v"]
def build(prog, spec):
    arrs = [xp.asarray(pattern(i["shape"], i["dtype"], i["k"]), chunks=i["chunks"], spec=spec) for i in prog["inputs"]]
    for o in prog["ops"]:
        arrs.append(OPS[o["op"]][2](*[arrs[i] for i in o["args"]], **o["params"]))
    return arrs[prog["out"]]

def more_ops():
    def red(name, npf=None, need_nonempty=False, numeric=True):
        def app(nodes):
            return [(i,) for i, n in enumerate(nodes) if (n["v"].dtype != bool or not numeric) and (n["v"].size > 0 or not need_nonempty)]
        f = getattr(xp, name); g = npf or getattr(np, name)
        OPS[name] = (app, lambda draw, vs: {"axis": axis_param(draw, vs[0]), "keepdims": draw(st.booleans()), "split_every": draw(st.sampled_from([None, 2, 3]))},
                     lambda a, **p: f(a, **p), lambda a, axis, keepdims, split_every: g(a, axis=axis, keepdims=keepdims))
    red("mean", need_nonempty=True); red("min", need_nonempty=True); red("prod")
    def argapp(nodes): return [(i,) for i, n in enumerate(nodes) if n["v"].dtype != bool and n["v"].size > 0]
    OPS["argmax"] = (argapp, lambda draw, vs: {"axis": axis_param(draw, vs[0], allow_tuple=False), "keepdims": draw(st.booleans())}, lambda a, **p: xp.argmax(a, **p), lambda a, **p: np.argmax(a, **p))
    OPS["mul2"] = (unary_num, lambda draw, vs: {}, lambda a: a * 2, lambda a: a * 2)
    OPS["sub"] = (bcast_pairs, lambda draw, vs: {}, lambda a, b: xp.subtract(a, b), lambda a, b: np.subtract(a, b))
    OPS["expand"] = (any1, lambda draw, vs: {"axis": draw(st.integers(-(vs[0].ndim+1), vs[0].ndim))}, lambda a, axis: xp.expand_dims(a, axis=axis), lambda a, axis: np.expand_dims(a, axis))
    def mm(nodes): return [(i, j) for i, a in enumerate(nodes) for j, b in enumerate(nodes) if a["v"].ndim == 2 and b["v"].ndim == 2 and a["v"].shape[1] == b["v"].shape[0] and a["v"].dtype != bool and b["v"].dtype != bool]
    OPS["matmul"] = (mm, lambda draw, vs: {}, lambda a, b: xp.matmul(a, b), lambda a, b: np.matmul(a, b))
    def rp(nodes): return [(i,) for i, n in enumerate(nodes) if n["v"].ndim > 0]
    OPS["repeat"] = (rp, lambda draw, vs: {"repeats": draw(st.integers(1, 3)), "axis": draw(st.integers(0, vs[0].ndim-1))}, lambda a, **p: xp.repeat(a, p["repeats"], axis=p["axis"]), lambda a, **p: np.repeat(a, p["repeats"], axis=p["axis"]))
    OPS["roll"] = (rp, lambda draw, vs: {"shift": draw(st.integers(-5, 5)), "axis": draw(st.integers(0, vs[0].ndim-1))}, lambda a, **p: xp.roll(a, p["shift"], axis=p["axis"]), lambda a, **p: np.roll(a, p["shift"], axis=p["axis"]))
more_ops()

def build_all(prog, spec):
    arrs = [xp.asarray(pattern(i["shape"], i["dtype"], i["k"]), chunks=i["chunks"], spec=spec) for i in prog["inputs"]]
    for o in prog["ops"]:
        arrs.append(OPS[o["op"]][2](*[arrs[i] for i in o["args"]], **o["params"]))
    return arrs

@st.composite
def programs_multi(draw):
    prog, _ = draw(programs())
    # recompute all node values
    vals = [pattern(i["shape"], i["dtype"], i["k"]) for i in prog["inputs"]]
    for o in prog["ops"]:
        vals.append(np.asarray(OPS[o["op"]][3](*[vals[i] for i in o["args"]], **o["params"])))
    n = len(vals)
    outs = draw(st.lists(st.integers(0, n-1), min_size=1, max_size=3, unique=True))
    prog["outs"] = outs
    return prog, vals
