from hypothesis import given, seed, settings, strategies as st, HealthCheck, Phase
import json
@st.composite
def prog(draw):
    n = draw(st.integers(0, 6))
    xs = []
    for i in range(n):
        k = draw(st.sampled_from(["a", "b", "c", "d"]))
        v = draw(st.integers(0, 50))
        xs.append((k, v))
    return xs
def bucket(p):
    # "bug 1": any ('c', v>40); "bug 2": two consecutive 'a's with sum > 60
    for k, v in p:
        if k == "c" and v > 40: return "B1"
    for (k1, v1), (k2, v2) in zip(p, p[1:]):
        if k1 == k2 == "a" and v1 + v2 > 60: return "B2"
    return None
S = settings(max_examples=2000, database=None, deadline=None, suppress_health_check=list(HealthCheck))
seen = []
found = {}
@seed(123)
@settings(S, phases=[Phase.generate])
@given(prog())
def phase_a(p):
    seen.append(p)
    b = bucket(p)
    if b and b not in found: found[b] = (len(seen), p)
phase_a()
print("phase A", len(seen), found)
for target in found:
    seen_b = []; last = {}
    @seed(123)
    @settings(S, phases=[Phase.generate, Phase.shrink])
    @given(prog())
    def phase_b(p):
        seen_b.append(p)
        if bucket(p) == target:
            last["p"] = p
            raise AssertionError(target)
    try: phase_b()
    except AssertionError: pass
    first_fail_idx = next(i for i, p in enumerate(seen_b) if bucket(p) == target) + 1
    print(target, "first fail at", first_fail_idx, "same prefix:", seen_b[:first_fail_idx] == seen[:first_fail_idx], "minimal:", last["p"], "total execs", len(seen_b))
