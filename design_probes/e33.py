import numpy as np, cubed, cubed.array_api as xp, warnings, inspect
from zarr.storage import MemoryStore
from cubed.runtime.create import create_executor
ex = create_executor("single-threaded")
sp = cubed.Spec(intermediate_store=MemoryStore(), allowed_mem=50_000_000)
def t(name, f, e):
    try:
        r = f().compute(executor=ex); print(name, "OK" if r.shape == np.shape(e) and np.allclose(r, e) else f"MISMATCH got {r.tolist()} exp {np.asarray(e).tolist()}")
    except Exception as ex_: print(name, "EXC", type(ex_).__name__, str(ex_)[:100])
for n, c, k in [(5, 2, 2), (7, 3, 2), (5, 2, 3), (9, 4, 2), (4, 1, 2), (4, 1, 3)]:
    d = np.arange(n) ** 3
    t(f"diff n={k} len={n} chunk={c}", lambda: xp.diff(xp.asarray(d, chunks=c, spec=sp), n=k), np.diff(d, n=k))
import cubed.array_api.elementwise_functions as ef
print(inspect.getsource(ef.clip))
d = np.arange(6.)
t("clip(x, 1, None)", lambda: xp.clip(xp.asarray(d, chunks=2, spec=sp), 1, None), np.clip(d, 1, None))
t("clip(x, None, 3)", lambda: xp.clip(xp.asarray(d, chunks=2, spec=sp), None, 3), np.clip(d, None, 3))
t("clip(x, max=3)", lambda: xp.clip(xp.asarray(d, chunks=2, spec=sp), max=3), np.clip(d, max=3))
m = np.random.default_rng(0).random((6, 2))
for ch in [(6, 2), (3, 2), (2, 2)]:
    t(f"svdvals 6x2 chunks {ch}", lambda: xp.linalg.svdvals(xp.asarray(m, chunks=ch, spec=sp)), np.linalg.svd(m, compute_uv=False))
m2 = np.random.default_rng(0).random((3, 3))
t("svdvals 3x3 single", lambda: xp.linalg.svdvals(xp.asarray(m2, chunks=(3, 3), spec=sp)), np.linalg.svd(m2, compute_uv=False))
