import numpy as np, cubed, cubed.array_api as xp, warnings, collections, itertools
from zarr.storage import MemoryStore
from cubed.runtime.create import create_executor
from e28 import data
warnings.simplefilter("ignore"); np.seterr(all="ignore")
ex = create_executor("single-threaded")
sp = cubed.Spec(intermediate_store=MemoryStore(), allowed_mem=50_000_000)
DT = [np.bool_, np.int8, np.int64, np.uint8, np.uint64, np.float32, np.float64, np.complex64, np.complex128]
RED = {"sum": np.sum, "prod": np.prod, "mean": np.mean, "var": np.var, "std": np.std, "max": np.max, "min": np.min, "all": np.all, "any": np.any,
       "argmax": np.argmax, "argmin": np.argmin, "count_nonzero": np.count_nonzero, "cumulative_sum": np.cumulative_sum, "cumulative_prod": np.cumulative_prod}
NAN = {"nansum": np.nansum, "nanprod": np.nanprod, "nanmean": np.nanmean, "nanvar": np.nanvar, "nanstd": np.nanstd, "nanmax": np.nanmax, "nanmin": np.nanmin,
       "nanargmax": np.nanargmax, "nanargmin": np.nanargmin, "nancumsum": np.nancumsum, "nancumprod": np.nancumprod, "nanmedian": np.nanmedian}
res = collections.defaultdict(list)
def run(n, cf, nf, dt, chunks, axis, withnan):
    d = data(dt)
    if not withnan and d.dtype.kind in "fc": d = np.nan_to_num(d, nan=2.0, posinf=9.0)
    kw = {"axis": axis}
    if n.startswith("cum") or n.startswith("nancum"):
        if axis is None: return
    try: r = cf(xp.asarray(d, chunks=chunks, spec=sp), **kw)
    except (TypeError, ValueError, NotImplementedError) as e_: res[n, "declined", type(e_).__name__].append(np.dtype(dt).name); return
    except Exception as e_: res[n, "BUILD-FAIL", type(e_).__name__].append((np.dtype(dt).name, chunks, axis)); return
    try: e = np.asarray(nf(d, **kw))
    except Exception as ee: res[n, "numpy-raises", type(ee).__name__].append((np.dtype(dt).name, axis)); return
    try: got = r.compute(executor=ex)
    except Exception as ee: res[n, "EXEC-FAIL", type(ee).__name__ + ":" + str(ee)[:40]].append((np.dtype(dt).name, chunks, axis)); return
    if got.shape != e.shape: res[n, "SHAPE"].append((np.dtype(dt).name, chunks, axis, got.shape, e.shape)); return
    rt = 1e-5 if np.dtype(dt) in (np.dtype(np.float32), np.dtype(np.complex64)) else 1e-9
    if not np.allclose(got.astype(np.complex128), e.astype(np.complex128), equal_nan=True, rtol=rt, atol=rt): res[n, "VALUE", f"cubed {got.dtype} np {e.dtype}"].append((np.dtype(dt).name, chunks, axis))
    elif got.dtype != e.dtype: res[n, "dtype-only", f"cubed {got.dtype} np {e.dtype}"].append(np.dtype(dt).name)
for n, nf in RED.items():
    for dt in DT:
        for chunks in [(3, 4), (2, 3), (1, 1)]:
            for axis in [None, 0, 1]:
                run(n, getattr(xp, n), nf, dt, chunks, axis, False)
for n, nf in NAN.items():
    for dt in [np.float32, np.float64, np.int64]:
        for chunks in [(3, 4), (2, 3), (1, 1)]:
            for axis in [None, 0, 1]:
                run(n, getattr(cubed, n), nf, dt, chunks, axis, True)
for k, v in sorted(res.items(), key=str):
    if k[1] in ("declined", "dtype-only"): print(k, sorted(set(map(str, v)))[:9]); continue
    print(k, len(v), v[:5])
