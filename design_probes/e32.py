import numpy as np, cubed, cubed.array_api as xp, random, collections, traceback, warnings, sys, json
from zarr.storage import MemoryStore
from cubed.runtime.create import create_executor
warnings.simplefilter("ignore"); np.seterr(all="ignore")
rnd = random.Random(int(sys.argv[1])); N = int(sys.argv[2])
ex = create_executor("single-threaded")
DTS = [np.int64, np.float64, np.int8, np.uint8, np.float32, np.bool_, np.complex128]
def mk(shape, dtype, spec, k=0, chunks=None):
    n = int(np.prod(shape)) if shape else 1
    data = ((np.arange(n) * 7 + k * 3) % 11 - 3)
    if np.dtype(dtype).kind == "u": data = np.abs(data)
    if np.dtype(dtype).kind == "b": data = data % 2
    data = data.astype(dtype).reshape(shape)
    if chunks is None: chunks = tuple(min(rnd.choice([1, 2, 3, max(s,1)]), max(s,1)) for s in shape)
    return data, xp.asarray(data, chunks=chunks, spec=spec)
def rshape(mind=0, maxd=3): return tuple(rnd.choice([1,2,3,4,5,6,7]) for _ in range(rnd.randint(mind, maxd)))
OPS = {}
def op(f): OPS[f.__name__] = f; return f
@op
def creation(spec):
    f = rnd.choice(["arange", "linspace", "eye", "full", "ones_like", "tri", "meshgrid", "astype", "from_array", "random_props"])
    if f == "arange":
        a, b, s = rnd.randint(-5, 5), rnd.randint(-5, 12), rnd.choice([1, 2, 3, -1, -2, 0.5]); c = rnd.randint(1, 4)
        e = np.arange(a, b, s); 
        if e.size == 0: return None
        return xp.arange(a, b, s, chunks=c, spec=spec), e, (f, a, b, s, c)
    if f == "linspace":
        a, b, n, ep = rnd.randint(-5, 5), rnd.randint(-5, 12), rnd.randint(1, 9), rnd.random() < 0.5; c = rnd.randint(1, 4)
        return xp.linspace(a, b, n, endpoint=ep, chunks=c, spec=spec), np.linspace(a, b, n, endpoint=ep), (f, a, b, n, ep, c)
    if f == "eye":
        n, m, k = rnd.randint(1, 6), rnd.choice([None, 1, 3, 6]), rnd.randint(-3, 3); c = rnd.randint(1, 4)
        return xp.eye(n, m, k=k, chunks=c, spec=spec), np.eye(n, m, k=k), (f, n, m, k, c)
    if f == "full":
        s = rshape(); v = rnd.choice([0, 3, 2.5, True, 1+2j]); c = tuple(rnd.randint(1, max(x,1)) for x in s)
        return xp.full(s, v, chunks=c, spec=spec), np.full(s, v), (f, s, v, c)
    if f == "ones_like":
        d, a = mk(rshape(), rnd.choice(DTS), spec); return xp.ones_like(a) + xp.zeros_like(a) , np.ones_like(d) + np.zeros_like(d), (f, a.shape, a.chunks) if d.dtype != bool else None
    if f == "tri":
        d, a = mk(rshape(2, 3), rnd.choice(DTS), spec); k = rnd.randint(-3, 3); g = rnd.choice(["tril", "triu"])
        return getattr(xp, g)(a, k=k), getattr(np, g)(d, k=k), (g, a.shape, a.chunks, str(d.dtype), k)
    if f == "meshgrid":
        d1, a1 = mk((rnd.randint(1, 5),), np.int64, spec); d2, a2 = mk((rnd.randint(1, 5),), np.int64, spec, 1); ix = rnd.choice(["xy", "ij"]); j = rnd.randint(0, 1)
        return xp.meshgrid(a1, a2, indexing=ix)[j], np.meshgrid(d1, d2, indexing=ix)[j], (f, a1.chunks, a2.chunks, ix, j)
    if f == "astype":
        d, a = mk(rshape(), rnd.choice([np.int64, np.float64, np.int8, np.bool_]), spec); t = rnd.choice([np.int64, np.float64, np.int8, np.bool_, np.float32, np.complex128])
        return xp.astype(a, t), d.astype(t), (f, a.shape, str(d.dtype), str(np.dtype(t)))
    if f == "from_array":
        s = rshape(); d = mk(s, np.float64, spec)[0]; c = tuple(rnd.randint(1, max(x,1)) for x in s)
        return cubed.from_array(d, chunks=c, spec=spec) * 2, d * 2, (f, s, c)
    if f == "random_props":
        s = rshape(1, 2); c = tuple(rnd.randint(1, max(x,1)) for x in s)
        r = cubed.random.random(s, chunks=c, spec=spec); v1 = r.compute(executor=ex); v2 = r.compute(executor=ex)
        ok = np.array_equal(v1, v2) and ((v1 >= 0) & (v1 < 1)).all()
        return xp.asarray(np.array(ok), spec=spec), np.array(True), (f, s, c)
@op
def search(spec):
    f = rnd.choice(["where", "searchsorted_default", "isin", "count_nonzero", "take", "clip", "mixed_concat", "mixed_stack", "diff_pa", "pad_sym", "overlap", "blocks", "tensordot_axes", "matmul_nd", "std_corr", "sum_dtype", "expand_multi", "squeeze_multi", "roll_multi", "flip_multi", "repeat_none", "map_blocks_bid", "svdvals", "qr_ok"])
    if f == "where":
        s = rshape(); d, a = mk(s, rnd.choice(DTS), spec); d2, a2 = mk(s, rnd.choice(DTS), spec, 1); dc, ac = mk(s, np.bool_, spec, 2)
        return xp.where(ac, a, a2), np.where(dc, d, d2), (f, s, str(d.dtype), str(d2.dtype))
    if f == "searchsorted_default":
        n = rnd.randint(1, 8); d = np.sort(mk((n,), np.int64, spec)[0]); c = rnd.randint(1, n); d2, _ = mk(rshape(0, 2), np.int64, spec, 1); side = rnd.choice(["left", "right"])
        a = xp.asarray(d, chunks=c); a2 = xp.asarray(d2, chunks=tuple(rnd.randint(1, max(x,1)) for x in d2.shape))
        return xp.searchsorted(a, a2, side=side), np.searchsorted(d, d2, side=side), (f, d.tolist(), c, d2.shape, side)
    if f == "isin":
        d, a = mk(rshape(), np.int64, spec); d2, a2 = mk(rshape(1, 2), np.int64, spec, 1); inv = rnd.random() < 0.3
        return xp.isin(a, a2, invert=inv), np.isin(d, d2, invert=inv), (f, a.shape, a.chunks, a2.shape, a2.chunks, inv)
    if f == "count_nonzero":
        d, a = mk(rshape(), rnd.choice(DTS), spec); nd = d.ndim; ax = rnd.choice([None] + list(range(nd))); kd = rnd.random() < 0.5
        return xp.count_nonzero(a, axis=ax, keepdims=kd), np.count_nonzero(d, axis=ax, keepdims=kd), (f, a.shape, a.chunks, ax, kd)
    if f == "take":
        d, a = mk(rshape(1, 3), np.int64, spec); ax = rnd.choice([None] + list(range(d.ndim))); n = d.size if ax is None else d.shape[ax]
        idx = np.array([rnd.randrange(-n, n) for _ in range(rnd.randint(1, 5))])
        return xp.take(a, idx, axis=ax), np.take(d, idx, axis=ax), (f, a.shape, a.chunks, idx.tolist(), ax)
    if f == "clip":
        d, a = mk(rshape(), rnd.choice([np.int64, np.float64, np.int8]), spec); lo, hi = rnd.choice([None, 0, 1]), rnd.choice([None, 3, 5])
        if lo is None and hi is None: lo = 0
        return xp.clip(a, lo, hi), np.clip(d, lo, hi), (f, a.shape, str(d.dtype), lo, hi)
    if f in ("mixed_concat", "mixed_stack"):
        s = rshape(1, 2); t1, t2 = rnd.choice(DTS), rnd.choice(DTS); c = tuple(rnd.randint(1, x) for x in s)
        d1, a1 = mk(s, t1, spec, 0, c); d2, a2 = mk(s, t2, spec, 1, c)
        try: np.result_type(d1, d2)
        except Exception: return None
        if f == "mixed_concat": return xp.concat([a1, a2]), np.concatenate([d1, d2]), (f, s, c, str(d1.dtype), str(d2.dtype))
        return xp.stack([a1, a2]), np.stack([d1, d2]), (f, s, c, str(d1.dtype), str(d2.dtype))
    if f == "diff_pa":
        s = rshape(1, 2); d, a = mk(s, np.int64, spec); ax = rnd.randrange(len(s)); ps = list(s); ps[ax] = rnd.randint(1, 3)
        dp, ap = mk(tuple(ps), np.int64, spec, 1); da, aa = mk(tuple(ps), np.int64, spec, 2); n = rnd.randint(1, 2)
        kw, kwn = {}, {}
        if rnd.random() < 0.7: kw["prepend"] = ap; kwn["prepend"] = dp
        if rnd.random() < 0.7: kw["append"] = aa; kwn["append"] = da
        return xp.diff(a, axis=ax, n=n, **kw), np.diff(d, axis=ax, n=n, **kwn), (f, s, a.chunks, ax, n, list(kw))
    if f == "pad_sym":
        s = rshape(1, 2); d, a = mk(s, np.int64, spec); ax = rnd.randrange(len(s)); pw = tuple((1, 0) if i == ax else (0, 0) for i in range(len(s)))
        return cubed.pad(a, pw, mode="symmetric"), np.pad(d, pw, mode="symmetric"), (f, s, a.chunks, ax)
    if f == "overlap":
        s = rshape(1, 2); d, a = mk(s, np.int64, spec); dep = rnd.randint(1, 2)
        if any(c < dep for c in a.chunksize): return None
        def fn(x): return x * 1
        r = cubed.map_overlap(lambda x: x[tuple(slice(dep, -dep) for _ in range(x.ndim))], a, dtype=a.dtype, chunks=a.chunks, depth=dep, boundary=0)
        return r, d, (f, s, a.chunks, dep)
    if f == "blocks":
        s = rshape(1, 2); d, a = mk(s, np.int64, spec); key = tuple(rnd.randrange(nb) for nb in a.numblocks)
        sl = tuple(slice(sum(c[:k]), sum(c[:k+1])) for c, k in zip(a.chunks, key))
        return a.blocks[key], d[sl], (f, s, a.chunks, key)
    if f == "tensordot_axes":
        s1 = rshape(2, 3); ax1 = rnd.sample(range(len(s1)), rnd.randint(1, 2)); s2e = [s1[i] for i in ax1] + [rnd.randint(1, 3)]
        perm = list(range(len(s2e))); rnd.shuffle(perm); s2 = tuple(s2e[i] for i in perm); ax2 = [perm.index(i) for i in range(len(ax1))]
        d1, a1 = mk(s1, np.int64, spec); d2, a2 = mk(s2, np.int64, spec, 1)
        return xp.tensordot(a1, a2, axes=(tuple(ax1), tuple(ax2))), np.tensordot(d1, d2, axes=(ax1, ax2)), (f, s1, a1.chunks, s2, a2.chunks, ax1, ax2)
    if f == "matmul_nd":
        b1 = rshape(0, 2); m, k, n = rnd.randint(1, 4), rnd.randint(1, 4), rnd.randint(1, 4)
        b2 = tuple(x if rnd.random() < 0.7 else 1 for x in b1)[rnd.randint(0, len(b1)):]
        c1 = rnd.random() < 0.15; c2 = rnd.random() < 0.15
        d1, a1 = mk((k,) if c1 else b1 + (m, k), rnd.choice([np.int64, np.float64]), spec); d2, a2 = mk((k,) if c2 else b2 + (k, n), rnd.choice([np.int64, np.float64]), spec, 1)
        return xp.matmul(a1, a2), np.matmul(d1, d2), (f, a1.shape, a1.chunks, a2.shape, a2.chunks)
    if f == "std_corr":
        d, a = mk(rshape(1, 3), rnd.choice([np.int64, np.float64, np.float32]), spec); ax = rnd.choice([None] + list(range(d.ndim))); corr = rnd.choice([0, 1, 0.5]); g = rnd.choice(["std", "var"])
        n = d.size if ax is None else d.shape[ax]
        if n - corr <= 0: return None
        return getattr(xp, g)(a, axis=ax, correction=corr), getattr(np, g)(d, axis=ax, ddof=corr), (g, a.shape, a.chunks, str(d.dtype), ax, corr)
    if f == "sum_dtype":
        d, a = mk(rshape(), rnd.choice([np.int8, np.uint8, np.float32, np.bool_]), spec); t = rnd.choice([None, np.int64, np.float64, np.float32]); g = rnd.choice(["sum", "prod", "cumulative_sum"])
        if g == "cumulative_sum":
            if d.ndim == 0: return None
            ax = rnd.randrange(d.ndim); return xp.cumulative_sum(a, axis=ax, dtype=t), np.cumulative_sum(d, axis=ax, dtype=t), (g, a.shape, a.chunks, str(d.dtype), str(t))
        return getattr(xp, g)(a, dtype=t), getattr(np, g)(d, dtype=t), (g, a.shape, a.chunks, str(d.dtype), str(t))
    if f == "expand_multi":
        d, a = mk(rshape(0, 2), np.int64, spec); k = rnd.randint(1, 2); axes = tuple(sorted(rnd.sample(range(d.ndim + k), k)))
        return xp.expand_dims(a, axis=axes), np.expand_dims(d, axes), (f, a.shape, axes)
    if f == "squeeze_multi":
        s = tuple(rnd.choice([1, 1, 3]) for _ in range(rnd.randint(1, 4))); d, a = mk(s, np.int64, spec); ones = [i for i, x in enumerate(s) if x == 1]
        if not ones: return None
        axes = tuple(rnd.sample(ones, rnd.randint(1, len(ones))))
        return xp.squeeze(a, axis=axes), np.squeeze(d, axis=axes), (f, s, a.chunks, axes)
    if f == "roll_multi":
        s = rshape(2, 3); d, a = mk(s, np.int64, spec); axes = tuple(rnd.sample(range(len(s)), 2)); sh = (rnd.randint(-4, 4), rnd.randint(-4, 4))
        return xp.roll(a, sh, axis=axes), np.roll(d, sh, axis=axes), (f, s, a.chunks, sh, axes)
    if f == "flip_multi":
        s = rshape(2, 3); d, a = mk(s, np.int64, spec); axes = tuple(rnd.sample(range(len(s)), 2))
        return xp.flip(a, axis=axes), np.flip(d, axis=axes), (f, s, a.chunks, axes)
    if f == "repeat_none":
        s = rshape(1, 3); d, a = mk(s, np.int64, spec); r = rnd.randint(1, 3)
        return xp.repeat(a, r, axis=None), np.repeat(d, r, axis=None), (f, s, a.chunks, r)
    if f == "map_blocks_bid":
        s = rshape(1, 2); d, a = mk(s, np.int64, spec)
        def fn(x, block_id=None): return x + sum(b * 10**i for i, b in enumerate(block_id))
        e = d.copy()
        import itertools
        for bid in itertools.product(*[range(n) for n in a.numblocks]):
            sl = tuple(slice(sum(c[:k]), sum(c[:k+1])) for c, k in zip(a.chunks, bid)); e[sl] += sum(b * 10**i for i, b in enumerate(bid))
        return cubed.map_blocks(fn, a, dtype=a.dtype), e, (f, s, a.chunks)
    if f in ("svdvals", "qr_ok"):
        n = rnd.randint(1, 4); rows = rnd.randint(n, 12); c = rnd.randint(n, rows)
        if rows % c and rows % c < n: return None
        d = np.random.default_rng(rnd.randint(0, 10**6)).random((rows, n)); a = xp.asarray(d, chunks=(c, n), spec=spec)
        if f == "svdvals": return xp.linalg.svdvals(a), np.linalg.svd(d, compute_uv=False), (f, rows, n, c)
        Q, R = xp.linalg.qr(a); return Q @ R, d, (f, rows, n, c)
stats = collections.Counter(); examples = {}
for it in range(N):
    name = rnd.choice(list(OPS)); info = None
    spec = cubed.Spec(intermediate_store=MemoryStore(), allowed_mem=100_000_000)
    phase = "build"
    try:
        try: out = OPS[name](spec)
        except Exception as ee:
            tb = traceback.extract_tb(ee.__traceback__)
            if not any("/repo/cubed" in fr.filename for fr in tb): stats[name, "numpy/gen error", type(ee).__name__] += 1; continue
            raise
        if out is None: continue
        r, e, info = out
        if info is None: continue
        phase = "compute"
        got = r.compute(executor=ex, optimize_graph=rnd.random() < 0.5)
        e = np.asarray(e)
        if got.shape != e.shape: key = (info[0], "SHAPE")
        elif not np.allclose(got.astype(np.complex128), e.astype(np.complex128), equal_nan=True, rtol=1e-5, atol=1e-8): key = (info[0], "VALUE")
        else: key = ("ok",)
    except Exception as ee:
        tb = traceback.extract_tb(ee.__traceback__); last = [fr for fr in tb if "/repo/cubed" in fr.filename]
        where = f"{last[-1].filename.split('/repo/')[-1]}:{last[-1].name}" if last else "?"
        key = (name, phase, type(ee).__name__, where, str(ee)[:70])
    stats[key] += 1
    if key != ("ok",): examples.setdefault(key, info)
for k, v in sorted(stats.items(), key=str): print(v, k)
print("---- examples")
for k, v in examples.items(): print(k, "::", v)
