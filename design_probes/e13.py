import numpy as np, cubed, cubed.array_api as xp, tempfile, os, glob, json
from tstore2 import *
from cubed.runtime.create import create_executor
def main():
    wd = tempfile.mkdtemp(); logdir = tempfile.mkdtemp()
    ts = FileTraceStore(LocalStore(wd), logdir, delay_ms=20)
    spec = cubed.Spec(intermediate_store=ts, allowed_mem=10_000_000)
    an = np.arange(48).reshape(6,8)
    a = xp.asarray(an, chunks=(2,3), spec=spec)
    x = xp.negative(a); y = xp.sum(x * 2, axis=0)
    for exn in ["threads", "processes"]:
        r = y.compute(executor=create_executor(exn, {"max_workers": 4}), optimize_graph=False)
        print(exn, np.array_equal(r, (-an*2).sum(axis=0)))
        recs = []
        for f in glob.glob(logdir + "/*.log"):
            recs += [json.loads(l) for l in open(f)]
            os.remove(f)
        recs.sort()
        print(len(recs), len({r[1] for r in recs}), "pids")
        # check gets after sets
        set_end = {}; bad = 0; miss = 0
        for t, pid, kind, key, *rest in recs:
            if "/c/" not in key: continue
            if kind == "set_end": set_end[key] = t
            if kind == "get_start" and key not in set_end: bad += 1
            if kind == "get_end" and not rest[0]: miss += 1
        print("premature gets", bad, "missed", miss)
if __name__ == "__main__": main()
