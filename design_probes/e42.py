import numpy as np, cubed, cubed.array_api as xp, tempfile, tracemalloc, zarr, os, gc, sys, shutil
from cubed.runtime.types import DagExecutor
from cubed.runtime.pipeline import visit_nodes
class MemExec(DagExecutor):
    name = "mem"
    def __init__(self): super().__init__(); self.rows = []
    def execute_dag(self, dag, callbacks=None, spec=None, compute_id=None, **kw):
        for name, node in visit_nodes(dag):
            p = node["pipeline"]; po = node["primitive_op"]
            for m in p.mappable:
                gc.collect(); tracemalloc.start(); base = tracemalloc.get_traced_memory()[0]; tracemalloc.reset_peak()
                p.function(m, config=p.config)
                peak = tracemalloc.get_traced_memory()[1] - base; tracemalloc.stop()
                self.rows.append((name, node.get("func_name"), peak, po.projected_mem))
R = 300_000
def run(label, build, shape, chunks, dtype, compressor="auto", nin=1):
    wd = tempfile.mkdtemp()
    spec = cubed.Spec(wd, allowed_mem=4_000_000_000, reserved_mem=R, zarr_compressor=compressor)
    ins = []
    for k in range(nin):
        rng = np.random.default_rng(k)
        data = (rng.random(shape) * 100).astype(dtype)
        z = zarr.create_array(os.path.join(wd, f"in{k}.zarr"), shape=shape, chunks=chunks, dtype=dtype, compressors=None if compressor is None else "auto"); z[...] = data
        ins.append(cubed.from_zarr(os.path.join(wd, f"in{k}.zarr"), spec=spec))
    try:
        out = build(*ins)
        outs = out if isinstance(out, (tuple, list)) else [out]
        for opt in (False, True):
            ex = MemExec(); cubed.compute(*outs, executor=ex, optimize_graph=opt, _return_in_memory_array=False)
            worst = None
            for name, fn, peak, proj in ex.rows:
                if name == "create-arrays": continue
                if worst is None or peak - proj > worst[2] - worst[3]: worst = (name, fn, peak, proj)
            flag = "UNDER" if worst[2] > worst[3] else ""
            print(f"{label:28s} {np.dtype(dtype).name:8s} {'opt' if opt else 'raw'} worst {worst[1]:16s} {worst[2]/1e6:7.2f}/{worst[3]/1e6:7.2f} MB {flag}")
    except Exception as e:
        print(f"{label:28s} EXC {type(e).__name__} {str(e)[:80]}")
    shutil.rmtree(wd, ignore_errors=True)
S, C = (2000, 1000), (1000, 500)
cases = [
 ("pad const", lambda a: cubed.pad(a, ((3, 3), (0, 0)), mode="constant"), S, C, 1),
 ("diff axis0", lambda a: xp.diff(a, axis=0), S, C, 1),
 ("diff axis1 n=2", lambda a: xp.diff(a, axis=1, n=2), S, C, 1),
 ("reshape", lambda a: xp.reshape(a, (2000, 10, 100)), S, C, 1),
 ("broadcast_to", lambda a: xp.broadcast_to(a, (3,) + S), S, C, 1),
 ("tile", lambda a: xp.tile(a, (2, 1)), S, C, 1),
 ("take idx", lambda a: xp.take(a, np.arange(0, 2000, 3), axis=0), S, C, 1),
 ("where", lambda a, b: xp.where(a > 50, a, b), S, C, 2),
 ("isin", lambda a: xp.isin(a, xp.asarray(np.arange(10.0), spec=a.spec)), S, C, 1),
 ("astype f32", lambda a: xp.astype(a, np.float32), S, C, 1),
 ("stack", lambda a, b: xp.stack([a, b]), S, C, 2),
 ("unstack", lambda a: xp.unstack(a.rechunk((2, 1000)) if False else a[:4].rechunk((4, 500)), axis=0), S, C, 1),
 ("roll", lambda a: xp.roll(a, 7, axis=0), S, C, 1),
 ("prod", lambda a: xp.prod(a, axis=1), S, C, 1),
 ("max all", lambda a: xp.max(a), S, C, 1),
 ("std", lambda a: xp.std(a, axis=0), S, C, 1),
 ("nansum", lambda a: cubed.nansum(a, axis=0), S, C, 1),
 ("nanmean", lambda a: cubed.nanmean(a, axis=0), S, C, 1),
 ("nanmax", lambda a: cubed.nanmax(a, axis=1), S, C, 1),
 ("cumsum axis1", lambda a: xp.cumulative_sum(a, axis=1), S, C, 1),
 ("outer", lambda a: xp.linalg.outer(a[:, 0], a[0, :]), S, C, 1),
 ("tensordot", lambda a, b: xp.tensordot(a, b.T, axes=1), (1000, 1000), (500, 500), 2),
 ("vecdot", lambda a, b: xp.vecdot(a, b), S, C, 2),
 ("tril", lambda a: xp.tril(a), S, C, 1),
 ("qr", lambda a: xp.linalg.qr(a), (4000, 100), (1000, 100), 1),
 ("svdvals", lambda a: xp.linalg.svdvals(a), (4000, 100), (1000, 100), 1),
 ("expand+squeeze", lambda a: xp.squeeze(xp.expand_dims(a, axis=0), axis=0), S, C, 1),
 ("flip both", lambda a: xp.flip(a), S, C, 1),
 ("concat axis1", lambda a, b: xp.concat([a, b], axis=1), S, C, 2),
 ("index int", lambda a: a[5], S, C, 1),
 ("index offset", lambda a: a[100:1900, 37:], S, C, 1),
 ("blocks", lambda a: a.blocks[1, 0], S, C, 1),
 ("merge_chunks", lambda a: cubed.core.ops.merge_chunks(a, (2000, 500)), S, C, 1),
 ("map_blocks", lambda a: cubed.map_blocks(lambda x: x + 1, a, dtype=a.dtype), S, C, 1),
 ("searchsorted", lambda a: xp.searchsorted(xp.asarray(np.arange(1000.)), a), S, C, 1),
 ("count_nonzero", lambda a: xp.count_nonzero(a, axis=0), S, C, 1),
 ("all", lambda a: xp.all(a > 1, axis=1), S, C, 1),
 ("mean int8", lambda a: xp.mean(a, axis=0), S, C, 1),
]
sel = sys.argv[1:] 
for label, b, s, c, nin in cases:
    if sel and label not in sel: continue
    dt = np.int8 if label.endswith("int8") else np.float64
    run(label, b, s, c, dt, None if os.environ.get("NOCOMP") else "auto", nin)
