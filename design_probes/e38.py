"""C06 probe: permutations, duplicates at 3 timings, cloudpickle round trip; compare all chunk contents and set-bytes."""
import sys, json, numpy as np, cubed, warnings, collections, cloudpickle, zarr
from hypothesis import given, seed, settings, strategies as st, HealthCheck, Phase
from zarr.storage import MemoryStore, LocalStore
import tempfile, os, shutil
from cubed.runtime.types import DagExecutor
from cubed.runtime.pipeline import visit_nodes
from miniir import *
from tstore3 import CrashStore, CUR
SEED = int(sys.argv[1]); N = int(sys.argv[2])
class Sched(DagExecutor):
    name = "s"
    def __init__(self, data=None, pickle=False): super().__init__(); self.data = data; self.pickle = pickle; self.n = 0; self.late = 0
    def call(self, p, m):
        f, mm, cfg = (cloudpickle.loads(cloudpickle.dumps((p.function, m, p.config))) if self.pickle else (p.function, m, p.config))
        f(mm, config=cfg); self.n += 1
    def execute_dag(self, dag, callbacks=None, spec=None, compute_id=None, **kw):
        draw = self.data.draw if self.data else None
        done = []; pending_late = []
        for name, node in visit_nodes(dag):
            p = node["pipeline"]; ms = list(p.mappable)
            if draw and len(ms) > 1: ms = draw(st.permutations(ms))
            after_op = []
            for m in ms:
                self.call(p, m)
                if draw:
                    c = draw(st.integers(0, 9))
                    if c == 0: self.call(p, m)
                    elif c == 1: after_op.append((p, m))
                    elif c == 2: pending_late.append((p, m))
            for p2, m2 in after_op: self.call(p2, m2)
            # duplicates of earlier ops after this (downstream) op ran
            if draw and pending_late and draw(st.booleans()):
                for p2, m2 in pending_late: self.call(p2, m2); self.late += 1
                pending_late = []
        for p2, m2 in pending_late: self.call(p2, m2); self.late += 1
stats = collections.Counter(); fails = {}
def fail(k, prog, extra=None): stats[k] += 1; fails.setdefault(k, (prog, extra))
def norm(ms, names):
    out = {}
    for k, v in ms._store_dict.items():
        parts = k.split("/", 1); out[(names.get(parts[0], parts[0]), parts[1] if len(parts) > 1 else "")] = bytes(v.to_bytes())
    return out
@seed(SEED)
@settings(max_examples=N, database=None, deadline=None, suppress_health_check=list(HealthCheck), phases=[Phase.generate])
@given(programs_multi(), st.booleans(), st.booleans(), st.data())
def run(pv, optimize, pickle, data):
    prog, vals = pv
    def go(ex):
        if ex.pickle:
            d = tempfile.mkdtemp(); ms = LocalStore(d)
        else: ms = MemoryStore()
        cs = CrashStore(ms)
        spec = cubed.Spec(intermediate_store=cs, allowed_mem=100_000_000, zarr_compressor=None)
        arrs = build_all(prog, spec)
        # add a random array to the program
        r = cubed.random.random((4, 6), chunks=(2, 3), spec=spec)
        outs = [arrs[i] for i in prog["outs"]] + [r * 2]
        res = cubed.compute(*outs, executor=ex, optimize_graph=optimize)
        names = {a.name: f"node{i}" for i, a in enumerate(arrs)}
        return ms, cs, res, names, arrs
    try: ms1, cs1, r1, n1, a1 = go(Sched())
    except (ValueError, NotImplementedError, TypeError, IndexError): stats["declined"] += 1; return
    except Exception as e: stats["ref run fails:" + type(e).__name__] += 1; return
    ex2 = Sched(data, pickle)
    try: ms2, cs2, r2, n2, a2 = go(ex2)
    except Exception as e: fail("variant run fails:" + type(e).__name__ + str(e)[:60], prog, pickle); return
    stats["cases"] += 1; stats["late dups"] += ex2.late
    for x, y, i in zip(r1[:-1], r2[:-1], prog["outs"]):
        if not (x.shape == y.shape == vals[i].shape and np.allclose(x, vals[i], equal_nan=True) and np.array_equal(x, y, equal_nan=True)): fail("VALUE differs", prog)
    # random arrays: roots differ between builds so compare only determinism within run: repeated set bytes equal
    if pickle:
        stats['pickle cases'] += 1; shutil.rmtree(ms2.root, ignore_errors=True); return
    sets = collections.defaultdict(set)
    for l in cs2.state["log"]:
        if l[0] == "set" and ("/c/" in l[1] or l[1].endswith("/c")): sets[l[1]].add(l[3])
    multi = [k for k, v in sets.items() if len(v) > 1]
    if multi: fail("REPEATED SET BYTES DIFFER", prog, multi[:3])
    stats["keys rewritten"] += sum(1 for k in sets if sum(1 for l in cs2.state["log"] if l[0] == "set" and l[1] == k) > 1)
    # compare decoded chunk contents of every non-random array: compare raw bytes (no compressor) by positional array order
    def by_pos(ms, arrs):
        out = {}
        for i, a in enumerate(arrs):
            for k, v in ms._store_dict.items():
                if k.startswith(a.name + "/"): out[(i, k[len(a.name):])] = bytes(v.to_bytes())
        return out
    b1, b2 = by_pos(ms1, a1), by_pos(ms2, a2)
    diff = [k for k in set(b1) | set(b2) if b1.get(k) != b2.get(k) and not k[1].endswith("zarr.json")]
    if diff: fail("STORE CONTENT differs", prog, diff[:3])
run()
print(dict(stats))
for k, (p, x) in fails.items(): print(k, x, json.dumps(p, default=str)[:400])
