"""C15 part 1 probe: enumerate index expressions, compare with independent reference model."""
import itertools, collections, sys
from cubed.primitive.blockwise import make_blockwise_back_key_function_flattened, ChunkKey, FunctionArgs
SYMS = "ijkl"
stats = collections.Counter(); ex = {}
def seqs(symbols, maxlen):
    for n in range(0, maxlen + 1):
        for p in itertools.permutations(symbols, n): yield p
def reference(out_ind, argpairs, numblocks, dims, out_coords):
    # one key per argument; coordinate = output coordinate of that symbol, 0 if arg has one block there, 0 for contracted symbols (must be single block)
    pos = {s: i for i, s in enumerate(out_ind)}
    keys = []
    for name, ind in argpairs:
        coords = []
        for p, s in enumerate(ind):
            nb = numblocks[name][p]
            if s in pos: coords.append(out_coords[pos[s]] if nb > 1 else 0)
            else: coords.append(0)
        keys.append(ChunkKey(name, tuple(coords)))
    return keys
count = 0
nsym = int(sys.argv[1]); nargs_max = int(sys.argv[2])
syms = SYMS[:nsym]
for nargs in range(1, nargs_max + 1):
    for inds in itertools.product(list(seqs(syms, 2)), repeat=nargs):
        used = sorted(set(s for ind in inds for s in ind))
        for out_ind in seqs(used, len(used)):
            contracted = [s for s in used if s not in out_ind]
            for blocks in itertools.product([1, 2, 3], repeat=len(used)):
                dims = dict(zip(used, blocks))
                # per-arg broadcast choices: each (arg,pos) either full or 1
                slots = [(a, p) for a, ind in enumerate(inds) for p, s in enumerate(ind) if dims[s] > 1]
                for bc in itertools.product([False, True], repeat=len(slots)) if len(slots) <= 3 else [tuple(False for _ in slots)]:
                    bset = {sl for sl, b in zip(slots, bc) if b}
                    numblocks = {}; argpairs = []
                    for a, ind in enumerate(inds):
                        name = f"x{a}"
                        numblocks[name] = tuple(1 if (a, p) in bset else dims[s] for p, s in enumerate(ind))
                        argpairs.append((name, ind))
                    # each symbol must keep its size in at least one arg, else dims changes: skip inconsistent
                    eff = {}
                    for (name, ind) in argpairs:
                        for p, s in enumerate(ind): eff[s] = max(eff.get(s, 1), numblocks[name][p])
                    if eff != {s: dims[s] for s in eff}: continue
                    count += 1
                    flat = [x for pair in argpairs for x in pair]
                    must_raise = any(numblocks[name][p] > 1 for name, ind in argpairs for p, s in enumerate(ind) if s in contracted)
                    try:
                        kf = make_blockwise_back_key_function_flattened(None, "out", out_ind, *flat, numblocks=numblocks)
                    except ValueError:
                        stats["raised ValueError" if must_raise else "UNEXPECTED ValueError"] += 1
                        if not must_raise: ex.setdefault("UNEXPECTED ValueError", (out_ind, argpairs, numblocks))
                        continue
                    except Exception as e:
                        k = "BUILD " + type(e).__name__; stats[k] += 1; ex.setdefault(k, (out_ind, argpairs, numblocks)); continue
                    if must_raise: stats["MISSING ValueError"] += 1; ex.setdefault("MISSING ValueError", (out_ind, argpairs, numblocks)); continue
                    for oc in itertools.product(*[range(dims[s]) for s in out_ind]):
                        try:
                            got = kf(ChunkKey("out", oc))
                            gotk = list(got.args)
                        except Exception as e:
                            k = "CALL " + type(e).__name__; stats[k] += 1; ex.setdefault(k, (out_ind, argpairs, numblocks, oc)); break
                        exp = reference(out_ind, argpairs, numblocks, dims, oc)
                        if gotk != exp or got.output_name != "out":
                            first_has = any(s in contracted for s in argpairs[0][1]); k = "MISMATCH" + ((" (contraction in first arg)" if first_has else " (contraction only in later arg)") if contracted else ""); stats[k] += 1; ex.setdefault(k, (out_ind, argpairs, numblocks, oc, gotk, exp)); break
                    else: stats["ok"] += 1
print(count, dict(stats))
for k, v in ex.items(): print(k, v[:4], [(type(x.name).__name__, type(x.coords).__name__) for x in v[4]] if len(v) > 4 else "")
