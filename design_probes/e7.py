import random, warnings, math, collections
from math import prod
from cubed.vendor.rechunker.algorithm import multistage_rechunking_plan
from cubed.core.rechunk import multistage_regular_rechunking_plan
warnings.simplefilter("ignore")
rnd = random.Random(1)
stats = collections.Counter()
ex = {}
def check(kind, plan, shape, src, tgt, itemsize, min_mem, max_mem):
    errs = []
    if plan[0][0] is None: pass
    # stages chain
    for i,(r,ic,w) in enumerate(plan):
        for name, c in (("read", r), ("int", ic), ("write", w)):
            if any(x < 1 for x in c): errs.append(f"{name} <1")
            if itemsize*prod(c) > max_mem: errs.append(f"{name} chunk > max_mem")
            if any(x > n for x, n in zip(c, shape)): errs.append(f"{name} > shape")
        if i > 0 and plan[i-1][2] != r: errs.append("stages do not chain")
    # start: read chunks multiple of source or == shape
    r0 = plan[0][0]
    for n, rc, sc in zip(shape, r0, src):
        if not (rc % sc == 0 or rc == n): errs.append("first read not aligned with source")
    wl = plan[-1][2]
    for n, wc, tc in zip(shape, wl, tgt):
        if not (wc % tc == 0 or wc == n): errs.append("last write not aligned with target")
    return errs
for it in range(200000):
    nd = rnd.choice([1,2,3])
    shape = tuple(rnd.choice([1,2,3,5,7,10,13,50,64,100,101,1000]) for _ in range(nd))
    src = tuple(rnd.randint(1, n) for n in shape)
    tgt = tuple(rnd.randint(1, n) for n in shape)
    itemsize = rnd.choice([1,2,4,8,16])
    base = max(prod(src), prod(tgt))*itemsize
    max_mem = rnd.choice([base, base+1, base*2, base*3, base*10, max(base-1,1)])
    min_mem = rnd.choice([0, 1, itemsize, max_mem//20, max_mem//2, max_mem])
    for kind, f in (("irr", multistage_rechunking_plan), ("reg", multistage_regular_rechunking_plan)):
        try:
            plan = f(shape, src, tgt, itemsize, min_mem, max_mem)
        except ValueError as e:
            stats[kind, "ValueError"] += 1; continue
        except Exception as e:
            k = (kind, type(e).__name__, str(e)[:60])
            stats[k] += 1
            ex.setdefault(k, (shape, src, tgt, itemsize, min_mem, max_mem)); continue
        errs = check(kind, plan, shape, src, tgt, itemsize, min_mem, max_mem)
        stats[kind, "ok" if not errs else "bad"] += 1
        for e in set(errs):
            k = (kind, e)
            stats[k] += 1
            ex.setdefault(k, (shape, src, tgt, itemsize, min_mem, max_mem, plan))
for k, v in sorted(stats.items(), key=str): print(k, v)
for k, v in ex.items(): print(k, v)
