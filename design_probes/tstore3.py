import contextvars, hashlib
from zarr.storage import WrapperStore, MemoryStore
CUR = contextvars.ContextVar("cur_task3", default=None)
class Crash(Exception): pass
class CrashStore(WrapperStore):
    _supports_sync_io = False
    def __init__(self, store, state=None):
        super().__init__(store); self.state = state if state is not None else {"log": [], "crash_at": None, "nsets": 0}
    def _with_store(self, store): return type(self)(store, self.state)
    async def get(self, key, prototype, byte_range=None):
        r = await self._store.get(key, prototype, byte_range)
        self.state["log"].append(("get", key, CUR.get(), r is not None)); return r
    async def set(self, key, value):
        if "/c/" in key or key.endswith("/c"):
            self.state["nsets"] += 1
            if self.state["crash_at"] is not None and self.state["nsets"] == self.state["crash_at"]:
                raise Crash(key)
        self.state["log"].append(("set", key, CUR.get(), hashlib.sha1(value.to_bytes()).hexdigest()))
        return await self._store.set(key, value)
    async def delete(self, key):
        self.state["log"].append(("delete", key, CUR.get())); return await self._store.delete(key)
    async def set_if_not_exists(self, key, value):
        self.state["log"].append(("set_if_not_exists", key, CUR.get())); return await self._store.set_if_not_exists(key, value)
