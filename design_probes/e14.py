import numpy as np, cubed, cubed.array_api as xp, tempfile, tracemalloc, zarr, os, gc
from cubed.runtime.types import DagExecutor
from cubed.runtime.pipeline import visit_nodes
from zarr.storage import LocalStore, MemoryStore
class MemExec(DagExecutor):
    name = "mem"
    def __init__(self): super().__init__(); self.rows = []
    def execute_dag(self, dag, callbacks=None, spec=None, compute_id=None, **kw):
        for name, node in visit_nodes(dag):
            p = node["pipeline"]; po = node["primitive_op"]
            for m in p.mappable:
                gc.collect()
                tracemalloc.start()
                base = tracemalloc.get_traced_memory()[0]
                tracemalloc.reset_peak()
                p.function(m, config=p.config)
                peak = tracemalloc.get_traced_memory()[1] - base
                tracemalloc.stop()
                self.rows.append((name, node.get("func_name"), peak, po.projected_mem))
def run(build, shape, chunks, dtype, compressor, reserved=0):
    wd = tempfile.mkdtemp()
    spec = cubed.Spec(wd, allowed_mem=4_000_000_000, reserved_mem=reserved, zarr_compressor=compressor)
    rng = np.random.default_rng(0)
    data = (rng.random(shape)*100).astype(dtype)
    z = zarr.create_array(os.path.join(wd, "in.zarr"), shape=shape, chunks=chunks, dtype=dtype, compressors=None if compressor is None else "auto")
    z[...] = data
    a = cubed.from_zarr(os.path.join(wd, "in.zarr"), spec=spec)
    out = build(a)
    ex = MemExec()
    for opt in (False, True):
        ex.rows = []
        out.compute(executor=ex, optimize_graph=opt)
        worst = {}
        for name, fn, peak, proj in ex.rows:
            if name == "create-arrays": continue
            k = (name, fn)
            if k not in worst or peak/proj > worst[k][0]/worst[k][1]: worst[k] = (peak, proj)
        print("  opt" if opt else "  raw", [(k[1], f"{v[0]/1e6:.2f}/{v[1]/1e6:.2f}MB", "UNDER" if v[0] > v[1] else "") for k, v in worst.items()])
import shutil
cases = {
 "negative": lambda a: xp.negative(a),
 "add self": lambda a: a + a,
 "sum axis0": lambda a: xp.sum(a, axis=0),
 "mean": lambda a: xp.mean(a, axis=0),
 "var": lambda a: xp.var(a, axis=0),
 "transpose": lambda a: a.T,
 "chain": lambda a: xp.sum(xp.sqrt(xp.abs(a) + 1) * a, axis=1),
 "argmax": lambda a: xp.argmax(a, axis=0),
 "cumsum": lambda a: xp.cumulative_sum(a, axis=0),
 "concat": lambda a: xp.concat([a, a], axis=0),
 "index step": lambda a: a[::3, 1:],
 "rechunk": lambda a: a.rechunk((250, 1000)),
 "matmul": lambda a: a @ a.T,
 "flip": lambda a: xp.flip(a, axis=0),
 "repeat": lambda a: xp.repeat(a, 2, axis=0),
}
for dtype in [np.float64, np.float32, np.int8]:
    for comp in [None, "auto"]:
        print("==== dtype", np.dtype(dtype).name, "compressor", comp)
        for k, b in cases.items():
            print(k)
            try: run(b, (2000, 1000), (1000, 500), dtype, comp)
            except Exception as e: print("  EXC", type(e).__name__, str(e)[:100])
print("==== tiny (noise)")
for k, b in cases.items():
    print(k)
    try: run(b, (4, 4), (2, 2), np.float64, None)
    except Exception as e: print("  EXC", type(e).__name__, str(e)[:100])
