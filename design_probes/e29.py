import numpy as np, cubed, cubed.array_api as xp, inspect, warnings, collections, itertools
from zarr.storage import MemoryStore
from cubed.runtime.create import create_executor
import cubed.array_api.elementwise_functions as ef
warnings.simplefilter("ignore"); np.seterr(all="ignore")
ex = create_executor("single-threaded")
sp = cubed.Spec(intermediate_store=MemoryStore(), allowed_mem=50_000_000)
DT = [np.bool_, np.int8, np.int64, np.uint8, np.uint64, np.float32, np.float64, np.complex64, np.complex128]
from e28 import data, NPNAME
funcs = [(n, f) for n, f in inspect.getmembers(ef, inspect.isfunction) if not n.startswith("_") and n in cubed.__all__]
res = collections.defaultdict(list)
for n, f in funcs:
    npos = len([p for p in inspect.signature(f).parameters.values() if p.kind == p.POSITIONAL_ONLY])
    if npos != 2 or n == "clip": continue
    g = getattr(np, NPNAME.get(n, n))
    for dt1, dt2 in itertools.product(DT, DT):
        if dt1 == dt2: continue
        d1 = data(dt1); d2 = data(dt2, 1)
        if "shift" in n: d2 = (np.abs(d2) % 5).astype(dt2)
        try:
            r = f(xp.asarray(d1, chunks=(2, 3), spec=sp), xp.asarray(d2, chunks=(2, 3), spec=sp))
        except (TypeError, ValueError) as e_:
            continue
        try: e = np.asarray(g(d1, d2))
        except Exception as ee: res[n, "numpy-raises"].append((np.dtype(dt1).name, np.dtype(dt2).name)); continue
        try: got = r.compute(executor=ex)
        except Exception as ee: res[n, "EXEC-FAIL", type(ee).__name__ + str(ee)[:50]].append((np.dtype(dt1).name, np.dtype(dt2).name)); continue
        ok = got.shape == e.shape and np.allclose(got.astype(np.complex128), e.astype(np.complex128), equal_nan=True, rtol=1e-6)
        if not ok: res[n, "VALUE", f"cubed {got.dtype} np {e.dtype}"].append((np.dtype(dt1).name, np.dtype(dt2).name))
for k, v in sorted(res.items(), key=str): print(k, len(v), v[:4])
