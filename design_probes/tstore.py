import contextvars, threading, time
from zarr.storage import WrapperStore, MemoryStore, LocalStore
CUR = contextvars.ContextVar("cur_task", default=None)
LOG = []
class TraceStore(WrapperStore):
    _supports_sync_io = False
    def __init__(self, store):
        super().__init__(store)
    async def get(self, key, prototype, byte_range=None):
        r = await self._store.get(key, prototype, byte_range)
        LOG.append(("get", key, CUR.get(), r is not None, threading.current_thread().name))
        return r
    async def set(self, key, value):
        LOG.append(("set", key, CUR.get(), len(value), threading.current_thread().name))
        return await self._store.set(key, value)
    async def delete(self, key):
        LOG.append(("delete", key, CUR.get()))
        return await self._store.delete(key)
    async def set_if_not_exists(self, key, value):
        LOG.append(("set_if_not_exists", key, CUR.get()))
        return await self._store.set_if_not_exists(key, value)
    async def get_partial_values(self, prototype, key_ranges):
        key_ranges = list(key_ranges)
        LOG.append(("get_partial", [k for k,_ in key_ranges], CUR.get()))
        return await self._store.get_partial_values(prototype, key_ranges)
