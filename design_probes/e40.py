"""C15 part 2 probe: symbolic provenance, fused vs unfused, over random trees of BlockwiseSpecs."""
import sys, itertools, collections, inspect
from collections.abc import Iterator
from hypothesis import given, seed, settings, strategies as st, HealthCheck, Phase
from cubed.primitive.blockwise import BlockwiseSpec, ChunkKey, FunctionArgs, fuse_blockwise_specs, map_nested
SEED = int(sys.argv[1]); N = int(sys.argv[2])
def tag(x):
    # turn nested lists/iterators into tagged tuples (structure is part of the term)
    if isinstance(x, list): return ("list",) + tuple(tag(i) for i in x)
    if isinstance(x, Iterator): return ("iter",) + tuple(tag(i) for i in x)
    if isinstance(x, tuple) and x and x[0] in ("chunk", "f", "list", "iter"): return x
    return x
def mkfunc(fid, nout):
    if nout == 1:
        def f(*args): return ("f", fid) + tuple(tag(a) for a in args)
        return f
    def g(*args):
        t = ("f", fid) + tuple(tag(a) for a in args)
        for k in range(nout): yield ("out", k, t)
    return g
# key function shapes; each takes list of input array names and grid size n (1-d grids of n blocks)
def kf_one2one(ins, n, out): return lambda k: FunctionArgs(*[ChunkKey(i, k.coords) for i in ins], output_name=k.name)
def kf_list(ins, n, out): return lambda k: FunctionArgs(*[[ChunkKey(i, ((k.coords[0] + d) % n,)) for d in range(2)] for i in ins], output_name=k.name)
def kf_iter(ins, n, out): return lambda k: FunctionArgs(*[iter([ChunkKey(i, ((k.coords[0] + d) % n,)) for d in range(2)]) for i in ins], output_name=k.name)
def kf_alt(ins, n, out): return lambda k: FunctionArgs(ChunkKey(ins[k.coords[0] % len(ins)], k.coords), output_name=k.name)   # stack-like: source depends on coord
def kf_cat(ins, n, out): return lambda k: FunctionArgs(iter([ChunkKey(i, k.coords) for i in ins]), output_name=k.name)          # concat-like: one stream over all sources
SHAPES = {"one2one": kf_one2one, "list": kf_list, "iter": kf_iter, "alt": kf_alt, "cat": kf_cat}
class Node:
    def __init__(self, name, shape, ins, nout, n, fid):
        self.names = [name] if nout == 1 else [f"{name}_{k}" for k in range(nout)]
        self.shape, self.ins, self.nout, self.n = shape, ins, nout, n
        self.spec = BlockwiseSpec(SHAPES[shape](ins, n, self.names), mkfunc(fid, nout), (1,) * len(ins), (1,) * nout, {i: None for i in ins}, {nm: None for nm in self.names})
def evaluate(spec, out_key):
    fargs = spec.back_key_function(out_key)
    leaf = lambda k: ("chunk", k.name, k.coords)
    res = spec.function(*map_nested(leaf, fargs).args)
    if inspect.isgeneratorfunction(spec.function): res = tuple(res)
    return res
def unfused_value(nodes_by_out, name, coords, memo):
    # value of block (name, coords) evaluating producers recursively
    if name not in nodes_by_out: return ("chunk", name, coords)
    node = nodes_by_out[name]
    fargs = node.spec.back_key_function(ChunkKey(name, coords))
    val = lambda k: unfused_value(nodes_by_out, k.name, k.coords, memo)
    res = node.spec.function(*map_nested(val, fargs).args)
    if node.nout > 1:
        res = tuple(res); return res[node.names.index(name)]
    return res
stats = collections.Counter(); fails = {}
@st.composite
def trees(draw):
    n = draw(st.integers(1, 3))
    cnt = [0]
    def leafname(): cnt[0] += 1; return f"in{cnt[0]}"
    def build(depth, allow_multi):
        cnt[0] += 1; name = f"a{cnt[0]}"
        shape = draw(st.sampled_from(sorted(SHAPES)))
        nin = draw(st.integers(1, 3)) if shape != "alt" else draw(st.integers(1, 3))
        ins, subs = [], []
        for _ in range(nin):
            if depth > 0 and draw(st.booleans()):
                sub = build(depth - 1, False); ins.append(sub[0].names[0]); subs.append(sub)
            elif ins and draw(st.integers(0, 4)) == 0: ins.append(ins[0])   # repeated argument
            else: ins.append(leafname())
        nout = draw(st.sampled_from([1, 1, 1, 2])) if allow_multi else 1
        node = Node(name, shape, ins, nout, n, name)
        return node, subs
    root = build(draw(st.integers(1, 2)), True)
    return n, root
def flatten(t):
    node, subs = t; out = [node]
    for s in subs: out += flatten(s)
    return out
def fuse_tree(t, which):
    # fuse node with those direct predecessors selected by `which` (others stay unfused = None-like: left as leaves)
    node, subs = t
    preds = []
    for i in node.ins:
        sub = next((s for s in subs if s[0].names[0] == i), None)
        preds.append(sub)
    spec = node.spec
    pred_specs = []
    for i, sub in zip(node.ins, preds):
        if sub is not None and which(sub[0]):
            pred_specs.append(fuse_tree(sub, which))
        else:
            pred_specs.append(BlockwiseSpec(lambda x: FunctionArgs(x, output_name=x.name), lambda x: x, (1,), (1,), {}, {}))
    return fuse_blockwise_specs(spec, *pred_specs)
@seed(SEED)
@settings(max_examples=N, database=None, deadline=None, suppress_health_check=list(HealthCheck), phases=[Phase.generate])
@given(trees(), st.data())
def run(t, data):
    n, root = t
    nodes = flatten(root)
    if len(nodes) < 2: stats["no fusion"] += 1; return
    stats["cases"] += 1; stats["multi" if root[0].nout > 1 else "single"] += 1
    sel = {nd.names[0]: data.draw(st.booleans()) for nd in nodes}
    which = lambda nd: sel[nd.names[0]]
    # leave out unfused intermediate nodes from "by_out" only if fused; unfused ones still produce their arrays, so the fused op reads them as chunks
    try: fused = fuse_tree(root, which)
    except Exception as e:
        k = "fuse raises " + type(e).__name__; stats[k] += 1; fails.setdefault(k, [(nd.names, nd.shape, nd.ins) for nd in nodes]); return
    # reference: evaluate with only the fused nodes expanded
    def fused_set(t):
        node, subs = t; out = {nm: node for nm in node.names}
        for s in subs:
            if which(s[0]): out.update(fused_set(s))
        return out
    by_out = fused_set(root)
    for c in range(n):
        for oi, oname in enumerate(root[0].names):
            try:
                got = evaluate(fused, ChunkKey(oname, (c,)))
                if root[0].nout > 1: got = got[oi]
            except Exception as e:
                k = "fused eval raises " + type(e).__name__ + ":" + str(e)[:50]; stats[k] += 1; fails.setdefault(k, [(nd.names, nd.shape, nd.ins, sel[nd.names[0]]) for nd in nodes]); return
            exp = unfused_value(by_out, oname, (c,), {})
            if got != exp:
                stats["MISMATCH"] += 1; fails.setdefault("MISMATCH", ([(nd.names, nd.shape, nd.ins, sel[nd.names[0]]) for nd in nodes], got, exp)); return
    stats["ok"] += 1; stats["ok_multi" if root[0].nout > 1 else "ok_single"] += 1
run()
print(dict(stats))
for k, v in fails.items(): print(k, "::", str(v)[:900])
