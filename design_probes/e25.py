import numpy as np, cubed, cubed.array_api as xp, tempfile, inspect, os, zarr
from zarr.storage import MemoryStore
s1 = cubed.Spec(tempfile.mkdtemp(), allowed_mem=10_000_000)
s2 = cubed.Spec(tempfile.mkdtemp(), allowed_mem=20_000_000)
def A(spec, shape=(4,4), dtype=np.float64, chunks=None):
    n = int(np.prod(shape)); return xp.asarray((np.arange(n) % 7 + 1).reshape(shape).astype(dtype), chunks=chunks or tuple(2 for _ in shape), spec=spec)
calls = {}
import cubed.array_api.elementwise_functions as ef
sig2 = [n for n, f in inspect.getmembers(ef, inspect.isfunction) if not n.startswith("_") and len([p for p in inspect.signature(f).parameters.values() if p.kind == p.POSITIONAL_ONLY]) == 2 and n in cubed.__all__]
for n in sig2:
    dt = np.int64 if n.startswith("bitwise") else (np.bool_ if n.startswith("logical") else np.float64)
    calls[n] = (lambda n=n, dt=dt: getattr(xp, n)(A(s1, dtype=dt), A(s2, dtype=dt)))
calls.update({
 "where": lambda: xp.where(A(s1) > 2, A(s2), A(s2)),
 "where_c": lambda: xp.where(A(s1) > 2, A(s1), A(s2)),
 "clip": lambda: xp.clip(A(s1), A(s2), None),
 "concat": lambda: xp.concat([A(s1), A(s2)]),
 "stack": lambda: xp.stack([A(s1), A(s2)]),
 "matmul": lambda: xp.matmul(A(s1), A(s2)),
 "tensordot": lambda: xp.tensordot(A(s1), A(s2)),
 "vecdot": lambda: xp.vecdot(A(s1), A(s2)),
 "outer": lambda: xp.linalg.outer(A(s1, (4,)), A(s2, (4,))),
 "isin": lambda: xp.isin(A(s1), A(s2, (3,))),
 "searchsorted": lambda: xp.searchsorted(A(s1, (4,)), A(s2, (3,))),
 "meshgrid": lambda: xp.meshgrid(A(s1, (4,)), A(s2, (3,))),
 "broadcast_arrays": lambda: xp.broadcast_arrays(A(s1), A(s2, (1, 4), chunks=(1, 2))),
 "diff_prepend": lambda: xp.diff(A(s1), prepend=A(s2)),
 "map_blocks": lambda: cubed.map_blocks(lambda a, b: a + b, A(s1), A(s2), dtype=np.float64),
 "apply_gufunc": lambda: cubed.apply_gufunc(lambda a, b: a + b, "(),()->()", A(s1), A(s2), output_dtypes=np.float64),
 "operator +": lambda: A(s1) + A(s2),
 "operator @": lambda: A(s1) @ A(s2),
 "radd np": lambda: np.float64(1) + A(s1),
 "compute": lambda: cubed.compute(A(s1), A(s2)),
 "plan": lambda: cubed.plan(A(s1), A(s2)),
 "visualize": lambda: cubed.visualize(A(s1), A(s2), filename=os.path.join(tempfile.mkdtemp(), "v"), format="dot"),
 "store": lambda: cubed.store([A(s1), A(s2)], [os.path.join(tempfile.mkdtemp(), "a.zarr"), os.path.join(tempfile.mkdtemp(), "b.zarr")]),
 "take idx": lambda: xp.take(A(s1, (4,)), xp.asarray(np.array([0, 2]), spec=s2)),
 "getitem idx": lambda: A(s1, (4,))[xp.asarray(np.array([0, 2]), spec=s2)],
 "pad": lambda: cubed.pad(A(s1), ((1, 1), (0, 0)), mode="constant"),
 "tril": lambda: xp.tril(A(s1)),
 "groupby": lambda: __import__("cubed.core.groupby", fromlist=["x"]).groupby_reduction(A(s1), A(s2, (4,), dtype=np.int64), func=lambda a, by, **k: a, combine_func=lambda a, **k: a, axis=0, dtype=np.float64, num_groups=8),
})
import collections
res = collections.Counter()
for n, f in calls.items():
    try:
        r = f()
        desc = "ACCEPTED"
        if isinstance(r, (tuple, list)):
            both = []
            for a in r:
                if hasattr(a, "_plan"):
                    names = set(a._plan.dag.nodes)
                    both.append(len(names))
            desc += f" (multi-output)"
        print(f"{n:20s} {desc}")
        res["accepted"] += 1
    except ValueError as e:
        res["ValueError"] += 1
        if "same spec" not in str(e): print(f"{n:20s} ValueError (other): {str(e)[:80]}")
    except Exception as e:
        print(f"{n:20s} {type(e).__name__}: {str(e)[:80]}"); res[type(e).__name__] += 1
print(dict(res), len(calls))
