import dataclasses, numpy as np, cubed, cubed.array_api as xp
from zarr.storage import MemoryStore
from cubed.runtime.types import DagExecutor
from cubed.runtime.pipeline import visit_nodes
from cubed.primitive.blockwise import BlockwiseSpec
BAD = []
class CheckArr:
    def __init__(self, arr, name, task): self._a, self._n, self._t = arr, name, task
    def _chk(self, sel, value, field=None):
        exp = tuple(s.stop - s.start for s in sel)
        got = tuple(np.shape(value))
        if exp != got: BAD.append((self._n, self._t, field, exp, got))
    def __setitem__(self, sel, value): self._chk(sel, value); self._a[sel] = value
    def set_basic_selection(self, sel, value, fields=None): self._chk(sel, value, fields); self._a.set_basic_selection(sel, value, fields=fields)
    def __getattr__(self, k): return getattr(self._a, k)
class CheckProxy:
    def __init__(self, p, name, task): self._p, self._n, self._t = p, name, task
    @property
    def array(self): return self._p.array
    @property
    def chunks(self): return self._p.chunks
    def open(self): return CheckArr(self._p.open(), self._n, self._t)
class Ex(DagExecutor):
    name = "chk"
    def execute_dag(self, dag, callbacks=None, spec=None, compute_id=None, **kw):
        for name, node in visit_nodes(dag):
            p = node["pipeline"]
            for m in p.mappable:
                cfg = p.config
                if isinstance(cfg, BlockwiseSpec):
                    cfg = dataclasses.replace(cfg, writes_map={k: CheckProxy(v, k, (name, tuple(m))) for k, v in cfg.writes_map.items()})
                p.function(m, config=cfg)
spec = cubed.Spec(intermediate_store=MemoryStore(), allowed_mem=100_000_000)
rn = np.random.default_rng(0).random((9,4))
r = xp.asarray(rn, chunks=(4,4), spec=spec)
Q, R = xp.linalg.qr(r)
cubed.compute(Q, R, executor=Ex())
print("qr 9x4:", BAD); BAD.clear()
a = xp.asarray(np.arange(35.).reshape(5,7), chunks=(2,3), spec=spec)
m = xp.mean(a, axis=0); v = xp.argmax(a, axis=1)
cubed.compute(m, v, executor=Ex(), optimize_graph=False)
print("mean/argmax:", BAD)
