import numpy as np, cubed, cubed.array_api as xp, tempfile, zarr, os, collections
from zarr.storage import MemoryStore
from cubed.runtime.create import create_executor
from cubed import Callback
class Rec(Callback):
    def __init__(self): self.ev = []
    def on_compute_start(self, e): self.ev.append(("cs",))
    def on_compute_end(self, e): self.ev.append(("ce",))
    def on_operation_start(self, e): self.ev.append(("os", e.name))
    def on_operation_end(self, e): self.ev.append(("oe", e.name))
    def on_task_end(self, e): self.ev.append(("te", e.name, e.num_tasks))
def check(arrs, ex, **kw):
    rec = Rec()
    plan = cubed.plan(*arrs, optimize_graph=kw.get("optimize_graph", True))
    cubed.compute(*arrs, executor=ex, callbacks=[rec], **kw)
    adv = {n: d["primitive_op"].num_tasks for n, d in plan.dag.nodes(data=True) if "primitive_op" in d}
    lens = {n: len(list(d["pipeline"].mappable)) for n, d in plan.dag.nodes(data=True) if "primitive_op" in d}
    te = collections.Counter()
    for e in rec.ev:
        if e[0] == "te": te[e[1]] += e[2]
    ok = adv == lens == dict(te) and plan.num_tasks == sum(adv.values()) and rec.ev[0] == ("cs",) and rec.ev[-1] == ("ce",)
    return ok, adv, lens, dict(te)
def main():
    wd = tempfile.mkdtemp()
    spec = cubed.Spec(wd, allowed_mem=10_000_000)
    an = np.arange(64.).reshape(8,8)
    for exn, opts in [("single-threaded", {}), ("threads", {}), ("threads", {"compute_arrays_in_parallel": True}), ("threads", {"batch_size": 2}), ("processes", {"max_workers": 2})]:
        ex = create_executor(exn)
        a = xp.asarray(an, chunks=(2,4), spec=spec)
        z = zarr.create_array(os.path.join(wd, f"t{exn}{sorted(opts)}.zarr"), shape=(16, 8), chunks=(2,4), dtype=an.dtype)
        s = cubed.store(a + 1, z, regions=(slice(8, 16), slice(0, 8)), compute=False)[0]
        q, r = xp.linalg.qr(xp.asarray(an.reshape(16, 4), chunks=(4, 4), spec=spec))
        u = xp.unstack(a, axis=0)
        m = xp.mean(a.rechunk((3, 3)), axis=0)
        print(exn, opts, check([s, q, r, u[0], u[3], m], ex, **opts)[0])
    # resume with pre-existing full target
    ex = create_executor("single-threaded")
    a = xp.asarray(an, chunks=(2,4), spec=spec)
    z = zarr.create_array(os.path.join(wd, "pre.zarr"), shape=(8, 8), chunks=(2,4), dtype=an.dtype); z[:] = -1
    cubed.store(a + 1, z, executor=ex, resume=True)
    print("resume into pre-filled target correct:", np.array_equal(z[:], an + 1))
if __name__ == "__main__": main()
