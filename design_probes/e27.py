import numpy as np, cubed, cubed.array_api as xp, tempfile, os
from zarr.storage import MemoryStore
from cubed.runtime.create import create_executor
ex = create_executor("single-threaded")
sp = cubed.Spec(intermediate_store=MemoryStore(), allowed_mem=50_000_000, reserved_mem=1000, zarr_compressor=None)
def A(shape=(4,6), dtype=np.float64, chunks=None): 
    n = int(np.prod(shape)); return xp.asarray((np.arange(n) % 7 + 1).reshape(shape).astype(dtype), chunks=chunks or tuple(2 for _ in shape), spec=sp)
cases = {
 "tril": lambda: xp.tril(A()), "triu": lambda: xp.triu(A(), k=1), "zeros_like": lambda: xp.zeros_like(A()) + A(), "ones_like": lambda: xp.ones_like(A()) * A(),
 "full_like": lambda: xp.full_like(A(), 3.0) + A(), "empty_like": lambda: xp.empty_like(A()), "scalar": lambda: A() + 1, "rscalar": lambda: 2.0 * A(),
 "where scalar": lambda: xp.where(A() > 2, A(), 0.0), "clip": lambda: xp.clip(A(), 2, 5),
 "searchsorted": lambda: xp.searchsorted(A((6,)), A((3,))), "searchsorted scalar": lambda: xp.searchsorted(A((6,)), 3.0),
 "linspace+": lambda: xp.linspace(0, 1, 6, chunks=2, spec=sp) + A((6,)), "arange+": lambda: xp.arange(6, chunks=2, spec=sp) + A((6,)),
 "eye@": lambda: xp.eye(4, chunks=2, spec=sp) @ A(), "pad": lambda: cubed.pad(A(), ((1, 2), (0, 1)), mode="constant", constant_values=3),
 "pad sym": lambda: cubed.pad(A(), ((1, 0), (0, 0)), mode="symmetric"),
 "map_overlap": lambda: cubed.map_overlap(lambda x: x[1:-1, 1:-1], A(), dtype=np.float64, chunks=A().chunks, depth=1, boundary=0),
 "argmax": lambda: xp.argmax(A(), axis=0), "argmin none": lambda: xp.argmin(A()), "nanargmax": lambda: cubed.nanargmax(A(), axis=1),
 "random+": lambda: cubed.random.random((4, 6), chunks=2, spec=sp) + A(), "meshgrid": lambda: xp.meshgrid(A((4,)), A((3,)))[0],
 "take": lambda: xp.take(A(), np.array([0, 2]), axis=0), "take cubed idx": lambda: xp.take(A(), xp.asarray(np.array([0, 2]), spec=sp), axis=0),
 "isin": lambda: xp.isin(A(), A((3,))), "diff": lambda: xp.diff(A(), axis=1), "diff prepend": lambda: xp.diff(A(), axis=1, prepend=A((4, 2))),
 "roll": lambda: xp.roll(A(), 2), "tile": lambda: xp.tile(A(), (2, 2)), "unstack": lambda: xp.unstack(A())[0], "broadcast_to": lambda: xp.broadcast_to(A((6,)), (3, 6)),
 "reshape": lambda: xp.reshape(A(), (2, 2, 6)), "flatten cumsum": lambda: xp.cumulative_sum(A()), "vecdot": lambda: xp.vecdot(A(), A()),
 "outer": lambda: xp.linalg.outer(A((4,)), A((3,))), "qr": lambda: xp.linalg.qr(A((8, 2), chunks=(4, 2)))[1], "svdvals": lambda: xp.linalg.svdvals(A((8, 2), chunks=(4, 2))),
 "mean": lambda: xp.mean(A()), "var": lambda: xp.var(A(), axis=0), "std": lambda: xp.std(A()), "count_nonzero": lambda: xp.count_nonzero(A()),
 "nanmean": lambda: cubed.nanmean(A()), "nanmedian": lambda: cubed.nanmedian(A(), axis=0), "nancumsum": lambda: cubed.nancumsum(A(), axis=0),
 "blocks": lambda: A().blocks[0, 1], "from_array": lambda: cubed.from_array(np.ones((4, 6)), chunks=2, spec=sp) + A(),
 "astype": lambda: xp.astype(A(), np.int32), "all": lambda: xp.all(A() > 0), "expand/squeeze": lambda: xp.squeeze(xp.expand_dims(A(), axis=0), axis=0),
 "moveaxis": lambda: xp.moveaxis(A(), 0, 1), "repeat": lambda: xp.repeat(A(), 2, axis=1), "stack": lambda: xp.stack([A(), A()]), "concat": lambda: xp.concat([A(), A()]),
 "matmul 1d": lambda: A((6,)) @ A((6,)), "tensordot": lambda: xp.tensordot(A(), A((6, 4)), axes=1),
 "apply_gufunc np": lambda: cubed.apply_gufunc(lambda a, b: a + b, "(),()->()", A(), np.ones((4, 6)), output_dtypes=np.float64),
 "map_blocks np": lambda: cubed.map_blocks(lambda a, b: a + b, A(), np.float64(2), dtype=np.float64),
}
bad = 0
for n, f in cases.items():
    try:
        r = f(); r.compute(executor=ex)
    except Exception as e:
        bad += 1; print(f"{n:22s} {type(e).__name__}: {str(e)[:90]}")
print("cases", len(cases), "failing", bad)
