import numpy as np, cubed, cubed.array_api as xp, inspect, warnings, collections
from zarr.storage import MemoryStore
from cubed.runtime.create import create_executor
import cubed.array_api.elementwise_functions as ef
warnings.simplefilter("ignore"); np.seterr(all="ignore")
ex = create_executor("single-threaded")
sp = cubed.Spec(intermediate_store=MemoryStore(), allowed_mem=50_000_000)
DT = [np.bool_, np.int8, np.int16, np.int32, np.int64, np.uint8, np.uint16, np.uint32, np.uint64, np.float32, np.float64, np.complex64, np.complex128]
def data(dt, k=0):
    base = np.array([0, 1, 2, 3, -1, -2, 5, 7, 100, -100, 4, 6], dtype=np.float64) + k
    if np.issubdtype(dt, np.unsignedinteger): base = np.abs(base)
    if dt == np.bool_: base = base % 2
    d = base.astype(dt)
    if np.issubdtype(dt, np.floating): d[3] = np.nan; d[5] = np.inf; d[7] = 0.5
    if np.issubdtype(dt, np.complexfloating): d = d + 1j * d[::-1]
    return d.reshape(3, 4)
NPNAME = {"acos": "arccos", "acosh": "arccosh", "asin": "arcsin", "asinh": "arcsinh", "atan": "arctan", "atan2": "arctan2", "atanh": "arctanh",
          "bitwise_invert": "invert", "bitwise_left_shift": "left_shift", "bitwise_right_shift": "right_shift", "pow": "power"}
if __name__ == "__main__":
  pass
funcs = [(n, f) for n, f in inspect.getmembers(ef, inspect.isfunction) if not n.startswith("_") and n in cubed.__all__]
res = collections.defaultdict(list)
for n, f in funcs:
    npos = len([p for p in inspect.signature(f).parameters.values() if p.kind == p.POSITIONAL_ONLY])
    g = getattr(np, NPNAME.get(n, n), None)
    if g is None: print("no numpy fn", n); continue
    for dt in DT:
        for chunks in [(3, 4), (2, 3)]:
            d1 = data(dt); d2 = data(dt, 1)
            if n in ("bitwise_left_shift", "bitwise_right_shift"): d2 = np.abs(d2) % 5
            args_np = [d1, d2][:npos] if n != "clip" else [d1]
            try:
                a = [xp.asarray(x, chunks=chunks, spec=sp) for x in args_np]
                if n == "clip": r = f(a[0], 1, 5) ; e = np.clip(d1, 1, 5)
                else: r = f(*a)
            except (TypeError, ValueError) as ex_:
                res[n, "declined", type(ex_).__name__].append(np.dtype(dt).name); continue
            try:
                if n != "clip": e = g(*args_np)
            except Exception as ee:
                res[n, "numpy-raises", type(ee).__name__].append(np.dtype(dt).name); continue
            try:
                got = r.compute(executor=ex)
            except Exception as ee:
                res[n, "EXEC-FAIL", type(ee).__name__ + str(ee)[:40]].append((np.dtype(dt).name, chunks)); continue
            e = np.asarray(e)
            if got.shape != e.shape: res[n, "SHAPE"].append((np.dtype(dt).name, chunks)); continue
            if got.dtype != e.dtype: res[n, "dtype-differs", f"{got.dtype} vs np {e.dtype}"].append(np.dtype(dt).name)
            eq = np.allclose(got, e.astype(got.dtype) if got.dtype.kind != "b" else e, equal_nan=True, rtol=1e-6)
            if not eq: res[n, "VALUE"].append((np.dtype(dt).name, chunks))
for k, v in sorted(res.items(), key=str):
    if k[1] in ("declined",): continue
    print(k, sorted(set(map(str, v)))[:8])
print("functions", len(funcs))
