import numpy as np, cubed, cubed.array_api as xp, tempfile, random, collections, traceback, warnings, sys
from zarr.storage import MemoryStore
from cubed.runtime.create import create_executor
warnings.simplefilter("ignore")
np.seterr(all="ignore")
rnd = random.Random(int(sys.argv[1]) if len(sys.argv) > 1 else 0)
ex = create_executor("single-threaded")
def mk(shape, dtype, spec, k=0):
    n = int(np.prod(shape)) if shape else 1
    data = ((np.arange(n) * 7 + k * 3) % 11 - 3).astype(dtype).reshape(shape)
    chunks = tuple(rnd.choice([1, 2, 3, max(s,1)]) if s > 0 else 1 for s in shape)
    chunks = tuple(min(c, max(s,1)) for c, s in zip(chunks, shape))
    return data, xp.asarray(data, chunks=chunks, spec=spec)
def rshape(maxd=3):
    return tuple(rnd.choice([0,1,2,3,4,5,6,7]) if rnd.random()<0.1 else rnd.choice([1,2,3,4,5,6,7]) for _ in range(rnd.randint(0, maxd)))
def axis_of(nd):
    return rnd.randrange(-nd, nd) if nd else None
OPS = {}
def op(f): OPS[f.__name__] = f; return f
@op
def binary(spec):
    s = rshape(); d1, a1 = mk(s, rnd.choice([np.int64, np.float64, np.int8]), spec)
    s2 = tuple(x if rnd.random()<0.7 else 1 for x in s)[rnd.randint(0, len(s)):]
    d2, a2 = mk(s2, d1.dtype, spec, 1)
    return (a1 + a2 * 2), (d1 + d2 * 2), (s, a1.chunks, s2, a2.chunks)
@op
def reduce_(spec):
    s = rshape(); d, a = mk(s, rnd.choice([np.int64, np.float64]), spec)
    nd = len(s)
    f = rnd.choice(["sum", "max", "min", "mean", "prod", "any", "all", "var", "argmax", "argmin"])
    if f in ("argmax", "argmin"):
        ax = axis_of(nd) if nd and rnd.random() < 0.8 else None
    else:
        ax = rnd.choice([None] + ([axis_of(nd)] if nd else []) + ([tuple(sorted(rnd.sample(range(nd), rnd.randint(1, nd))))] if nd else []))
    kd = rnd.random() < 0.5
    se = rnd.choice([None, 2, 3, 4, 5])
    r = getattr(xp, f)(a, axis=ax, keepdims=kd, split_every=se)
    e = getattr(np, f)(d, axis=ax, keepdims=kd)
    return r, e, (f, s, a.chunks, ax, kd, se)
@op
def index(spec):
    s = rshape()
    if not s: s = (3,)
    d, a = mk(s, np.int64, spec)
    key = []
    for n in s:
        c = rnd.random()
        if c < 0.2 and n > 0: key.append(rnd.randrange(-n, n))
        elif c < 0.3: key.append(slice(None))
        elif c < 0.4 and n > 0: key.append(np.array([rnd.randrange(n) for _ in range(rnd.randint(1,4))])) if not any(isinstance(k, np.ndarray) for k in key) else key.append(slice(None))
        else:
            st = rnd.choice([None, 1, 2, 3, -1, -2])
            a0 = rnd.choice([None] + list(range(-n, n+1))); b0 = rnd.choice([None] + list(range(-n, n+1)))
            key.append(slice(a0, b0, st))
    if rnd.random() < 0.2: key.insert(rnd.randint(0, len(key)), None)
    key = tuple(key)
    e = d[key]
    return a[key], e, (s, a.chunks, key)
@op
def concat(spec):
    s = rshape(); 
    if not s: s = (2,)
    ax = axis_of(len(s)); n = rnd.randint(2,3)
    ds, as_ = [], []
    for i in range(n):
        si = list(s); si[ax] = rnd.randint(0 if rnd.random()<0.1 else 1, 5)
        d, a = mk(tuple(si), np.int64, spec, i); ds.append(d); as_.append(a)
    return xp.concat(as_, axis=ax), np.concatenate(ds, axis=ax), ([a.shape for a in as_], [a.chunks for a in as_], ax)
@op
def stack(spec):
    s = rshape(2); ax = rnd.randint(0, len(s)); n = rnd.randint(2,3)
    ds, as_ = [], []
    for i in range(n):
        d, a = mk(s, np.int64, spec, i); ds.append(d); as_.append(a)
    return xp.stack(as_, axis=ax), np.stack(ds, axis=ax), (s, [a.chunks for a in as_], ax)
@op
def manip(spec):
    s = rshape()
    d, a = mk(s, np.int64, spec)
    nd = len(s)
    f = rnd.choice(["flip", "roll", "repeat", "reshape", "T", "expand", "tile", "moveaxis", "squeeze", "broadcast_to", "rechunk", "diff", "cumsum", "cumprod", "unstack", "tril", "pad"])
    if f == "flip":
        ax = rnd.choice([None] + ([axis_of(nd)] if nd else [])); return xp.flip(a, axis=ax), np.flip(d, axis=ax), (f, s, a.chunks, ax)
    if f == "roll":
        ax = rnd.choice([None] + ([axis_of(nd)] if nd else [])); sh = rnd.randint(-8, 8); return xp.roll(a, sh, axis=ax), np.roll(d, sh, axis=ax), (f, s, a.chunks, sh, ax)
    if f == "repeat":
        ax = rnd.choice([None] + ([axis_of(nd) % nd] if nd else [])); r = rnd.randint(1,3); return xp.repeat(a, r, axis=ax), np.repeat(d, r, axis=ax), (f, s, a.chunks, r, ax)
    if f == "reshape":
        n = d.size
        cands = [(n,), (-1,)] + [(i, n//i) for i in range(1, n+1) if n and n % i == 0] + [(i, -1) for i in range(1, n+1) if n and n % i == 0]
        ns = rnd.choice(cands); return xp.reshape(a, ns), d.reshape(ns), (f, s, a.chunks, ns)
    if f == "T":
        axes = list(range(nd)); rnd.shuffle(axes); return xp.permute_dims(a, tuple(axes)), np.transpose(d, axes), (f, s, a.chunks, axes)
    if f == "expand":
        ax = rnd.randint(-(nd+1), nd); return xp.expand_dims(a, axis=ax), np.expand_dims(d, ax), (f, s, a.chunks, ax)
    if f == "tile":
        reps = tuple(rnd.randint(1,3) for _ in range(rnd.randint(1, nd+1))); return xp.tile(a, reps), np.tile(d, reps), (f, s, a.chunks, reps)
    if f == "moveaxis":
        if nd == 0: return a, d, (f,)
        s0, d0 = axis_of(nd), axis_of(nd); return xp.moveaxis(a, s0, d0), np.moveaxis(d, s0, d0), (f, s, a.chunks, s0, d0)
    if f == "squeeze":
        ones = [i for i, x in enumerate(s) if x == 1]
        if not ones: return a, d, (f,)
        ax = rnd.choice(ones); return xp.squeeze(a, axis=ax), np.squeeze(d, axis=ax), (f, s, a.chunks, ax)
    if f == "broadcast_to":
        ns = tuple(rnd.randint(1,3) for _ in range(rnd.randint(0,2))) + tuple(x if x != 1 else rnd.randint(1,4) for x in s)
        return xp.broadcast_to(a, ns), np.broadcast_to(d, ns), (f, s, a.chunks, ns)
    if f == "rechunk":
        nc = tuple(rnd.randint(1, max(x,1)) for x in s); return a.rechunk(nc), d, (f, s, a.chunks, nc)
    if f == "diff":
        if nd == 0: return a, d, (f,)
        ax = axis_of(nd); n = rnd.randint(0, 2)
        if s[ax] <= n: return a, d, (f,)
        return xp.diff(a, axis=ax, n=n), np.diff(d, axis=ax, n=n), (f, s, a.chunks, ax, n)
    if f in ("cumsum", "cumprod"):
        ax = rnd.choice(([axis_of(nd)] if nd else [None]) + ([None] if nd <= 1 else []))
        cf, nf = (xp.cumulative_sum, np.cumulative_sum) if f == "cumsum" else (xp.cumulative_prod, np.cumulative_prod)
        return cf(a, axis=ax), nf(d, axis=ax), (f, s, a.chunks, ax)
    if f == "unstack":
        if nd == 0: return a, d, (f,)
        ax = axis_of(nd); r = xp.unstack(a, axis=ax)
        if len(r) == 0: return a, d, (f,)
        j = rnd.randrange(len(r)); return r[j], np.moveaxis(d, ax, 0)[j], (f, s, a.chunks, ax, j)
    if f == "tril":
        if nd < 2: return a, d, (f,)
        k = rnd.randint(-2, 2); g = rnd.choice(["tril", "triu"]); return getattr(xp, g)(a, k=k), getattr(np, g)(d, k=k), (g, s, a.chunks, k)
    if f == "pad":
        pw = tuple((rnd.randint(0,2), rnd.randint(0,2)) for _ in s); return cubed.pad(a, pw, mode="constant", constant_values=9), np.pad(d, pw, mode="constant", constant_values=9), (f, s, a.chunks, pw)
@op
def linalg(spec):
    f = rnd.choice(["matmul", "tensordot", "vecdot", "outer"])
    if f == "matmul":
        m, k, n = rnd.randint(1,5), rnd.randint(1,5), rnd.randint(1,5)
        batch = tuple(rnd.randint(1,3) for _ in range(rnd.randint(0,1)))
        d1, a1 = mk(batch + (m,k), np.int64, spec); d2, a2 = mk((k,n), np.int64, spec, 1)
        return a1 @ a2, d1 @ d2, (f, a1.shape, a1.chunks, a2.shape, a2.chunks)
    if f == "tensordot":
        s1 = tuple(rnd.randint(1,4) for _ in range(rnd.randint(1,3))); nax = rnd.randint(0, min(2, len(s1)))
        s2 = s1[len(s1)-nax:] + tuple(rnd.randint(1,4) for _ in range(rnd.randint(0,2)))
        d1, a1 = mk(s1, np.int64, spec); d2, a2 = mk(s2, np.int64, spec, 1)
        return xp.tensordot(a1, a2, axes=nax), np.tensordot(d1, d2, axes=nax), (f, s1, a1.chunks, s2, a2.chunks, nax)
    if f == "vecdot":
        s = tuple(rnd.randint(1,4) for _ in range(rnd.randint(1,3))); ax = axis_of(len(s))
        d1, a1 = mk(s, np.int64, spec); d2, a2 = mk(s, np.int64, spec, 1)
        return xp.vecdot(a1, a2, axis=ax), np.vecdot(np.moveaxis(d1, ax, -1), np.moveaxis(d2, ax, -1)), (f, s, a1.chunks, a2.chunks, ax)
    if f == "outer":
        d1, a1 = mk((rnd.randint(1,5),), np.int64, spec); d2, a2 = mk((rnd.randint(1,5),), np.int64, spec, 1)
        return xp.linalg.outer(a1, a2), np.outer(d1, d2), (f, a1.chunks, a2.chunks)
stats = collections.Counter(); examples = {}
N = int(sys.argv[2]) if len(sys.argv) > 2 else 300
for it in range(N):
    name = rnd.choice(list(OPS))
    spec = cubed.Spec(intermediate_store=MemoryStore(), allowed_mem=100_000_000)
    phase = "build"
    try:
        try:
            r, e, info = OPS[name](spec)
        except Exception as ee:
            # determine if numpy itself failed
            tb = traceback.extract_tb(ee.__traceback__)
            in_cubed = any("/repo/cubed" in fr.filename for fr in tb)
            if not in_cubed: stats[name, "numpy/gen error"] += 1; continue
            raise
        phase = "compute"
        got = r.compute(executor=ex, optimize_graph=rnd.random() < 0.5)
        e = np.asarray(e)
        if got.shape != e.shape: key = (name, "SHAPE")
        elif not np.allclose(got, e, equal_nan=True, rtol=1e-9): key = (name, "VALUE")
        else: key = (name, "ok")
    except Exception as ee:
        tb = traceback.extract_tb(ee.__traceback__)
        last = [fr for fr in tb if "/repo/cubed" in fr.filename]
        where = f"{last[-1].filename.split('/repo/')[-1]}:{last[-1].name}" if last else "?"
        key = (name, phase, type(ee).__name__, where, str(ee)[:60])
        info = locals().get("info")
    stats[key] += 1
    if key[1] != "ok": examples.setdefault(key, info if 'info' in dir() else None)
for k, v in sorted(stats.items(), key=str): print(v, k)
print("---- examples")
for k, v in examples.items(): print(k, "::", v)
