import numpy as np, cubed, cubed.array_api as xp, tempfile, cloudpickle, subprocess, sys, os
from cubed.runtime.create import create_executor
CHILD = r'''
import sys, numpy as np, cubed, cubed.array_api as xp, cloudpickle
wd = sys.argv[1]
spec = cubed.Spec(wd, allowed_mem=10_000_000)
a = xp.asarray(np.arange(6).reshape(2,3), chunks=(1,3), spec=spec)
b = xp.negative(a)
sys.stdout.buffer.write(cloudpickle.dumps(b))
'''
def main():
    wd = tempfile.mkdtemp()
    blob = subprocess.run([sys.executable, "-c", CHILD, wd], capture_output=True, check=True).stdout
    b = cloudpickle.loads(blob)
    ex = create_executor("single-threaded")
    print("alone", b.compute(executor=ex).tolist())
    spec = b.spec
    c = xp.asarray(np.full((2,3), 100), chunks=(1,3), spec=spec)   # local array-001
    d = xp.add(c, 1)  # local array-002
    print("names", b.name, c.name, d.name)
    try:
        r = (b + d).compute(executor=ex)
        print("combined", r.tolist(), "expected", (-np.arange(6).reshape(2,3) + 101).tolist())
    except Exception as e:
        print("EXC", type(e).__name__, e)
if __name__ == "__main__": main()
