import numpy as np, cubed, cubed.array_api as xp, tempfile, os, zarr
from zarr.storage import MemoryStore
from tstore import TraceStore, LOG
ms = MemoryStore(); ts = TraceStore(ms)
wd = os.path.join(tempfile.mkdtemp(), "work")
spec = cubed.Spec(wd, intermediate_store=None, allowed_mem=10_000_000)
spec2 = cubed.Spec(intermediate_store=ts, allowed_mem=10_000_000)
# an input zarr on a traced store
zin = zarr.create_array(ts, name="in", shape=(6, 6), chunks=(2, 3), dtype="f8"); zin[:] = np.arange(36.).reshape(6, 6)
LOG.clear()
with cubed.config.set({"executor_name": "raise-if-computes"}):
    for sp in (spec, spec2):
        a = cubed.from_zarr(ts, path="in", spec=sp)
        b = xp.asarray(np.arange(36.).reshape(6, 6), chunks=(3, 2), spec=sp)
        exprs = [a + b, xp.sum(a, axis=0), a.rechunk((3, 3)), xp.linalg.qr(a.rechunk((3, 6)))[0], xp.mean(b), a[::2, 1:], xp.concat([a, a + 1]), xp.stack([b, b]),
                 cubed.random.random((6, 6), chunks=(2, 2), spec=sp), xp.cumulative_sum(a, axis=0), xp.argmax(b, axis=1), cubed.pad(a, ((1, 1), (0, 0)), mode="constant"),
                 cubed.map_overlap(lambda x: x, a, dtype=a.dtype, chunks=a.chunks, depth=1, boundary=0), xp.tril(a), xp.reshape(b, (6, 3, 2)), xp.searchsorted(xp.asarray([1., 2, 3], chunks=2, spec=None if sp is spec else None), xp.asarray([2.], spec=None)) if False else a.T,
                 cubed.to_zarr(a + 1, os.path.join(wd, "out.zarr"), compute=False), cubed.store([a * 2], [os.path.join(wd, "o2.zarr")], compute=False)[0],
                 cubed.from_zarr(ts, path="in", chunks=(4, 6), spec=sp), xp.unstack(a)[1], xp.broadcast_to(b, (2, 6, 6)), xp.vecdot(a, b), xp.repeat(a, 2), xp.roll(a, 2, axis=0), xp.flip(a), xp.take(a, np.array([0, 2]), axis=0)]
        for e in exprs:
            e.plan(); e.plan(optimize_graph=False); repr(e)
            e.visualize(filename=os.path.join(tempfile.mkdtemp(), "v"), format="dot")
            e._repr_html_()
        cubed.plan(*exprs[:5]); cubed.visualize(*exprs[:5], filename=os.path.join(tempfile.mkdtemp(), "v"), format="svg")
writes = [l for l in LOG if l[0] in ("set", "delete", "set_if_not_exists")]
chunk_gets = [l for l in LOG if l[0] == "get" and "/c/" in l[1]]
print("log", len(LOG), "writes", writes[:5], "chunk gets", chunk_gets[:5], "work_dir exists", os.path.exists(wd))
print(sorted({(l[0], l[1]) for l in LOG})[:10])
