import numpy as np, cubed, cubed.array_api as xp, random, collections, warnings, sys, os, tempfile, zarr, traceback
from zarr.storage import MemoryStore, LocalStore
from cubed.runtime.create import create_executor
warnings.simplefilter("ignore")
rnd = random.Random(int(sys.argv[1])); N = int(sys.argv[2])
exs_ = {"single": create_executor("single-threaded"), "threads": create_executor("threads", {"max_workers": 4})}
stats = collections.Counter(); examples = {}
SENT = -777
for it in range(N):
    wd = tempfile.mkdtemp()
    spec = cubed.Spec(wd, allowed_mem=10_000_000)
    nd = rnd.choice([1, 2])
    shape = tuple(rnd.randint(1, 7) for _ in range(nd))
    chunks = tuple(rnd.randint(1, s) for s in shape)
    d = (np.arange(int(np.prod(shape))) + 1).reshape(shape)
    a = xp.asarray(d, chunks=chunks, spec=spec)
    kind = rnd.choice(["virtual", "lazy", "computed", "rechunked", "fused"])
    if kind == "virtual": src, exp = a, d
    elif kind == "lazy": src, exp = xp.negative(a), -d
    elif kind == "computed":
        src = xp.negative(a); src.compute(executor=exs_["single"]); exp = -d
    elif kind == "rechunked":
        nc = tuple(rnd.randint(1, s) for s in shape); src, exp = a.rechunk(nc), d
    else: src, exp = xp.negative(a) * 2 + 1, -d * 2 + 1
    tkind = rnd.choice(["path", "existing_same", "existing_diff", "region_aligned", "region_misaligned", "sharded", "path_group"])
    exn = rnd.choice(["single", "threads"]); ex = exs_[exn]
    lazy = rnd.random() < 0.4
    info = (kind, tkind, shape, chunks, src.chunks, exn, lazy)
    try:
        region = None; expect_img = None; target = None; expect_reject = False; path = None
        if tkind == "path": target = os.path.join(wd, "t.zarr")
        elif tkind == "path_group": target = os.path.join(wd, "g.zarr"); path = "grp/arr"
        elif tkind == "existing_same":
            target = zarr.create_array(os.path.join(wd, "t.zarr"), shape=shape, chunks=src.chunksize, dtype=exp.dtype); target[...] = SENT
        elif tkind == "existing_diff":
            tc = tuple(rnd.randint(1, s) for s in shape); target = zarr.create_array(os.path.join(wd, "t.zarr"), shape=shape, chunks=tc, dtype=exp.dtype); target[...] = SENT; info += (tc,)
        elif tkind == "sharded":
            sc = src.chunksize; shards = tuple(c * rnd.choice([1, 2]) for c in sc)
            inner = tuple(max(1, c // rnd.choice([1, 2])) if c % 2 == 0 else c for c in sc)
            inner = tuple(i if s % i == 0 else s for i, s in zip(inner, shards))
            target = zarr.create_array(os.path.join(wd, "t.zarr"), shape=shape, shards=shards, chunks=inner, dtype=exp.dtype); target[...] = SENT; info += (shards, inner)
        elif tkind in ("region_aligned", "region_misaligned"):
            tc = src.chunksize
            offs = tuple(rnd.randint(0, 2) * c for c in tc)
            if tkind == "region_misaligned":
                ax = rnd.randrange(nd)
                if tc[ax] == 1: tkind = "region_aligned"
                else: offs = tuple(o + (1 if i == ax else 0) for i, o in enumerate(offs)); expect_reject = True
            tshape = tuple(o + s + rnd.randint(0, 2) * c for o, s, c in zip(offs, shape, tc))
            # region end must align or equal shape end: make aligned case satisfy this
            region = tuple(slice(o, o + s) for o, s in zip(offs, shape))
            if not expect_reject:
                for i, (r, c) in enumerate(zip(region, tc)):
                    if r.stop % c != 0 and r.stop != tshape[i]:
                        tshape = tshape[:i] + (r.stop,) + tshape[i+1:]
            target = zarr.create_array(os.path.join(wd, "t.zarr"), shape=tshape, chunks=tc, dtype=exp.dtype); target[...] = SENT; info += (tshape, region)
        before = None if isinstance(target, str) else target[...].copy()
        try:
            if path is not None:
                out = cubed.to_zarr(src, target, path=path, compute=not lazy, executor=ex)
                if lazy: out.compute(executor=ex, _return_in_memory_array=False)
            else:
                out = cubed.store(src, target, regions=region, compute=not lazy, executor=ex)
                if lazy: cubed.compute(*out, executor=ex, _return_in_memory_array=False)
        except ValueError as e:
            if expect_reject:
                ok = np.array_equal(target[...], before); stats["rejected ok" if ok else "REJECTED BUT MODIFIED"] += 1; continue
            raise
        if expect_reject: key = ("ACCEPTED misaligned region",); stats[key] += 1; examples.setdefault(key, info); continue
        got = (zarr.open_array(target, path=path) if isinstance(target, str) else target)[...]
        img = exp if region is None else None
        if region is not None:
            img = before.copy(); img[region] = exp
        key = ("ok", tkind) if got.shape == img.shape and np.array_equal(got, img) else ("WRONG", kind, tkind, exn)
    except Exception as e:
        tb = traceback.extract_tb(e.__traceback__); last = [fr for fr in tb if "/repo/cubed" in fr.filename]
        key = ("EXC", kind, tkind, type(e).__name__, str(e)[:60], f"{last[-1].name}" if last else "?")
    stats[key] += 1
    if key[0] != "ok": examples.setdefault(key, info)
for k, v in sorted(stats.items(), key=str): print(v, k)
print("---- examples")
for k, v in examples.items(): print(k, "::", v)
