"""C09 probe: crash at every task boundary and every chunk write, then resume."""
import sys, json, numpy as np, cubed, warnings, collections
from hypothesis import given, seed, settings, strategies as st, HealthCheck, Phase
from zarr.storage import MemoryStore
from cubed.runtime.types import DagExecutor
from cubed.runtime.pipeline import visit_nodes
from miniir import *
from tstore3 import CrashStore, Crash, CUR
SEED = int(sys.argv[1]); N = int(sys.argv[2])
class TaskCrash(Exception): pass
class Ex(DagExecutor):
    name = "x"
    def __init__(self, crash_before=None): super().__init__(); self.crash_before = crash_before; self.ran = []; self.ops = []
    def execute_dag(self, dag, callbacks=None, spec=None, compute_id=None, **kw):
        n = 0
        for name, node in visit_nodes(dag):
            self.ops.append(name)
            p = node["pipeline"]
            for m in p.mappable:
                if self.crash_before is not None and n == self.crash_before: raise TaskCrash()
                tok = CUR.set((name, str(m))); 
                try: p.function(m, config=p.config)
                finally: CUR.reset(tok)
                n += 1; self.ran.append(name)
stats = collections.Counter(); fails = {}
def fail(k, prog, extra=None): stats[k] += 1; fails.setdefault(k, (prog, extra))
def chunk_keys(ms): return {k: bytes(v.to_bytes()) for k, v in ms._store_dict.items() if "/c/" in k or k.endswith("/c")}
@seed(SEED)
@settings(max_examples=N, database=None, deadline=None, suppress_health_check=list(HealthCheck), phases=[Phase.generate])
@given(programs_multi(), st.booleans())
def run(pv, optimize):
    prog, vals = pv
    def fresh():
        ms = MemoryStore(); cs = CrashStore(ms)
        spec = cubed.Spec(intermediate_store=cs, allowed_mem=100_000_000)
        arrs = build_all(prog, spec); return ms, cs, [arrs[i] for i in prog["outs"]]
    try: ms, cs, outs = fresh()
    except Exception: stats["declined"] += 1; return
    ex = Ex()
    try: ref = cubed.compute(*outs, executor=ex, optimize_graph=optimize)
    except Exception as e: stats["clean run fails:" + type(e).__name__] += 1; return
    T = len(ex.ran); W = cs.state["nsets"]
    if T + W > 60: stats["too big"] += 1; return
    stats["programs"] += 1
    points = [("task", k) for k in range(T + 1)] + [("write", w) for w in range(1, W + 1)]
    for kind, k in points:
        ms, cs, outs = fresh()
        ex1 = Ex(k if kind == "task" else None)
        if kind == "write": cs.state["crash_at"] = k
        try:
            cubed.compute(*outs, executor=ex1, optimize_graph=optimize)
            crashed = False
        except (TaskCrash, Crash): crashed = True
        except Exception as e: fail("crash run other exc:" + type(e).__name__ + str(e)[:40], prog, (kind, k)); continue
        cs.state["crash_at"] = None
        before = chunk_keys(ms)
        cs.state["log"].clear()
        ex2 = Ex()
        stats["crash points"] += 1
        try:
            res = cubed.compute(*outs, executor=ex2, optimize_graph=optimize, resume=True)
        except NotImplementedError: stats["refused (no completeness)"] += 1; continue
        except Exception as e: fail("resume exc:" + type(e).__name__ + str(e)[:50], prog, (kind, k)); continue
        for r, i in zip(res, prog["outs"]):
            if r.shape != vals[i].shape or not np.allclose(r, vals[i], equal_nan=True): fail("RESUME VALUE", prog, (kind, k, optimize))
        if any(l[0] == "delete" for l in cs.state["log"]): fail("DELETE during resume", prog, (kind, k))
        after = chunk_keys(ms)
        lost = [key for key in before if key not in after]
        if lost: fail("CHUNKS LOST", prog, (kind, k, lost[:3]))
        if not crashed and [o for o in ex2.ran if o != "create-arrays"]:
            # nothing crashed: everything complete => only create-arrays (and 0-d outputs) may rerun
            stats["rerun after complete (check 0-d)"] += 1
run()
print(dict(stats))
for k, (p, x) in fails.items(): print(k, x, json.dumps(p, default=str)[:400])
