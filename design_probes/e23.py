"""Probe C02 (optimizer differential), C05 (single writer), C06 (perm/dup), C12 (block shapes) on mini IR."""
import sys, json, numpy as np, cubed, warnings, collections, dataclasses, re
from functools import partial
from hypothesis import given, seed, settings, strategies as st, HealthCheck, Phase
from zarr.storage import MemoryStore
from cubed.runtime.types import DagExecutor
from cubed.runtime.pipeline import visit_nodes
from cubed.core.optimization import multiple_inputs_optimize_dag, simple_optimize_dag, fuse_all_optimize_dag
from miniir import *
from tstore import TraceStore, LOG, CUR
SEED = int(sys.argv[1]); N = int(sys.argv[2])
class SchedExec(DagExecutor):
    name = "sched"
    def __init__(self, perm_seed=None, dups=0): super().__init__(); self.perm_seed = perm_seed; self.dups = dups
    def execute_dag(self, dag, callbacks=None, spec=None, compute_id=None, **kw):
        import random
        rnd = random.Random(self.perm_seed) if self.perm_seed is not None else None   # probe only; real harness uses hypothesis draws
        done = []
        for name, node in visit_nodes(dag):
            p = node["pipeline"]
            ms = list(p.mappable)
            if rnd: rnd.shuffle(ms)
            for m in ms:
                tok = CUR.set((name, tuple(m) if isinstance(m, list) else id(m)))
                p.function(m, config=p.config); CUR.reset(tok)
                done.append((name, m, p))
                if rnd and self.dups and rnd.random() < 0.3:
                    n2, m2, p2 = rnd.choice(done)
                    tok = CUR.set((n2, tuple(m2) if isinstance(m2, list) else id(m2), "dup"))
                    p2.function(m2, config=p2.config); CUR.reset(tok)
stats = collections.Counter(); fails = {}
def fail(kind, prog, extra=None):
    stats[kind] += 1; fails.setdefault(kind, (prog, extra))
OPTS = [None, partial(multiple_inputs_optimize_dag, max_total_source_arrays=8, max_total_num_input_blocks=40), partial(multiple_inputs_optimize_dag, max_total_num_input_blocks=None), simple_optimize_dag, fuse_all_optimize_dag]
def store_dump(ms):
    return {k: bytes(v.to_bytes()) for k, v in ms._store_dict.items()}
@seed(SEED)
@settings(max_examples=N, database=None, deadline=None, suppress_health_check=list(HealthCheck), phases=[Phase.generate])
@given(programs_multi(), st.integers(0, len(OPTS)-1), st.integers(0, 10**6))
def run(pv, oi, ps):
    prog, vals = pv
    stats["cases"] += 1
    results = {}
    for mode in ("unopt", "opt", "sched"):
        ms = MemoryStore(); ts = TraceStore(ms); LOG.clear()
        spec = cubed.Spec(intermediate_store=ts, allowed_mem=100_000_000)
        try:
            arrs = build_all(prog, spec)
        except (ValueError, NotImplementedError, TypeError, IndexError) as e:
            stats["declined:" + type(e).__name__] += 1; return
        except Exception as e:
            fail("build:" + type(e).__name__ + ":" + str(e)[:40], prog); return
        outs = [arrs[i] for i in prog["outs"]]
        kw = dict(optimize_graph=False) if mode == "unopt" else (dict(optimize_function=OPTS[oi]) if OPTS[oi] else {})
        ex = SchedExec(ps, dups=1) if mode == "sched" else SchedExec()
        try:
            res = cubed.compute(*outs, executor=ex, **kw)
        except Exception as e:
            fail(f"exec[{mode}]:" + type(e).__name__ + ":" + str(e)[:40], prog); return
        results[mode] = res
        for r, i in zip(res, prog["outs"]):
            e = vals[i]
            if r.shape != e.shape or not np.allclose(r, e, equal_nan=True): fail(f"value[{mode}]", prog, (i,))
        # C05 check on non-dup modes
        if mode != "sched":
            writers = collections.defaultdict(list); gets = collections.defaultdict(list)
            for rec in LOG:
                if rec[0] == "set" and "/c/" in rec[1] or (rec[0]=="set" and rec[1].endswith("/c")): writers[rec[1]].append(rec[2])
                if rec[0] == "get" and "/c" in rec[1]: gets[rec[1]].append(rec[2])
            for k, ws in writers.items():
                if len(ws) != 1: fail("C05:multi-set", prog, (k, ws[:4]))
                if ws[0] in gets.get(k, []): fail("C05:rmw", prog, (k,))
            if mode == "opt" and writers: stats["nontrivial_opt"] += 1
        else:
            # C06: duplicates wrote identical bytes? compare final store decoded result only (values already checked)
            pass
    stats["ok"] += 1
run()
print(dict(stats))
for k, (p, x) in fails.items(): print(k, x, json.dumps(p, default=str)[:400])
