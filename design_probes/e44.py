"""C17 probe: degenerate inputs (0-d, size-0, size-1, many tiny chunks) through a broad list of single-array functions; classify phase & exception."""
import numpy as np, cubed, cubed.array_api as xp, warnings, collections, traceback, itertools
from zarr.storage import MemoryStore
from cubed.runtime.executors.local import SingleThreadedExecutor
warnings.simplefilter("ignore"); np.seterr(all="ignore")
class Rec(SingleThreadedExecutor):
    entered = False
    def execute_dag(self, dag, **kw): self.entered = True; return super().execute_dag(dag, **kw)
sp = lambda: cubed.Spec(intermediate_store=MemoryStore(), allowed_mem=100_000_000)
SHAPES = [((), ()), ((0,), (1,)), ((1,), (1,)), ((7,), (1,)), ((7,), (3,)), ((12,), (2,)), ((0, 3), (1, 2)), ((3, 0), (2, 1)), ((1, 1), (1, 1)), ((4, 6), (1, 1)), ((5, 7), (2, 3)), ((2, 3, 4), (1, 2, 3)), ((13, 2), (2, 2))]
F = {
 "sum": (lambda a: xp.sum(a), np.sum), "sum0": (lambda a: xp.sum(a, axis=0), lambda d: np.sum(d, axis=0)), "mean": (lambda a: xp.mean(a), np.mean), "var": (lambda a: xp.var(a), np.var), "std0": (lambda a: xp.std(a, axis=0), lambda d: np.std(d, axis=0)),
 "max": (lambda a: xp.max(a), np.max), "min0": (lambda a: xp.min(a, axis=0), lambda d: np.min(d, axis=0)), "prod": (lambda a: xp.prod(a), np.prod), "all": (lambda a: xp.all(a), np.all), "any0": (lambda a: xp.any(a, axis=0), lambda d: np.any(d, axis=0)),
 "argmax": (lambda a: xp.argmax(a), np.argmax), "argmin0": (lambda a: xp.argmin(a, axis=0), lambda d: np.argmin(d, axis=0)), "count_nonzero": (lambda a: xp.count_nonzero(a), np.count_nonzero),
 "cumsum0": (lambda a: xp.cumulative_sum(a, axis=0), lambda d: np.cumulative_sum(d, axis=0)), "cumprod-1": (lambda a: xp.cumulative_prod(a, axis=-1), lambda d: np.cumulative_prod(d, axis=-1)),
 "nansum": (lambda a: cubed.nansum(a), np.nansum), "nanmean0": (lambda a: cubed.nanmean(a, axis=0), lambda d: np.nanmean(d, axis=0)), "nanmax": (lambda a: cubed.nanmax(a), np.nanmax), "nanargmax0": (lambda a: cubed.nanargmax(a, axis=0), lambda d: np.nanargmax(d, axis=0)),
 "nanvar": (lambda a: cubed.nanvar(a), np.nanvar), "nanmedian0": (lambda a: cubed.nanmedian(a, axis=0), lambda d: np.nanmedian(d, axis=0)), "nancumsum0": (lambda a: cubed.nancumsum(a, axis=0), lambda d: np.nancumsum(d, axis=0)),
 "flip": (lambda a: xp.flip(a), np.flip), "roll": (lambda a: xp.roll(a, 1), lambda d: np.roll(d, 1)), "roll0": (lambda a: xp.roll(a, 2, axis=0), lambda d: np.roll(d, 2, axis=0)), "repeat": (lambda a: xp.repeat(a, 2), lambda d: np.repeat(d, 2)),
 "tile": (lambda a: xp.tile(a, (2,)), lambda d: np.tile(d, (2,))), "reshape-1": (lambda a: xp.reshape(a, (-1,)), lambda d: d.reshape(-1)), "expand": (lambda a: xp.expand_dims(a, axis=0), lambda d: np.expand_dims(d, 0)),
 "T": (lambda a: xp.permute_dims(a, tuple(range(a.ndim))[::-1]), lambda d: d.T), "diff": (lambda a: xp.diff(a, axis=0), lambda d: np.diff(d, axis=0)), "concat": (lambda a: xp.concat([a, a]), lambda d: np.concatenate([d, d])),
 "stack": (lambda a: xp.stack([a, a]), lambda d: np.stack([d, d])), "unstack": (lambda a: xp.unstack(a)[0], lambda d: d[0]), "broadcast_to": (lambda a: xp.broadcast_to(a, (2,) + a.shape), lambda d: np.broadcast_to(d, (2,) + d.shape)),
 "index0": (lambda a: a[0], lambda d: d[0]), "index::2": (lambda a: a[::2], lambda d: d[::2]), "index::-1": (lambda a: a[::-1], lambda d: d[::-1]), "index empty": (lambda a: a[1:1], lambda d: d[1:1]), "index None": (lambda a: a[None], lambda d: d[None]),
 "index arr": (lambda a: a[np.array([0, 0])], lambda d: d[np.array([0, 0])]), "index ...": (lambda a: a[...], lambda d: d[...]), "take": (lambda a: xp.take(a, np.array([0]), axis=0), lambda d: np.take(d, [0], axis=0)),
 "rechunk1": (lambda a: a.rechunk(tuple(1 for _ in a.shape)), lambda d: d), "rechunkfull": (lambda a: a.rechunk(tuple(max(s, 1) for s in a.shape)), lambda d: d), "astype": (lambda a: xp.astype(a, np.int8), lambda d: d.astype(np.int8)),
 "tril": (lambda a: xp.tril(a), np.tril), "pad": (lambda a: cubed.pad(a, ((1, 1),) * a.ndim, mode="constant"), lambda d: np.pad(d, ((1, 1),) * d.ndim)), "where": (lambda a: xp.where(a > 1, a, -a), lambda d: np.where(d > 1, d, -d)),
 "matmul": (lambda a: a @ xp.permute_dims(a, tuple(range(a.ndim - 2)) + (a.ndim - 1, a.ndim - 2)), lambda d: d @ np.swapaxes(d, -1, -2)), "vecdot": (lambda a: xp.vecdot(a, a), lambda d: np.vecdot(d, d)), "tensordot0": (lambda a: xp.tensordot(a, a, axes=0), lambda d: np.tensordot(d, d, axes=0)),
 "outer": (lambda a: xp.linalg.outer(a, a), lambda d: np.outer(d, d)), "isin": (lambda a: xp.isin(a, a), lambda d: np.isin(d, d)), "searchsorted": (lambda a: xp.searchsorted(a, a), lambda d: np.searchsorted(d, d)),
 "squeeze": (lambda a: xp.squeeze(a, axis=0), lambda d: np.squeeze(d, axis=0)), "moveaxis": (lambda a: xp.moveaxis(a, 0, -1), lambda d: np.moveaxis(d, 0, -1)), "clip": (lambda a: xp.clip(a, 1, 3), lambda d: np.clip(d, 1, 3)),
 "map_blocks": (lambda a: cubed.map_blocks(lambda x: x + 1, a, dtype=a.dtype), lambda d: d + 1), "blocks0": (lambda a: a.blocks[0], None), "qr": (lambda a: xp.linalg.qr(a)[1], None), "svdvals": (lambda a: xp.linalg.svdvals(a), lambda d: np.linalg.svd(d, compute_uv=False)),
 "meshgrid": (lambda a: xp.meshgrid(a, a)[0], lambda d: np.meshgrid(d, d)[0]), "to bool": (lambda a: xp.asarray(bool(xp.any(a > 0)), spec=a.spec), lambda d: np.asarray(bool(np.any(d > 0)))),
}
res = collections.defaultdict(list)
for (shape, chunks), (fname, (cf, nf)) in itertools.product(SHAPES, F.items()):
    n = int(np.prod(shape))
    d = ((np.arange(n) * 7) % 11 - 3).astype(np.float64).reshape(shape)
    if fname == "searchsorted": d = np.sort(d, axis=None).reshape(shape)
    if nf is None: expect = None
    else:
        try: expect = np.asarray(nf(d))
        except Exception: continue     # NumPy cannot evaluate: outside the domain
    spec = sp(); phase = "build"
    try:
        a = xp.asarray(d, chunks=chunks, spec=spec)
        r = cf(a); phase = "plan"; r.plan().validate(); phase = "exec"
        ex = Rec(); got = r.compute(executor=ex)
        if expect is not None and (got.shape != expect.shape or not np.allclose(got, expect, equal_nan=True, rtol=1e-9)): res[fname, "WRONG VALUE/SHAPE"].append((shape, chunks))
    except Exception as e:
        ok_types = (ValueError, TypeError, NotImplementedError, IndexError)
        entered = phase == "exec" and ex.entered
        if isinstance(e, ok_types) and not entered: res[fname, "declined", phase, type(e).__name__].append((shape, chunks)); continue
        tb = traceback.extract_tb(e.__traceback__); last = [fr for fr in tb if "/repo/cubed" in fr.filename]
        res[fname, "VIOLATION", "mid-run" if entered else phase, type(e).__name__, (last[-1].name if last else "?"), str(e)[:50]].append((shape, chunks))
for k, v in sorted(res.items(), key=str):
    if k[1] == "declined": continue
    print(k, v[:6])
print("declines:", sum(len(v) for k, v in res.items() if k[1] == "declined"), "distinct", len([k for k in res if k[1] == "declined"]))
