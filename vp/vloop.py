"""Virtual-time asyncio event loop and scripted executor pool (shared by C07 tier A, C08 tier A, C13).

The real scheduler code of cubed (`async_map_unordered`, `async_map_dag`, `pipeline_to_stream` with the aiostream
merge, `should_launch_backup`, `batched`, the callback helpers and the tenacity retry wrapper built by
`threads_create_futures_func`) runs unmodified on a `VirtualTimeLoop`:

* `VirtualTimeLoop.time()` is a virtual clock that only moves when the loop would otherwise sleep; it then jumps
  exactly to the deadline of the earliest timer, so two completions scripted for the same instant are delivered in
  the same `asyncio.wait` round. If the loop would sleep forever with nothing scheduled, or virtual time / the number
  of loop iterations exceeds a bound, `Hang` is raised out of `run_until_complete` ("never hangs" detector).
* futures created by the loop hash by creation number (see `SeqFuture`), so the iteration order of cubed's sets of
  futures is reproducible; `hash_perm` selects among a few different legal orders.
* `virtual_time(loop, ...)` installs the loop, replaces the module attribute `cubed.runtime.asyncio.time` by a shim
  reading the virtual clock (so `should_launch_backup` sees virtual durations) and, optionally, replaces the module
  attribute `cubed.runtime.asyncio.asyncio` by a proxy whose `wait` returns the *same* finished/pending sets but with a
  harness-chosen iteration order of `finished` (a set's iteration order is otherwise an accident of object addresses).
  Everything is restored on exit. No file of cubed is touched.
* `ScriptedPool.submit(fn, i, **kw)` returns a `concurrent.futures.Future` that the loop completes at a scripted
  virtual time by actually calling `fn(i, **kw)` (the real retry wrapper around the harness task function).
"""
from __future__ import annotations

import asyncio
import concurrent.futures as cf
import contextlib
import heapq
import logging
from dataclasses import dataclass, field
from typing import Any, Callable, Optional


class Hang(Exception):
    """The event loop would sleep forever (or exceeded its virtual-time / iteration bound)."""


HASH_PERMS = ((1, 0), (7, 3), (11, 6), (13, 1), (5, 2), (3, 7))


class SeqFuture(asyncio.Future):
    """asyncio.Future whose hash is a function of its creation number instead of its memory address.

    cubed keeps futures in sets (`pending`, the `finished` set returned by asyncio.wait) and iterates them, so the order in
    which same-round completions are processed and in which backups are launched is an accident of object addresses.
    With creation-number hashes the iteration order is the same in every process (replays reproduce), and a different
    (multiplier, salt) gives a different - equally legal - order. Equality stays identity."""

    __slots__ = ("_vp_hash",)

    def __hash__(self):
        return self._vp_hash


class VirtualTimeLoop(asyncio.SelectorEventLoop):
    """Event loop whose clock only advances when the loop would otherwise sleep."""

    def __init__(self, max_time: float = 1e6, max_iters: int = 2_000_000, hash_perm: int = 0):
        super().__init__()
        self._fut_seq = 0
        self._hash_mult, self._hash_salt = HASH_PERMS[hash_perm % len(HASH_PERMS)]
        self._vt = 0.0
        self._vt_max = max_time
        self._iters = 0
        self._iters_max = max_iters
        real_select = self._selector.select

        def select(timeout=None):
            self._iters += 1
            if self._iters > self._iters_max:
                raise Hang(f"more than {self._iters_max} loop iterations at t={self._vt}")
            ev = real_select(0)
            if ev:
                return ev
            if timeout is None:
                raise Hang(f"event loop idle forever at t={self._vt} (nothing scheduled)")
            if timeout > 0:
                # jump exactly to the earliest deadline when that is what the timeout was computed from
                target = None
                if self._scheduled:
                    target = self._scheduled[0]._when
                if target is not None and 0 < target - self._vt <= timeout * (1 + 1e-9) + 1e-12:
                    self._vt = target
                else:
                    self._vt += timeout
                if self._vt > self._vt_max:
                    raise Hang(f"virtual time exceeded {self._vt_max} (livelock)")
            return []

        self._selector.select = select

    def time(self):
        return self._vt

    def create_future(self):
        f = SeqFuture(loop=self)
        self._fut_seq += 1
        f._vp_hash = self._fut_seq * self._hash_mult + self._hash_salt
        return f

    @property
    def iterations(self):
        return self._iters


class VClock:
    """Stands in for the `time` module inside cubed.runtime.asyncio."""

    def __init__(self, loop, epoch: float = 1_000_000.0):
        self.loop = loop
        self.epoch = epoch

    def monotonic(self):
        return self.loop.time()

    def time(self):
        return self.epoch + self.loop.time()

    def perf_counter(self):
        return self.loop.time()

    def sleep(self, s):  # never used by the code under test; must not really sleep
        raise RuntimeError("vp: time.sleep called under the virtual clock")


class OrderedIterSet(set):
    """A set whose iteration order is chosen by the harness (all other set behaviour unchanged)."""

    def __init__(self, items, key):
        items = list(items)
        super().__init__(items)
        self._order = sorted(items, key=key)

    def __iter__(self):
        return iter(self._order)


class _AsyncioProxy:
    """Module-like proxy for `asyncio` with `wait` replaced."""

    def __init__(self, wait):
        self.wait = wait

    def __getattr__(self, name):
        return getattr(asyncio, name)


def ordered_wait(key: Callable[[Any], Any]):
    """-> coroutine function with asyncio.wait's signature whose `done` set iterates in `key` order."""

    async def wait(fs, *, timeout=None, return_when=asyncio.ALL_COMPLETED):
        done, pending = await asyncio.wait(fs, timeout=timeout, return_when=return_when)
        return OrderedIterSet(done, key), pending

    return wait


class _NullOut:
    def write(self, s):
        return len(s)

    def flush(self):
        pass


@contextlib.contextmanager
def virtual_time(loop: VirtualTimeLoop, finished_order_key: Optional[Callable[[Any], Any]] = None, quiet: bool = True):
    """Install `loop` as the current event loop and point cubed.runtime.asyncio at its clock; restore afterwards."""
    import cubed.runtime.asyncio as cra

    saved_time = cra.time
    saved_asyncio = cra.asyncio
    cra.time = VClock(loop)
    if finished_order_key is not None:
        cra.asyncio = _AsyncioProxy(ordered_wait(finished_order_key))
    asyncio.set_event_loop(loop)
    lg = logging.getLogger("asyncio")
    saved_level = lg.level
    lg.setLevel(logging.CRITICAL)
    try:
        if quiet:
            with contextlib.redirect_stdout(_NullOut()):
                yield loop
        else:
            yield loop
    finally:
        cra.time = saved_time
        cra.asyncio = saved_asyncio
        lg.setLevel(saved_level)
        asyncio.set_event_loop(None)


def run_to_completion(loop: VirtualTimeLoop, coro):
    """loop.run_until_complete(coro) that always leaves the loop closed; Hang and the coroutine's exception propagate."""
    task = loop.create_task(coro)
    try:
        return loop.run_until_complete(task)
    finally:
        try:
            _drain(loop, task)
        finally:
            loop.close()


def _drain(loop, task):
    # cancel whatever is left (after Hang or an exception) without advancing virtual time any further
    todo = [t for t in asyncio.all_tasks(loop) if not t.done()]
    if not task.done():
        todo.append(task)
    for h in list(loop._scheduled):
        h.cancel()
    for t in todo:
        t.cancel()
    if todo:
        loop._iters = 0
        loop._vt_max = float("inf")
        try:
            loop.run_until_complete(asyncio.gather(*todo, return_exceptions=True))
        except BaseException:
            pass
    for t in todo:
        if t.done() and not t.cancelled():
            try:
                t.exception()  # mark retrieved
            except BaseException:
                pass
    try:
        loop.run_until_complete(loop.shutdown_asyncgens())
    except BaseException:
        pass


# --------------------------------------------------------------------------- scripted pool
@dataclass
class Submission:
    seq: int  # global submission counter
    key: Any  # identity of the work item (input, or (op, input))
    subno: int  # 0 = first submission of this key, 1 = second (backup), ...
    input: Any
    kwargs: dict
    submit_time: float
    fire_time: Optional[float] = None  # scheduled completion (virtual)
    fired: bool = False
    fired_at: Optional[float] = None
    cancelled: bool = False  # cancelled by the code under test before it ran
    attempts: int = 0  # calls of the task function made for this submission
    ok: Optional[bool] = None  # outcome once fired
    error: Any = None
    future: Any = None
    handle: Any = None
    data: dict = field(default_factory=dict)  # free for the check (script entry etc.)


class ScriptedPool:
    """Executor-like object: submit() returns a concurrent Future that the virtual loop completes at a scripted time.

    `schedule(sub) -> float | None` is called at submit time and returns the virtual *duration* after which the
    submission completes (None = the check schedules it itself with `fire_at`). Completion means: really call
    `fn(i, **kw)` (fn is whatever the code under test handed to submit, e.g. the tenacity retry wrapper) and
    transfer its result / exception to the future. While fn runs, `pool.current` is the Submission, so the harness
    task function can count attempts per submission.
    """

    def __init__(self, loop: VirtualTimeLoop, schedule: Callable[[Submission], Optional[float]], key_fn=None):
        self.loop = loop
        self.schedule = schedule
        self.key_fn = key_fn or (lambda i, kw: i)
        self.subs: list[Submission] = []
        self.by_key: dict[Any, list[Submission]] = {}
        self.current: Optional[Submission] = None
        self.shutdown_called = False
        self.events: list = []  # ("submit" | "fire" | "done", Submission, virtual time) in causal order

    def submit(self, fn, i, **kw):
        key = self.key_fn(i, kw)
        lst = self.by_key.setdefault(key, [])
        sub = Submission(seq=len(self.subs), key=key, subno=len(lst), input=i, kwargs=kw, submit_time=self.loop.time())
        sub.future = cf.Future()
        sub.data["fn"] = fn
        lst.append(sub)
        self.subs.append(sub)
        self.events.append(("submit", sub, sub.submit_time))
        d = self.schedule(sub)
        if d is not None:
            self.fire_at(sub, self.loop.time() + d)
        return sub.future

    def fire_at(self, sub: Submission, when: float):
        """(Re)schedule the completion of a not-yet-fired submission at virtual time `when`."""
        if sub.fired:
            return
        if sub.handle is not None:
            sub.handle.cancel()
        sub.fire_time = when
        sub.handle = self.loop.call_at(when, self._fire, sub)

    def _fire(self, sub: Submission):
        fut = sub.future
        if not fut.set_running_or_notify_cancel():
            sub.cancelled = True
            return
        sub.fired = True
        sub.fired_at = self.loop.time()
        self.events.append(("fire", sub, sub.fired_at))
        prev, self.current = self.current, sub
        try:
            r = sub.data["fn"](sub.input, **sub.kwargs)
        except BaseException as e:  # noqa: the future carries it, exactly like a real pool
            sub.ok = False
            sub.error = e
            self.current = prev
            fut.set_exception(e)
        else:
            sub.ok = True
            self.current = prev
            self.events.append(("done", sub, sub.fired_at))
            fut.set_result(r)

    def shutdown(self, wait=True, cancel_futures=False):
        self.shutdown_called = True
