"""C07 — executors never let a task read data its producers have not finished writing."""
from __future__ import annotations

import sys
import warnings

import numpy as np

import vp  # noqa
from vp import c01, c07a, core, prog as P
from vp.core import Acc, Failure, Outcome

ID = "C07"
LEVEL = "exploration"
RULE = (
    "Tier A (deciding; harness-owned schedules of the REAL scheduler): random DAGs shaped like finalized plans (1-8 operations, "
    "independent branches, diamonds, multi-output operations, unequal task counts, nodes without pipeline or marked computed, the "
    "create-arrays node wired as a predecessor of every operation, names not in topological order) x per-task virtual durations "
    "(zero, ties, stragglers) x compute_arrays_in_parallel x batch_size x use_backups x retries are run by the real async_map_dag on a "
    "virtual-time event loop with a scripted pool, and by the real single-threaded executor; oracle on the causal event sequence: "
    "every submission of a task of an operation follows the successful completion of every task of every ancestor operation, "
    "array creation precedes everything, every task runs. Tier B (end to end): generated programs on the single-threaded, threads "
    "and processes executors (max_workers 1-4, compute_arrays_in_parallel, batch_size) over a tracing store that delays every chunk write "
    "by a key-dependent 0-25 ms (processes: the worker processes append to per-pid trace files with system-wide monotonic timestamps, a "
    "read stamped before it is issued, a write after it returned); oracle: no chunk read of an array produced by the computation misses (no silent fill-value read), each "
    "hit read follows the completed write of that key in the trace, array metadata is written before any chunk access, and the values "
    "equal NumPy's. Non-trivial: tier A - some operation has >= 2 live producers or operations have unequal task counts; tier B - the "
    "plan has >= 2 dependent operations with >= 2 tasks. distinct = canonical JSON."
)
ASSUMPTIONS = [
    "tier A owns every completion time, so each duration assignment is one interleaving of the real scheduler; storage latency is modelled as task duration there",
    "tier B samples OS-level interleavings only through injected write latency; on the processes executor events of different processes are ordered by CLOCK_MONOTONIC (system-wide on Linux)",
]


# ------------------------------------------------------------------------------------------------ tier A
def check_dag(case) -> Outcome:
    fails, labels, info = c07a.run_dag(case)
    fails = list(fails)
    # the sequential executor on the same DAG
    try:
        fails += sequential_on_dag(case)
    except Exception as e:
        fails.append(Failure(f"dag:sequential:exception:{type(e).__name__}", f"{e!r}"[:300]))
    seen, uniq = set(), []
    for f in fails:
        if f.bucket not in seen:
            seen.add(f.bucket)
            uniq.append(f)
    return Outcome(nontrivial=bool(info.get("nontrivial")), labels=tuple(sorted(labels)), failures=tuple(uniq))


def sequential_on_dag(case):
    """The real SingleThreadedExecutor over the synthetic DAG: tasks of an op only after all tasks of all ancestor ops."""
    import networkx as nx

    from cubed.runtime.executors.local import SingleThreadedExecutor

    order = []

    def body(m, config=None):
        order.append((config.op, m))

    dag = c07a.build_dag(dict(case, create_arrays=case.get("create_arrays", True)), body)
    SingleThreadedExecutor().execute_dag(dag, callbacks=None)
    live = {op["name"]: op for op in case["ops"] if op.get("pipeline", True) and not op.get("computed")}
    pos = {}
    for idx, (op, m) in enumerate(order):
        pos.setdefault(op, []).append(idx)
    out = []
    for name, op in live.items():
        if name not in pos or len(pos[name]) != op["ntasks"]:
            out.append(Failure("dag:sequential:task-count", f"{name}: ran {len(pos.get(name, []))} of {op['ntasks']} tasks"))
            continue
        anc = [a for a in nx.ancestors(dag, name) if a in live]
        for a in anc:
            if a in pos and max(pos[a]) > min(pos[name]):
                out.append(Failure("dag:sequential:task-before-producer-finished", f"{name} started before {a} finished"))
                break
        if "create-arrays" in pos and min(pos[name]) < max(pos["create-arrays"]):
            out.append(Failure("dag:sequential:before-create-arrays", f"{name} ran before array creation"))
    for op in case["ops"]:
        if (not op.get("pipeline", True) or op.get("computed")) and op["name"] in pos:
            out.append(Failure("dag:sequential:skipped-op-ran", f"{op['name']} has no pipeline / is marked computed but ran"))
    return out


# ------------------------------------------------------------------------------------------------ tier B
def program_cases(opts=None, max_ops=4, executors=("threads", "threads", "threads", "single-threaded")):
    from hypothesis import strategies as st

    @st.composite
    def cases(draw):
        prog = draw(P.programs(draw(st.sampled_from(["dag", "fusion-rich", "storage-rich"])), max_ops=max_ops, min_ops=2, opts=opts))
        e = draw(st.sampled_from(list(executors)))
        case = {"kind": "program", "prog": prog, "executor": e, "optimize": draw(st.sampled_from([False, False, True])), "lat_seed": draw(st.integers(0, 999))}
        if e in ("threads", "processes"):
            case["max_workers"] = draw(st.sampled_from([1, 2, 4, 4]))
            case["parallel"] = draw(st.booleans())
            case["batch_size"] = draw(st.sampled_from([None, None, 1, 2, 100]))
        return case

    return cases()


def analyse_trace(log, fails):
    """log: [(order, op, key, info, who)] with `order` a sequence number or a system-wide monotonic timestamp.  Appends the
    failures of the read-after-completed-write oracle to `fails`; -> (misses, early reads)."""
    from vp import harness as H

    set_done = {}
    meta_done = {}
    for (seq, op, key, info, who) in log:
        path, what = H.split_key(key)
        if op == "set":
            if what == "meta":
                meta_done.setdefault(path, seq)
            elif what != "other":
                set_done.setdefault(key, seq)
    miss = early = 0
    for (seq, op, key, info, who) in log:
        if op != "get":
            continue
        path, what = H.split_key(key)
        if what in ("meta", "other"):
            continue
        if path not in meta_done or meta_done[path] > seq:
            if not fails or all(f.bucket != "chunk-access-before-array-created" for f in fails):
                fails.append(Failure("chunk-access-before-array-created", f"{key} read at #{seq} before the array's metadata was written"))
        if not info:
            miss += 1
            if all(f.bucket != "premature-read:fill-value" for f in fails):
                w = set_done.get(key)
                fails.append(Failure("premature-read:fill-value", f"{key} was read at #{seq} (miss) by {who}; " + (f"its write completed at #{w}" if w is not None else "it was never written")))
        elif key in set_done and set_done[key] > seq:
            early += 1
            if all(f.bucket != "read-before-write-completed" for f in fails):
                fails.append(Failure("read-before-write-completed", f"{key} read at #{seq}, write completed at #{set_done[key]}"))
    return miss, early


def check_program(case) -> Outcome:
    import hashlib

    import cubed
    from zarr.storage import MemoryStore

    from vp import harness as H

    prog = case["prog"]
    labels = {f"exec:{case['executor']}", f"parallel:{case.get('parallel')}", f"batch:{case.get('batch_size')}", f"workers:{case.get('max_workers')}"}
    vals = P.eval_numpy(prog)
    ts = H.TraceStore(MemoryStore())
    seed = case.get("lat_seed", 0)

    def latency(key):
        h = hashlib.blake2b(f"{seed}:{key}".encode(), digest_size=2).digest()
        return (h[0] % 6) * 0.005  # 0..25 ms, a pure function of key and case

    spec = cubed.Spec(intermediate_store=ts, allowed_mem=2_000_000_000, reserved_mem=0)
    fails = []
    with warnings.catch_warnings():
        warnings.simplefilter("ignore")
        try:
            arrs = P.build_cubed(prog, spec)
            outs = [arrs[i] for i in prog["outputs"]]
            fp = cubed.plan(*outs, optimize_graph=case["optimize"])
            fp.validate()
        except Exception as e:
            labels.add(f"declined:{type(e).__name__}")
            return Outcome(labels=tuple(labels))
        # structural part of the property on the real finalized plan: array creation precedes every operation
        import networkx as nx

        if "create-arrays" in fp.dag:
            for n, d in fp.dag.nodes(data=True):
                if d.get("type") == "op" and "pipeline" in d and n != "create-arrays" and "create-arrays" not in nx.ancestors(fp.dag, n):
                    fails.append(Failure("plan:op-not-ordered-after-array-creation", f"{n} ({d.get('op_name')}) can be scheduled before create-arrays"))
                    break
        if case["executor"] == "threads":
            from cubed.runtime.create import create_executor

            o = {"max_workers": case.get("max_workers", 2)}
            if case.get("batch_size") is not None:
                o["batch_size"] = case["batch_size"]
            o["compute_arrays_in_parallel"] = bool(case.get("parallel"))
            ex = create_executor("threads", o)
        else:
            ex = H.make_executor("single-threaded")
        ts.state.latency = latency
        try:
            res = cubed.compute(*outs, executor=ex, optimize_graph=case["optimize"])
        except Exception as e:
            ts.state.latency = None
            # does the same program run on a fresh store with the sequential executor?  then the schedule is to blame
            try:
                spec2 = cubed.Spec(intermediate_store=MemoryStore(), allowed_mem=2_000_000_000, reserved_mem=0)
                arrs2 = P.build_cubed(prog, spec2)
                cubed.compute(*[arrs2[i] for i in prog["outputs"]], executor=H.make_executor("single-threaded"), optimize_graph=case["optimize"])
                fails.append(Failure(f"failed-only-under-this-schedule:{type(e).__name__}", f"{case['executor']} parallel={case.get('parallel')} batch={case.get('batch_size')}: {e!r}"[:300]))
                return Outcome(nontrivial=True, labels=tuple(labels), failures=tuple(fails))
            except Exception:
                labels.add(f"failed:{type(e).__name__}(C17)")
                return Outcome(labels=tuple(labels), failures=tuple(fails))
        finally:
            ts.state.latency = None
    # ---- trace analysis
    miss, early = analyse_trace([(seq, op, key, info, task) for (seq, op, key, task, info, t) in ts.state.log], fails)
    for oid, got in zip(prog["outputs"], res):
        if P.compare(np.asarray(got), vals[oid]) is not None:
            labels.add("numpy-mismatch")
            if miss or early:
                fails.append(Failure("wrong-values-after-premature-read", f"output {oid} differs from NumPy"))
            break
    # non-triviality: dependent ops with >= 2 tasks
    nt = False
    for n, d in fp.dag.nodes(data=True):
        if d.get("type") == "op" and "primitive_op" in d and n != "create-arrays" and d["primitive_op"].num_tasks >= 2:
            for a in fp.dag.predecessors(n):
                for pn in fp.dag.predecessors(a):
                    pd = fp.dag.nodes[pn]
                    if "primitive_op" in pd and pn != "create-arrays" and pd["primitive_op"].num_tasks >= 2:
                        nt = True
    labels.add(f"chunk-reads={min(len([1 for r in ts.state.log if r[1] == 'get' and H.is_chunk_key(r[2])]), 40) // 10 * 10}+")
    return Outcome(nontrivial=nt, labels=tuple(labels), failures=tuple(fails))


def check_program_processes(case) -> Outcome:
    """Tier B on the real processes executor: the trace is written by the worker processes themselves (FileTraceStore)."""
    import os
    import shutil

    import cubed
    from zarr.storage import LocalStore

    from cubed.runtime.create import create_executor
    from vp import harness as H

    prog = case["prog"]
    labels = {"exec:processes", f"parallel:{case.get('parallel')}", f"batch:{case.get('batch_size')}", f"workers:{case.get('max_workers')}"}
    vals = P.eval_numpy(prog)
    wd = c01.Scratch.fresh("c07p")
    fails = []
    try:
        fs = H.FileTraceStore(LocalStore(os.path.join(wd, "store")), os.path.join(wd, "log"), lat_seed=case.get("lat_seed", 0))
        spec = cubed.Spec(intermediate_store=fs, allowed_mem=2_000_000_000, reserved_mem=0)
        ctx = P.BuildCtx(lambda: LocalStore(c01.Scratch.fresh("in")))
        with warnings.catch_warnings():
            warnings.simplefilter("ignore")
            try:
                arrs = P.build_cubed(prog, spec, ctx)
                outs = [arrs[i] for i in prog["outputs"]]
                fp = cubed.plan(*outs, optimize_graph=case["optimize"])
                fp.validate()
            except Exception as e:
                labels.add(f"declined:{type(e).__name__}")
                return Outcome(labels=tuple(labels))
            o = {"max_workers": case.get("max_workers", 2), "compute_arrays_in_parallel": bool(case.get("parallel"))}
            if case.get("batch_size") is not None:
                o["batch_size"] = case["batch_size"]
            try:
                res = cubed.compute(*outs, executor=create_executor("processes", o), optimize_graph=case["optimize"])
            except Exception as e:
                try:
                    spec2 = c01.make_spec("single-threaded")
                    arrs2 = P.build_cubed(prog, spec2)
                    cubed.compute(*[arrs2[i] for i in prog["outputs"]], executor=H.make_executor("single-threaded"), optimize_graph=case["optimize"])
                    fails.append(Failure(f"failed-only-under-this-schedule:{type(e).__name__}", f"processes parallel={case.get('parallel')} batch={case.get('batch_size')}: {e!r}"[:300]))
                    return Outcome(nontrivial=True, labels=tuple(labels), failures=tuple(fails))
                except Exception:
                    labels.add(f"failed:{type(e).__name__}(C17)")
                    return Outcome(labels=tuple(labels))
        log = H.read_file_trace(os.path.join(wd, "log"))
        pids = {r[1] for r in log}
        labels.add(f"trace-processes={min(len(pids), 4)}")
        miss, early = analyse_trace([(t, op, key, info, f"pid {pid}") for (t, pid, op, key, info) in log], fails)
        for oid, got in zip(prog["outputs"], res):
            if P.compare(np.asarray(got), vals[oid]) is not None:
                labels.add("numpy-mismatch")
                if miss or early:
                    fails.append(Failure("wrong-values-after-premature-read", f"output {oid} differs from NumPy"))
                break
        nreads = len([1 for r in log if r[2] == "get" and H.is_chunk_key(r[3])])
        labels.add(f"chunk-reads={min(nreads, 40) // 10 * 10}+")
        return Outcome(nontrivial=_dependent_multi_task_ops(fp) and len(pids) >= 2, labels=tuple(labels), failures=tuple(fails))
    finally:
        shutil.rmtree(wd, ignore_errors=True)


def _dependent_multi_task_ops(fp):
    for n, d in fp.dag.nodes(data=True):
        if d.get("type") == "op" and "primitive_op" in d and n != "create-arrays" and d["primitive_op"].num_tasks >= 2:
            for a in fp.dag.predecessors(n):
                for pn in fp.dag.predecessors(a):
                    pd = fp.dag.nodes[pn]
                    if "primitive_op" in pd and pn != "create-arrays" and pd["primitive_op"].num_tasks >= 2:
                        return True
    return False


def check_case(case) -> Outcome:
    if case.get("kind") == "dag":
        return check_dag(case)
    if case.get("executor") == "processes":
        return check_program_processes(case)
    return check_program(case)


def shards(tier):
    if tier == "quick":
        return ([{"kind": "dag", "name": f"dag{i}", "n": 1500} for i in range(5)]
                + [{"kind": "program", "name": f"prog{i}", "n": 60, "rotate": 47 + i * 79} for i in range(3)]
                + [{"kind": "program", "name": f"proc{i}", "n": 9, "rotate": 13 + i * 31, "executors": ["processes"], "max_ops": 3} for i in range(2)])
    return ([{"kind": "dag", "name": f"dag{i}", "n": 15000} for i in range(10)]
            + [{"kind": "program", "name": f"prog{i}", "n": 260, "rotate": 47 + i * 79} for i in range(6)]
            + [{"kind": "program", "name": f"proc{i}", "n": 90, "rotate": 13 + i * 31, "executors": ["processes"], "max_ops": 3} for i in range(4)])


def run_shard(spec, seed, tier) -> Acc:
    acc = Acc()
    if spec["kind"] == "__corpus__":
        return core.corpus_shard(sys.modules[__name__], acc)
    is_known, _ = core.known_matcher(ID)
    if spec["kind"] == "dag":
        strat = c07a.dag_cases()
    else:
        kw = {"executors": tuple(spec["executors"])} if spec.get("executors") else {}
        strat = program_cases({"rotate": spec.get("rotate", 0), "allow_zero": False}, max_ops=spec.get("max_ops", 4), **kw)
    core.hyp_run(strat, check_case, seed=seed, max_examples=spec["n"], acc=acc, budget_s=420 if tier == "quick" else 3000,
                 shrink=(tier == "thorough"), is_known=is_known)
    return acc


def replay(case):
    return check_case(case).all_failures()
