"""C15 — blockwise block addressing follows the index expression / key function, before and after fusion.

Three families of cases, all decided by an oracle that shares no code with cubed:

  expr   (part 1) one index expression: out index, <= 3 argument indices over <= 4 symbols, blocks per
         (argument, position) in {1,2,3} (1 where the symbol has more = broadcast), new axes, contractions.
         Functions under test: make_blockwise_back_key_function, make_blockwise_back_key_function_flattened and
         the key function / task list / metadata of the PrimitiveOperation built by primitive.blockwise(...).
         Oracle: `expr_reference` (the index algebra restated in ~30 lines), every output block.
         quick: Hypothesis sample + a small enumerated slice; thorough: the whole bounded domain by enumeration
         (symbols named in order of first appearance, see `enum_exprs`) plus a Hypothesis sample of the wider one.

  tree   (part 2) a small DAG (depth <= 3) of blockwise operations whose key functions have the shapes
         map (one-to-one / several arguments / broadcast), list, iter, gen (generator), mixed (key + list),
         mixlist (one list mixing blocks of several source arrays),
         alt and stack (alternating source), cat (one stream over several sources), with repeated predecessors,
         shared (hence unfusable -> None) predecessors, multi-output producers and unequal task counts.
         Operations are real PrimitiveOperations from general_blockwise over stand-in arrays; the DAG is handed to
         the real optimizer functions (multiple_inputs_optimize_dag with drawn limits, fuse_all / fuse_only,
         the legacy simple_optimize_dag) so only what the can_fuse_* predicates allow is fused, with fuse_multiple /
         fuse called exactly as the optimizer calls them.  Every task of the optimized (and of the unoptimized)
         DAG is then run through the real stage function apply_blockwise on *symbolic* storage: a leaf block is
         ("chunk", array, coords), a node function returns ("f", node, args...) with lists / iterators turned into
         tagged tuples.  Oracle: `ref_block`, a plain recursion over the JSON description of the unfused nodes.

  plan   (part 2, real programs) cubed.array_api programs (hand-written ones and programs from the shared IR
         generator): for every block of every array that survives optimization, the nested key structure
         returned by the optimized plan's key functions, expanded down to the plan inputs, must equal the
         composition of the unoptimized plan's key functions (same arrays, coordinates, positions, list/iterator
         structure).  Key functions only - nothing is executed.
"""
from __future__ import annotations

import itertools
import sys
from collections import Counter
from collections.abc import Iterator

import vp  # noqa: F401  (path set-up)
from vp import core
from vp.core import Acc, Failure, HarnessError, Outcome

ID = "C15"
LEVEL = "exploration"
RULE = (
    "expr: out index + 1-3 argument indices (sequences of distinct symbols, <= 4 symbols, 0-4 dims), blocks per "
    "(argument, position) in {1,2,3} with 1 allowed where others have more (broadcast), new axes with 1-3 blocks, "
    "contracted symbols (single block: accepted; more: ValueError required from all three constructors), str/int "
    "symbols, string/tuple index form, repeated array names; every output block of make_blockwise_back_key_function, "
    "..._flattened and primitive.blockwise(...).pipeline.config.back_key_function (+ num_tasks, task list, "
    "source_array_names, num_input_blocks, reads_map) is compared with an independent reference of the index algebra. "
    "quick = Hypothesis sample + enumerated slice (1 argument complete, 2 arguments <= 2 dims); thorough = complete "
    "enumeration of {1 arg <= 4 dims, 2 args <= 4 dims, 3 args <= 2 dims} x out index <= 4 dims x all block/broadcast/"
    "new-axis assignments, modulo renaming of symbols (symbols named by first appearance; the concrete alphabet is "
    "rotated through str/int/permuted variants), plus a Hypothesis sample of 3 args <= 4 dims. "
    "tree: Hypothesis DAGs of 1-6 blockwise ops (depth <= 3) over key-function shapes {map, list, iter, gen, mixed, mixlist "
    "(one list mixing blocks of >= 2 source arrays), alt, stack, cat}, 1-2 grid dims, repeated/shared/multi-output/non-fusable predecessors, optimized by the real optimizer "
    "entry points (default, max_total_num_input_blocks None/1/4/100, max_total_source_arrays 2/10, fuse_all, fuse_only, "
    "legacy simple_optimize_dag); all tasks of optimized and unoptimized DAG run through the real apply_blockwise on "
    "symbolic storage; every stored block must equal the term computed by recursion over the unfused description. "
    "plan: real cubed.array_api programs (16 hand-written + IR-generated); per block, the fully expanded key structure of "
    "the optimized plan must equal that of the unoptimized plan. "
    "Non-trivial: expr = >= 2 arguments with different index tuples or a broadcast/new axis/contraction; tree = an "
    "optimized op containing a fused chain of depth >= 2 that includes a list/iterator argument or a repeated "
    "predecessor; plan = some op was fused and some array has >= 2 blocks. distinct = canonical JSON of the case."
)
ASSUMPTIONS = [
    "the storage layer is replaced by stand-ins: virtual (never materialised) arrays for part 1, symbolic arrays for part 2; "
    "zarr reads/writes themselves are the business of C05/C11/C12",
    "index expressions use distinct symbols within one argument; every output symbol occurs in an argument or in new_axes "
    "(what cubed.core.ops.blockwise guarantees before calling the primitive)",
    "only fusions admitted by the optimizer's own predicates are performed; a multi-output operation is never fused as a "
    "predecessor (the optimizer refuses it)",
    "legacy simple_optimize_dag with a successor whose first key-function argument is a list/iterator (formerly a defect, "
    "repaired in /repo) is part of the generated domain",
    "real plans are compared at the level of key functions (which blocks, in which structure); values are C02's business",
]

# =========================================================================== part 1: index expressions
NSYM = 4
ALPHABETS = [
    ["i", "j", "k", "l"],
    [0, 1, 2, 3],
    ["l", "k", "j", "i"],
    [3, 1, 0, 2],
    ["b", "a", "d", "c"],
    ["j", "i", "l", "k"],
    [2, 3, 1, 0],
    ["x", "y", "z", "w"],
]

_CB = {}


def _cb():
    """cubed names used by this module (imported lazily, inside the worker process)."""
    if not _CB:
        import numpy as np

        from cubed.primitive import blockwise as B
        from cubed.primitive.types import CubedArrayProxy
        from cubed.storage.virtual import virtual_empty

        _CB.update(np=np, B=B, CubedArrayProxy=CubedArrayProxy, virtual_empty=virtual_empty)
    return _CB


def _marker(*a, **k):  # the function slot of the key tuples; never called
    raise AssertionError("marker function must not be called")


def expr_validate(case):
    out, args = case["out"], case["args"]
    if len(set(out)) != len(out):
        raise HarnessError("repeated symbol in out index")
    used = {}
    for ind, nb in args:
        if len(ind) != len(nb) or len(set(ind)) != len(ind):
            raise HarnessError("malformed argument index")
        for s, b in zip(ind, nb):
            used.setdefault(s, set()).add(b)
    for s, bs in used.items():
        if len(bs - {1}) > 1:
            raise HarnessError("blocks do not align")
    new = {int(k): v for k, v in case.get("new", {}).items()}
    for s in out:
        if s not in used and s not in new:
            raise HarnessError("output symbol neither in an argument nor a new axis")
    for s in new:
        if s in used or s not in out:
            raise HarnessError("new axis symbol must be output-only")
    names = case.get("names") or [f"x{a}" for a in range(len(args))]
    seen = {}
    for nm, (ind, nb) in zip(names, args):
        if seen.setdefault(nm, list(nb)) != list(nb):
            raise HarnessError("repeated array name with different numblocks")
    return names, new


def expr_reference(case):
    """The index algebra, restated.  -> (must_raise, grid, keys(out_coords) -> [(name, coords)], contracted-per-arg)"""
    names, new = expr_validate(case)
    out, args = case["out"], case["args"]
    pos = {s: i for i, s in enumerate(out)}
    d = {}
    for ind, nb in args:
        for s, b in zip(ind, nb):
            d[s] = max(d.get(s, 1), b)
    d.update(new)
    must_raise = any(b > 1 for ind, nb in args for s, b in zip(ind, nb) if s not in pos)
    grid = [d[s] for s in out]

    def keys(oc):
        return [
            (nm, tuple((oc[pos[s]] if b > 1 else 0) if s in pos else 0 for s, b in zip(ind, nb)))
            for nm, (ind, nb) in zip(names, args)
        ]

    ncontr = [sum(1 for s in ind if s not in pos) for ind, _ in args]
    return must_raise, grid, keys, ncontr


def expr_features(case):
    out, args = case["out"], case["args"]
    pos = {s: i for i, s in enumerate(out)}
    d = {}
    for ind, nb in args:
        for s, b in zip(ind, nb):
            d[s] = max(d.get(s, 1), b)
    f = set()
    if any(b == 1 and d[s] > 1 for ind, nb in args for s, b in zip(ind, nb)):
        f.add("broadcast")
    if case.get("new"):
        f.add("new-axis")
    contr = [[s for s in ind if s not in pos] for ind, _ in args]
    if any(contr):
        f.add("contraction")
        if not contr[0]:
            f.add("contraction-later-arg-only")
    if len({tuple(ind) for ind, _ in args}) >= 2:
        f.add("different-indices")
    for ind, _ in args:
        p = [pos[s] for s in ind if s in pos]
        if p != sorted(p):
            f.add("permuted")
        if len(ind) == 0:
            f.add("0-d-arg")
    if not out:
        f.add("0-d-out")
    names = case.get("names")
    if names and len(set(names)) < len(names):
        f.add("repeated-name")
    return f


def _expr_class(feats):
    for k in ("contraction-later-arg-only", "contraction", "new-axis", "broadcast", "permuted"):
        if k in feats:
            return k
    return "plain"


_VIRT = {}


def _virtual(nb):
    c = _cb()
    a = _VIRT.get(nb)
    if a is None:
        a = _VIRT[nb] = c["virtual_empty"](nb, dtype=c["np"].int8, chunks=(1,) * len(nb))
    return a


def _srepr(x):
    """repr that survives malformed ChunkKeys (their __repr__ concatenates tuples)."""
    try:
        return repr(x)
    except Exception:
        try:
            return "[" + ", ".join(f"ChunkKey(name={k.name!r}, coords={k.coords!r})" for k in x) + "]"
        except Exception:
            return "<unprintable>"


def _diagnose(case, exp, got, ncontr):
    """What kind of difference (root-cause hint): arity / structure / array / which kind of coordinate."""
    try:
        if len(got) != len(exp):
            return "arity"
        pos = set(case["out"])
        for a, ((nm, co), x) in enumerate(zip(exp, got)):
            depth = 0
            while isinstance(x, list):
                if len(x) != 1:
                    return "structure"
                x, depth = x[0], depth + 1
            if ncontr is None:
                if depth or not isinstance(x.name, str) or not isinstance(x.coords, tuple):
                    return "structure"
                gn, gc = x.name, x.coords
            else:
                if depth != ncontr[a] or not isinstance(x, tuple) or not x:
                    return "structure"
                gn, gc = x[0], tuple(x[1:])
            if gn != nm:
                return "array"
            if len(gc) != len(co):
                return "structure"
            ind, nb = case["args"][a]
            for s, b, u, v in zip(ind, nb, gc, co):
                if u != v or type(u) is not int:
                    if s not in pos:
                        return "contracted-coordinate"
                    return "broadcast-coordinate" if b == 1 else "coordinate"
    except Exception:
        return "structure"
    return "structure"


def _nest(x, n):
    for _ in range(n):
        x = [x]
    return x


def check_expr(case, with_op=True) -> Outcome:
    c = _cb()
    B = c["B"]
    must_raise, grid, keys, ncontr = expr_reference(case)
    names, new = expr_validate(case)
    feats = expr_features(case)
    cls = _expr_class(feats)
    args = case["args"]
    alpha = case.get("symmap") or ALPHABETS[0]
    as_str = bool(case.get("outstr")) and all(isinstance(a, str) and len(a) == 1 for a in alpha)

    def conv(ind):
        t = tuple(alpha[s] for s in ind)
        return "".join(t) if as_str else t

    out_ind = conv(case["out"])
    inds = [conv(ind) for ind, _ in args]
    numblocks = {nm: tuple(nb) for nm, (_, nb) in zip(names, args)}
    new_axes = {alpha[s]: ((1,) * m if (m > 1 or case.get("newtuple")) else 1) for s, m in new.items()}
    pairs = [x for nm, ind in zip(names, inds) for x in (nm, ind)]
    labels = [f"p1:arity={len(args)}", f"p1:class={cls}", "p1:syms=" + ("int" if isinstance(alpha[0], int) else "str")]
    labels += ["p1:" + f for f in sorted(feats)]
    fails = []

    def bad(fn, what, msg, sub=None):
        fails.append(Failure(f"expr:{fn}:{what}:{sub or cls}", f"{msg}; out={out_ind!r} args={list(zip(names, inds))} numblocks={numblocks} new_axes={new_axes}"[:700]))

    built = {}

    def build(fn, thunk):
        try:
            obj = thunk()
        except ValueError as e:
            if not must_raise:
                bad(fn, "unexpected-ValueError", str(e)[:150])
            return
        except Exception as e:  # noqa
            bad(fn, f"build-exception:{type(e).__name__}", repr(e)[:200])
            return
        if must_raise:
            bad(fn, "missing-ValueError", "a contracted symbol has > 1 block in some argument but construction succeeded")
            return
        built[fn] = obj

    kw = dict(numblocks=numblocks, new_axes=new_axes or None)
    build("raw", lambda: B.make_blockwise_back_key_function(_marker, "out", out_ind, *pairs, **kw))
    build("flat", lambda: B.make_blockwise_back_key_function_flattened(_marker, "out", out_ind, *pairs, **kw))
    if with_op:
        arrs = [x for nm, ind, (_, nb) in zip(names, inds, args) for x in (_virtual(tuple(nb)), ind)]
        build(
            "op",
            lambda: B.blockwise(
                _marker, out_ind, *arrs, allowed_mem=10**9, reserved_mem=0, target_store="/nonexistent/c15", target_name="out",
                shape=tuple(grid), dtype=c["np"].int8, chunks=(1,) * len(grid), new_axes=new_axes or None, in_names=list(names),
            ),
        )
    if must_raise:
        labels.append("p1:contraction-rejected")
        return Outcome(nontrivial=True, labels=tuple(labels), failures=tuple(fails))

    blocks = list(itertools.product(*[range(n) for n in grid]))
    op = built.get("op")
    if op is not None:
        spec = op.pipeline.config
        try:
            if op.num_tasks != len(blocks):
                bad("op", "num_tasks", f"num_tasks {op.num_tasks} != {len(blocks)} output blocks", sub="metadata")
            if [tuple(m) for m in op.pipeline.mappable] != blocks:
                bad("op", "task-list", f"mappable {list(op.pipeline.mappable)[:6]}.. is not the output block grid {grid}", sub="metadata")
            if list(op.source_array_names) != list(names):
                bad("op", "source_array_names", f"{op.source_array_names} != {names}", sub="metadata")
            if tuple(spec.num_input_blocks) != (1,) * len(args):
                bad("op", "num_input_blocks", f"{spec.num_input_blocks}", sub="metadata")
            if set(spec.reads_map) != set(names) or list(spec.writes_map) != ["out"]:
                bad("op", "proxies", f"reads {list(spec.reads_map)} writes {list(spec.writes_map)}", sub="metadata")
        except Exception as e:  # noqa
            bad("op", f"metadata-exception:{type(e).__name__}", repr(e)[:200])
    ck = B.ChunkKey
    for fn, obj in built.items():
        kf = obj.pipeline.config.back_key_function if fn == "op" else obj
        outname = "out"
        for oc in blocks:
            exp = keys(oc)
            try:
                got = kf(ck(outname, oc))
                if fn == "raw":
                    if not isinstance(got, tuple) or not got or got[0] is not _marker:
                        bad(fn, "func-slot", f"block {oc}: position 0 is not the function: {got!r}"[:300])
                        break
                    want = [_nest((nm,) + co, n) for (nm, co), n in zip(exp, ncontr)]
                    if list(got[1:]) != want:
                        bad(fn, "mismatch", f"block {oc}: got {_srepr(list(got[1:]))} expected {want!r}", _diagnose(case, exp, list(got[1:]), ncontr))
                        break
                else:
                    if not isinstance(got, B.FunctionArgs):
                        bad(fn, "type", f"block {oc}: {type(got).__name__} returned")
                        break
                    want = [ck(nm, co) for nm, co in exp]
                    g = list(got.args)
                    if g != want or not all(isinstance(k, ck) and isinstance(k.coords, tuple) for k in g):
                        bad(fn, "mismatch", f"block {oc}: got {_srepr(g)} expected {want!r}", _diagnose(case, exp, g, None))
                        break
                    if got.output_name != outname:
                        bad(fn, "output_name", f"block {oc}: output_name {got.output_name!r} != {outname!r}")
                        break
            except Exception as e:  # noqa
                bad(fn, f"call-exception:{type(e).__name__}", f"block {oc}: {e!r}"[:300])
                break
    if len(blocks) > 1:
        labels.append("p1:multi-block-out")
    nt = bool(feats & {"different-indices", "broadcast", "new-axis", "contraction"})
    return Outcome(nontrivial=nt, labels=tuple(labels), failures=tuple(fails))


# ------------------------------------------------------------------ part 1 generators
def _seqs(maxlen):
    out = []
    for n in range(maxlen + 1):
        out.extend(itertools.permutations(range(NSYM), n))
    return out


def enum_exprs(nargs, argmax, outmax, part=0, nparts=1):
    """Every expression with `nargs` arguments of <= argmax dims and an out index of <= outmax dims over 4 symbols,
    symbols named in order of first appearance in (out, arg0, arg1, ...), all block / broadcast / new-axis assignments."""
    S, O = _seqs(argmax), _seqs(outmax)
    count = 0
    for idx, inds in enumerate(itertools.product(S, repeat=nargs)):
        if idx % nparts != part:
            continue
        slots = {}
        for a, ind in enumerate(inds):
            for p, s in enumerate(ind):
                slots.setdefault(s, []).append((a, p))
        for out in O:
            seen = []
            for s in itertools.chain(out, *inds):
                if s not in seen:
                    seen.append(s)
            if seen != list(range(len(seen))):
                continue
            syms = sorted(slots)
            newsyms = [s for s in out if s not in slots]
            opts = []
            for s in syms:
                sl = slots[s]
                o = [(1, ())]
                for dd in (2, 3):
                    for r in range(1, len(sl) + 1):
                        for full in itertools.combinations(range(len(sl)), r):
                            o.append((dd, full))
                opts.append(o)
            for choice in itertools.product(*opts):
                nbs = [[1] * len(ind) for ind in inds]
                for s, (dd, full) in zip(syms, choice):
                    for f in full:
                        a, p = slots[s][f]
                        nbs[a][p] = dd
                for newb in itertools.product((1, 2, 3), repeat=len(newsyms)):
                    count += 1
                    alpha = ALPHABETS[count % len(ALPHABETS)]
                    case = {
                        "kind": "expr",
                        "out": list(out),
                        "args": [[list(ind), nb] for ind, nb in zip(inds, nbs)],
                        "new": {str(s): b for s, b in zip(newsyms, newb)},
                        "symmap": alpha,
                    }
                    if (count // len(ALPHABETS)) % 2:
                        case["outstr"] = True
                    if (count // 5) % 3 == 0 and newsyms:
                        case["newtuple"] = True
                    yield case


def _uni(draw, st, hi):
    """Uniform integer in [0, hi] (st.integers is biased towards the ends of its range)."""
    return draw(st.sampled_from(range(hi + 1)))


def expr_cases(max_args=3, max_dims=4):
    from hypothesis import strategies as st

    @st.composite
    def cases(draw):
        nargs = min(draw(st.sampled_from([1, 2, 2, 2, 3, 3])), max_args)
        d = [draw(st.sampled_from([1, 2, 2, 3])) for _ in range(NSYM)]
        args = []
        for _ in range(nargs):
            n = draw(st.integers(0, max_dims))
            ind = list(draw(st.permutations(range(NSYM)))[:n])
            nb = [d[s] if (d[s] == 1 or _uni(draw, st, 3) > 0) else 1 for s in ind]
            args.append([ind, nb])
        used = sorted({s for ind, _ in args for s in ind})
        # output: mostly the used symbols (some dropped = contraction), sometimes extra symbols (= new axes)
        out = [s for s in range(NSYM) if (s in used and _uni(draw, st, 4) > 0) or (s not in used and _uni(draw, st, 5) == 0)]
        out = list(draw(st.permutations(out)))
        pos = set(out)
        # contractions with > 1 block must be rejected; make the accepted kind frequent too
        if _uni(draw, st, 2) > 0:
            for ind, nb in args:
                for p, s in enumerate(ind):
                    if s not in pos:
                        nb[p] = 1
        new = {str(s): draw(st.sampled_from([1, 2, 3])) for s in out if s not in used}
        case = {"kind": "expr", "out": out, "args": args, "new": new, "symmap": draw(st.sampled_from(ALPHABETS))}
        if draw(st.booleans()):
            case["outstr"] = True
        if new and draw(st.booleans()):
            case["newtuple"] = True
        if nargs >= 2 and _uni(draw, st, 7) == 0:
            # the same array passed twice (same numblocks by definition)
            a, b = draw(st.permutations(range(nargs)))[:2]
            if len(args[a][0]) == len(args[b][0]):
                # keep per-symbol alignment: a symbol must not have two different > 1 counts
                cnt = {}
                for i, (ind, nb) in enumerate(args):
                    for s, v in zip(ind, args[a][1] if i == b else nb):
                        cnt.setdefault(s, set()).add(v)
                if all(len(v - {1}) <= 1 for v in cnt.values()):
                    args[b][1] = list(args[a][1])
                    names = [f"x{i}" for i in range(nargs)]
                    names[b] = names[a]
                    case["names"] = names
        return case

    return cases()


# =========================================================================== part 2: fusion trees
SHAPES = ("map", "list", "iter", "gen", "mixed", "mixlist", "alt", "stack", "cat")
STREAMY = ("list", "iter", "gen", "mixed", "mixlist", "cat")


def node_outputs(node):
    if node.get("nout", 1) == 1:
        return [f"array-{node['id']}"]
    return [f"array-{node['id']}_{k}" for k in range(node["nout"])]


def _ceil(a, b):
    return -(-a // b)


def tree_grids(tree):
    """-> {array name: blocks along axis 0}; validates the description."""
    g = {nm: int(n) for nm, n in tree["leaves"].items()}
    for node in tree["nodes"]:
        ins, shape = node["ins"], node["shape"]
        if not ins or any(i not in g for i in ins):
            raise HarnessError(f"node {node['id']}: unknown input")
        ns = [g[i] for i in ins]
        if shape == "map":
            n = max(ns)
            if any(x not in (n, 1) for x in ns):
                raise HarnessError("map: misaligned inputs")
        elif shape in ("list", "iter", "gen"):
            if len(set(ns)) != 1:
                raise HarnessError("list/iter: inputs differ")
            n = _ceil(ns[0], node["k"])
        elif shape == "mixed":
            if len(ins) != 2:
                raise HarnessError("mixed needs two inputs")
            n = _ceil(ns[1], node["k"])
            if ns[0] not in (n, 1):
                raise HarnessError("mixed: misaligned")
        elif shape == "mixlist":
            if len(ins) < 2 or len(set(ns)) != 1:
                raise HarnessError("mixlist: needs >= 2 inputs with equal block counts")
            n = ns[0]
        elif shape == "alt":
            if len(set(ns)) != 1:
                raise HarnessError("alt: inputs differ")
            n = ns[0]
        elif shape == "stack":
            if len(set(ns)) != 1:
                raise HarnessError("stack: inputs differ")
            n = ns[0] * len(ins)
        elif shape == "cat":
            n = sum(ns)
        else:
            raise HarnessError(f"unknown shape {shape}")
        for o in node_outputs(node):
            if o in g:
                raise HarnessError("duplicate array name")
            g[o] = n
    return g


def node_keys(node, g, coords):
    """Which blocks does output block `coords` of `node` read, in which structure (independent description)."""
    ins, shape = node["ins"], node["shape"]
    c, rest = coords[0], tuple(coords[1:])
    if shape == "map":
        return [("key", i, ((c if g[i] > 1 else 0),) + rest) for i in ins]
    if shape in ("list", "iter", "gen"):
        k = node["k"]
        return [(shape, [(i, (w,) + rest) for w in range(c * k, min((c + 1) * k, g[i]))]) for i in ins]
    if shape == "mixed":
        k = node["k"]
        a, b = ins
        return [("key", a, ((c if g[a] > 1 else 0),) + rest), ("list", [(b, (w,) + rest) for w in range(c * k, min((c + 1) * k, g[b]))])]
    if shape == "mixlist":
        # ONE list argument mixing blocks of several source arrays: [a_c, b_c, ...] (+ a_{c+1 mod n} when "wrap")
        seq = [(i, (c,) + rest) for i in ins]
        if node.get("wrap"):
            seq.append((ins[0], ((c + 1) % g[ins[0]],) + rest))
        return [("list", seq)]
    if shape == "alt":
        return [("key", ins[c % len(ins)], (c,) + rest)]
    if shape == "stack":
        return [("key", ins[c % len(ins)], (c // len(ins),) + rest)]
    if shape == "cat":
        seq = [(i, (b,) + rest) for i in ins for b in range(g[i])]
        return [("iter", seq[c : c + 2])]
    raise HarnessError(shape)


def node_num_input_blocks(node):
    shape, n = node["shape"], len(node["ins"])
    if shape in ("list", "iter", "gen"):
        return (node["k"],) * n
    if shape == "mixed":
        return (1, node["k"])
    if shape == "cat":
        return (2,) * n
    if shape == "mixlist" and node.get("wrap"):
        return (2,) + (1,) * (n - 1)
    return (1,) * n


class Term:
    """A symbolic block value.  Deliberately not a sequence so numpy wraps it as a 0-d object array."""

    __slots__ = ("t",)

    def __init__(self, t):
        self.t = t

    def __repr__(self):
        return f"Term{self.t!r}"


def _tag(x):
    """What a block function sees, as a term: lists and iterators become tagged tuples."""
    if isinstance(x, Term):
        return x.t
    if isinstance(x, list):
        return ("list",) + tuple(_tag(i) for i in x)
    if isinstance(x, Iterator):
        return ("iter",) + tuple(_tag(i) for i in x)
    if hasattr(x, "dtype") and getattr(x, "ndim", None) == 0 and x.dtype == object:
        return _tag(x.item())
    return ("?", type(x).__name__, repr(x)[:60])


def _mk_function(node):
    nid, nout = node["id"], node.get("nout", 1)
    if nout == 1:

        def f(*args):
            return Term(("f", nid) + tuple(_tag(a) for a in args))

        return f

    def gen(*args):
        t = ("f", nid) + tuple(_tag(a) for a in args)
        for k in range(nout):
            yield Term(("out", k, t))

    return gen


def _mk_key_function(node, g):
    c = _cb()
    ck, FA = c["B"].ChunkKey, c["B"].FunctionArgs

    def kf(out_key):
        args = []
        for a in node_keys(node, g, tuple(out_key.coords)):
            if a[0] == "key":
                args.append(ck(a[1], a[2]))
            elif a[0] == "list":
                args.append([ck(nm, co) for nm, co in a[1]])
            elif a[0] == "iter":
                args.append(iter([ck(nm, co) for nm, co in a[1]]))
            else:  # a real generator
                args.append((ck(nm, co) for nm, co in list(a[1])))
        return FA(*args, output_name=out_key.name)

    return kf


class _MissingBlock(Exception):
    pass


class _Env:
    """Symbolic storage shared by the stand-in arrays of one DAG execution."""

    def __init__(self, leaves):
        self.leaves = set(leaves)
        self.store = {}
        self.reads = Counter()


class _SymArr:
    def __init__(self, name, grid):
        import numpy as np

        self.name = name
        self.shape = tuple(grid)
        self.chunks = (1,) * len(grid)
        self.dtype = np.dtype("int8")
        self.env = None

    @staticmethod
    def _coords(sel):
        if not isinstance(sel, tuple):
            sel = (sel,)
        return tuple(int(s.start) for s in sel)

    def __getitem__(self, sel):
        co = self._coords(sel)
        env = self.env
        env.reads[self.name] += 1
        if self.name in env.leaves:
            return Term(("chunk", self.name, co))
        v = env.store.get((self.name, co))
        if v is None:
            raise _MissingBlock(f"block {co} of {self.name} was read but never written")
        return Term(v)

    def __setitem__(self, sel, value):
        co = self._coords(sel)
        if hasattr(value, "dtype") and getattr(value, "ndim", None) == 0:
            value = value.item()
        if (self.name, co) in self.env.store:
            raise _MissingBlock(f"block {co} of {self.name} written twice")
        self.env.store[(self.name, co)] = value.t if isinstance(value, Term) else ("?", repr(value)[:80])


def build_tree_dag(tree):
    """Real PrimitiveOperations (general_blockwise) over stand-in arrays, wired into a DAG shaped like Plan's."""
    import networkx as nx

    c = _cb()
    B = c["B"]
    g = tree_grids(tree)
    rest = (int(tree["m"]),) if tree.get("m") else ()
    arrays = {nm: _SymArr(nm, (n,) + rest) for nm, n in g.items()}
    dag = nx.MultiDiGraph()
    for nm in tree["leaves"]:
        op = "op-" + nm[len("array-"):]
        dag.add_node(op, name=op, op_name="input", type="op", hidden=False)
        dag.add_node(nm, name=nm, type="array", target=arrays[nm], hidden=False)
        dag.add_edge(op, nm)
    for node in tree["nodes"]:
        outs = node_outputs(node)
        grid = (g[outs[0]],) + rest
        po = B.general_blockwise(
            _mk_function(node),
            _mk_key_function(node, g),
            *[arrays[i] for i in node["ins"]],
            allowed_mem=10**9,
            reserved_mem=0,
            target_stores=[f"/nonexistent/c15/{o}" for o in outs],
            target_names=list(outs),
            shapes=[grid] * len(outs),
            dtypes=["int8"] * len(outs),
            chunkss=[(1,) * len(grid)] * len(outs),
            in_names=list(node["ins"]),
            num_input_blocks=node_num_input_blocks(node),
            fusable_with_predecessors=node.get("fwp", True),
            fusable_with_successors=node.get("fws", True),
        )
        # storage stand-in: the write side of the spec points at the symbolic arrays
        spec = po.pipeline.config
        for o in outs:
            spec.writes_map[o] = c["CubedArrayProxy"](arrays[o], (1,) * len(grid))
        op = "op-" + node["id"]
        dag.add_node(op, name=op, op_name="blockwise", type="op", hidden=False, primitive_op=po, pipeline=po.pipeline)
        for o in outs:
            dag.add_node(o, name=o, type="array", target=arrays[o], hidden=False)
            dag.add_edge(op, o)
        for i in node["ins"]:
            dag.add_edge(i, op)
    return dag, arrays, g, rest


def optimize_tree_dag(dag, tree):
    from cubed.core import optimization as O

    opt = tree.get("opt") or {"mode": "default"}
    mode = opt["mode"]
    want = tuple(tree["want"])
    if mode == "none":
        return dag
    if mode == "legacy":
        return O.simple_optimize_dag(dag, array_names=want)
    if mode == "fuse_all":
        return O.fuse_all_optimize_dag(dag, array_names=want)
    if mode == "only":
        return O.fuse_only_optimize_dag(dag, array_names=want, only_fuse=["op-" + i for i in opt.get("only", [])])
    kw = {}
    if "msa" in opt:
        kw["max_total_source_arrays"] = opt["msa"]
    if "mnib" in opt:
        kw["max_total_num_input_blocks"] = opt["mnib"]
    return O.multiple_inputs_optimize_dag(dag, array_names=want, **kw)


def run_dag(dag, arrays, tree, check_sources=True):
    """Execute every task of every blockwise op in topological order through the op's own stage function.
    -> (store, failures as (what, detail))."""
    import networkx as nx

    env = _Env(tree["leaves"])
    for a in arrays.values():
        a.env = env
    problems = []
    for name in nx.topological_sort(dag):
        d = dag.nodes[name]
        po = d.get("primitive_op")
        if po is None:
            continue
        pipe = po.pipeline
        spec = pipe.config
        srcs = list(po.source_array_names)
        nib = tuple(spec.num_input_blocks)
        preds = set(dag.predecessors(name))
        if check_sources and len(nib) != len(srcs):
            problems.append(("num_input_blocks-length", f"{name}: num_input_blocks {nib} vs source_array_names {srcs}"))
        bound = Counter()
        for s, n in zip(srcs, nib):
            bound[s] += n
        for coords in list(pipe.mappable):
            env.reads = Counter()
            try:
                pipe.function(coords, config=spec)
            except _MissingBlock as e:
                problems.append(("reads-unwritten-block", f"{name} task {coords}: {e}"))
                continue
            except Exception as e:  # noqa
                import traceback

                where = traceback.extract_tb(e.__traceback__)[-1]
                problems.append((f"task-exception:{type(e).__name__}", f"{name} task {coords}: {e!r} at {where.name}:{where.lineno}"[:400]))
                continue
            if check_sources:
                for nm, cnt in env.reads.items():
                    if nm not in preds or nm not in bound:
                        problems.append(("reads-undeclared-source", f"{name} task {coords} read {nm}; declared sources {srcs}, dag inputs {sorted(preds)}"))
                    elif cnt > bound[nm]:
                        problems.append(("num_input_blocks-exceeded", f"{name} task {coords} read {cnt} blocks of {nm}; num_input_blocks {nib} for {srcs}"))
    return env.store, problems


def ref_block(tree, g, producers, memo, name, coords):
    """Value of block `coords` of array `name` according to the unfused description (no cubed code involved)."""
    key = (name, coords)
    v = memo.get(key)
    if v is not None:
        return v
    if name in tree["leaves"]:
        v = ("chunk", name, coords)
    else:
        node, k = producers[name]
        parts = []
        for a in node_keys(node, g, coords):
            if a[0] == "key":
                parts.append(ref_block(tree, g, producers, memo, a[1], a[2]))
            else:
                tag = "list" if a[0] == "list" else "iter"
                parts.append((tag,) + tuple(ref_block(tree, g, producers, memo, nm, co) for nm, co in a[1]))
        t = ("f", node["id"]) + tuple(parts)
        v = ("out", k, t) if node.get("nout", 1) > 1 else t
    memo[key] = v
    return v


def term_diff(a, b):
    """Kind of the first difference between two terms (root-cause hint for the bucket)."""
    if a == b:
        return None
    if not (isinstance(a, tuple) and isinstance(b, tuple) and a and b):
        return "structure"
    if a[0] != b[0]:
        return "structure"
    if a[0] == "chunk":
        if a[1] != b[1]:
            return "array"
        return "coords"
    if a[0] == "f" and a[1] != b[1]:
        return "function"
    if a[0] == "out" and a[1] != b[1]:
        return "output-position"
    if len(a) != len(b):
        return "arity" if a[0] == "f" else "group-size"
    for x, y in zip(a[1:], b[1:]):
        if x != y:
            if isinstance(x, tuple) and isinstance(y, tuple):
                if a[0] == "f" and sorted(map(repr, a[2:])) == sorted(map(repr, b[2:])):
                    return "argument-order"
                return term_diff(x, y)
            return "structure"
    return "structure"


def _legacy_region(tree, g):
    """Defect 17 (C02): simple_optimize_dag fuses a single-input successor into its producer whenever the task counts
    are equal, also when the successor's first key argument is a list or iterator (fuse() then feeds that collection
    to the producer's key function).  The region: such a successor of a blockwise producer with equal task counts
    (the optimizer's further conditions - single consumer etc. - are not mirrored, so this over-approximates)."""
    prod = {}
    for node in tree["nodes"]:
        for o in node_outputs(node):
            prod[o] = node
    for node in tree["nodes"]:
        if node["shape"] in ("list", "iter", "gen", "cat") and len(node["ins"]) == 1 and node["ins"][0] in prod:
            if g[node["ins"][0]] == g[node_outputs(node)[0]]:
                return True
    return False


def tree_stats(tree, g, dag_opt):
    """Labels + non-triviality from which arrays the optimizer removed."""
    prod = {}
    for node in tree["nodes"]:
        for o in node_outputs(node):
            prod[o] = node
    removed = {o for o in prod if o not in dag_opt}
    labels = set()
    nt = False
    nfused = 0

    def chain(node):
        """(depth, has_stream, has_repeat, members) of the fused group rooted at node."""
        depth, stream, rep, members = 1, node["shape"] in STREAMY, False, 1
        fused_ins = [i for i in node["ins"] if i in removed]
        if len(fused_ins) != len(set(fused_ins)):
            rep = True
        for i in set(fused_ins):
            d2, s2, r2, m2 = chain(prod[i])
            depth = max(depth, 1 + d2)
            stream |= s2
            rep |= r2
            members += m2
        return depth, stream, rep, members

    for node in tree["nodes"]:
        outs = node_outputs(node)
        if outs[0] in removed:
            continue
        d, s, r, m = chain(node)
        if d >= 2:
            nfused += 1
            labels.add(f"p2:fused-depth={d}")
            fused_ins = [i for i in node["ins"] if i in removed]
            if any(i not in removed for i in node["ins"]):
                labels.add("p2:None-predecessor")
            if r:
                labels.add("p2:repeated-predecessor-fused")
            if s:
                labels.add("p2:stream-in-fused-group")
            if node.get("nout", 1) > 1:
                labels.add("p2:multi-output-root-fused")
            if s or r:
                nt = True
    for node in tree["nodes"]:
        for i in set(node["ins"]):
            if i in removed:
                labels.add(f"p2:fused-pred={prod[i]['shape']}")
                labels.add(f"p2:fused-succ={node['shape']}")
                if g[i] != g[node_outputs(node)[0]]:
                    labels.add("p2:unequal-task-counts-fused")
    labels.add(f"p2:fused-ops={min(nfused, 3)}")
    return labels, nt


def check_tree(case) -> Outcome:
    tree = case
    g = tree_grids(tree)
    opt = tree.get("opt") or {"mode": "default"}
    mode = opt["mode"]
    fam = "legacy" if mode == "legacy" else "multi"
    labels = {f"p2:opt={mode}", f"p2:nodes={len(tree['nodes'])}", "p2:grid-dims=" + ("2" if tree.get("m") else "1")}
    for node in tree["nodes"]:
        labels.add("p2:shape=" + node["shape"])
        if node.get("nout", 1) > 1:
            labels.add("p2:multi-output-node")
        if len(set(node["ins"])) < len(node["ins"]):
            labels.add("p2:repeated-input")
    if mode == "legacy" and _legacy_region(tree, g):
        # formerly excluded (defect 17, fixed in /repo: fuse() defers to fuse_multiple for list/stream successors)
        labels.add("p2:legacy-list-or-stream-successor")
    producers = {}
    for node in tree["nodes"]:
        for k, o in enumerate(node_outputs(node)):
            producers[o] = (node, k)
    fails = []

    def bad(family, what, detail):
        fails.append(Failure(f"tree:{family}:{what}", f"{detail}; tree={core.canon(tree)}"[:1500]))

    rest_ranges = [range(int(tree["m"]))] if tree.get("m") else []

    def compare(store, dag, family):
        memo = {}
        for arr in producers:
            if arr not in dag:
                continue
            for co in itertools.product(range(g[arr]), *rest_ranges):
                exp = ref_block(tree, g, producers, memo, arr, co)
                got = store.get((arr, co))
                if got is None:
                    bad(family, "block-not-written", f"{arr}{co} was not written")
                    return
                if got != exp:
                    bad(family, "term-mismatch:" + str(term_diff(got, exp)), f"{arr}{co}: got {got!r} expected {exp!r}")
                    return

    # unoptimized: every op through the real stage function
    try:
        dag, arrays, _, _ = build_tree_dag(tree)
    except Exception as e:  # noqa
        return Outcome(labels=tuple(sorted(labels)), failure=Failure(f"tree:build:{type(e).__name__}", f"{e!r}; tree={core.canon(tree)}"[:900]))
    store, problems = run_dag(dag, arrays, tree)
    for what, detail in problems[:3]:
        bad("unfused", what, detail)
    if not problems:
        compare(store, dag, "unfused")
    if mode == "none":
        return Outcome(labels=tuple(sorted(labels)), failures=tuple(fails))
    # optimized
    try:
        dag2, arrays2, _, _ = build_tree_dag(tree)
        dag_opt = optimize_tree_dag(dag2, tree)
    except Exception as e:  # noqa
        bad(fam, f"optimizer-exception:{type(e).__name__}", repr(e)[:300])
        return Outcome(labels=tuple(sorted(labels)), failures=tuple(fails))
    for w in tree["want"]:
        if w not in dag_opt:
            bad(fam, "requested-array-removed", f"{w} not in the optimized dag")
    st_labels, nt = tree_stats(tree, g, dag_opt)
    labels |= st_labels
    store2, problems2 = run_dag(dag_opt, arrays2, tree)
    for what, detail in problems2[:3]:
        bad(fam, what, detail)
    if not problems2:
        compare(store2, dag_opt, fam)
    return Outcome(nontrivial=nt and not fails, labels=tuple(sorted(labels)), failures=tuple(fails))


# ------------------------------------------------------------------ part 2 generator
SHAPE_POOL = ["map"] * 4 + ["list"] * 2 + ["iter"] * 2 + ["mixlist"] * 3 + ["gen", "mixed", "alt", "stack", "cat", "cat"]
OPT_POOL = (
    [{"mode": "default"}] * 5
    + [{"mode": "fuse_all"}] * 3
    + [{"mode": "custom", "mnib": None}] * 2
    + [{"mode": "custom", "mnib": 1}, {"mode": "custom", "mnib": 4}, {"mode": "custom", "mnib": 100, "msa": 10}, {"mode": "custom", "msa": 2}]
    + [{"mode": "only"}] * 2
    + [{"mode": "legacy"}] * 3
)


def tree_cases(max_nodes=6):
    from hypothesis import strategies as st

    @st.composite
    def cases(draw):
        m = draw(st.sampled_from([0, 0, 0, 0, 2, 3]))
        g, depth, order, uses = {}, {}, [], Counter()
        leaves = {}
        for i in range(draw(st.integers(1, 3))):
            nm = f"array-L{i}"
            leaves[nm] = g[nm] = draw(st.sampled_from([1, 2, 2, 3, 3, 4, 6]))
            depth[nm] = 0
            order.append(nm)
        nodes = []

        def pick(cands):
            cands = sorted(cands, key=lambda a: (uses[a] > 0, -order.index(a)))
            # strong preference for the most recent unused array: that is what makes chains deep
            if _uni(draw, st, 3) > 0:
                return cands[0]
            return draw(st.sampled_from(cands))

        def more(a0, n_extra, same):
            ins = [a0]
            for _ in range(n_extra):
                r = _uni(draw, st, 5)
                if r == 0:
                    ins.append(draw(st.sampled_from(ins)))  # repeated predecessor
                else:
                    cands = [a for a in order if depth[a] <= 2 and same(a) and a not in ins]
                    if cands:
                        ins.append(pick(cands))
            return ins

        nn = draw(st.sampled_from([1, 2, 2, 3, 3, 3, 4, 4, 5, 6][: 4 + max_nodes]))
        for j in range(nn):
            avail = [a for a in order if depth[a] <= 2]
            shape = draw(st.sampled_from(SHAPE_POOL))
            node = {"id": f"n{j}", "shape": shape}
            a0 = pick(avail)
            if shape == "map":
                n0 = g[a0]
                ins = more(a0, draw(st.sampled_from([0, 0, 1, 1, 2])), lambda a: g[a] in (n0, 1) or n0 == 1)
                n = max(g[a] for a in ins)
                if any(g[a] not in (n, 1) for a in ins):
                    ins = [a for a in ins if g[a] in (n, 1)]
            elif shape in ("list", "iter", "gen"):
                node["k"] = draw(st.sampled_from([1, 2, 2, 3]))
                ins = more(a0, draw(st.sampled_from([0, 0, 0, 1])), lambda a: g[a] == g[a0])
                n = _ceil(g[a0], node["k"])
            elif shape == "mixed":
                node["k"] = draw(st.sampled_from([1, 2, 2, 3]))
                n = _ceil(g[a0], node["k"])
                c0 = [a for a in avail if g[a] in (n, 1)]
                if not c0:
                    node["shape"] = "list"
                    ins = [a0]
                else:
                    ins = [pick(c0), a0]
            elif shape == "mixlist":
                others = [a for a in avail if a != a0 and g[a] == g[a0]]
                ins = [a0, pick(others) if others else a0]
                if len(others) > 1 and _uni(draw, st, 3) == 0:
                    third = pick([a for a in others if a != ins[1]])
                    ins.append(third)
                if draw(st.booleans()):
                    ins.reverse()
                if draw(st.booleans()):
                    node["wrap"] = True
                n = g[a0]
            elif shape in ("alt", "stack"):
                ins = more(a0, draw(st.sampled_from([0, 1, 1, 2])), lambda a: g[a] == g[a0])
                n = g[a0] * (len(ins) if shape == "stack" else 1)
            else:  # cat
                ins = more(a0, draw(st.sampled_from([0, 1, 1, 2])), lambda a: True)
                while len(ins) > 1 and sum(g[a] for a in ins) > 12:
                    ins.pop()
                n = sum(g[a] for a in ins)
            node["ins"] = ins
            if _uni(draw, st, 7 if j == nn - 1 else 23) == 0:
                node["nout"] = 2
            if _uni(draw, st, 11) == 0:
                node["fws"] = False
            if _uni(draw, st, 14) == 0:
                node["fwp"] = False
            nodes.append(node)
            for a in ins:
                uses[a] += 1
            for o in node_outputs(node):
                g[o] = n
                depth[o] = 1 + max(depth[a] for a in ins)
                order.append(o)
        want = [node_outputs(nodes[-1])[0]]
        if _uni(draw, st, 4) == 0:
            extra = draw(st.sampled_from([o for nd in nodes for o in node_outputs(nd)]))
            if extra not in want:
                want.append(extra)
        opt = dict(draw(st.sampled_from(OPT_POOL)))
        if opt["mode"] == "only":
            opt["only"] = [nd["id"] for nd in nodes if draw(st.booleans())]
        return {"kind": "tree", "m": m, "leaves": leaves, "nodes": nodes, "want": want, "opt": opt}

    return cases()


# =========================================================================== real plans
def _plan_spec():
    import cubed
    from zarr.storage import MemoryStore

    return cubed.Spec(intermediate_store=MemoryStore(), allowed_mem=10**9, reserved_mem=0)


def _named_programs():
    """name -> builder(xp, spec) -> list of arrays to compute"""
    import numpy as np

    def arr(xp, spec, shape, chunks, k=0):
        n = int(np.prod(shape)) if shape else 1
        return xp.asarray((np.arange(n, dtype="float64") + k).reshape(shape), chunks=chunks, spec=spec)

    def chain(xp, s):
        a = arr(xp, s, (6, 4), (2, 2))
        return [xp.negative(xp.abs(xp.add(a, 1.0)))]

    def diamond(xp, s):
        a = arr(xp, s, (6,), (2,))
        b = xp.negative(a)
        return [xp.add(b, b)]

    def diamond2(xp, s):
        a = arr(xp, s, (6,), (2,))
        b = xp.negative(a)
        return [xp.add(xp.abs(b), xp.sqrt(xp.abs(b)))]

    def binary(xp, s):
        a, b = arr(xp, s, (4, 6), (2, 3)), arr(xp, s, (4, 6), (2, 3), 5)
        return [xp.multiply(xp.negative(a), xp.abs(b))]

    def bcast(xp, s):
        a, b = arr(xp, s, (4, 6), (2, 3)), arr(xp, s, (6,), (3,), 5)
        c = arr(xp, s, (4, 1), (2, 1), 9)
        return [xp.add(xp.add(a, xp.negative(b)), c)]

    def ssum(xp, s):
        a = arr(xp, s, (12, 4), (2, 2))
        return [xp.sum(xp.negative(a), axis=0)]

    def ssum_split(xp, s):
        a = arr(xp, s, (16,), (1,))
        return [xp.sum(xp.abs(a), split_every=2)]

    def mean(xp, s):
        a = arr(xp, s, (9, 4), (2, 2))
        return [xp.mean(xp.add(a, 1.0), axis=1)]

    def concat(xp, s):
        a, b = arr(xp, s, (5,), (2,)), arr(xp, s, (4,), (2,), 7)
        return [xp.negative(xp.concat([xp.abs(a), xp.negative(b)]))]

    def stack(xp, s):
        a, b = arr(xp, s, (4, 3), (2, 3)), arr(xp, s, (4, 3), (2, 3), 7)
        return [xp.abs(xp.stack([xp.negative(a), xp.abs(b)], axis=1))]

    def transpose(xp, s):
        a = arr(xp, s, (4, 6), (2, 2))
        return [xp.add(xp.permute_dims(xp.negative(a), (1, 0)), arr(xp, s, (6, 4), (2, 2), 3))]

    def matmul(xp, s):
        a, b = arr(xp, s, (4, 6), (2, 3)), arr(xp, s, (6, 4), (3, 2), 2)
        return [xp.matmul(xp.negative(a), xp.abs(b))]

    def outer_new_axis(xp, s):
        a = arr(xp, s, (6,), (2,))
        return [xp.add(xp.expand_dims(xp.negative(a), axis=0), arr(xp, s, (3, 6), (1, 2), 1))]

    def index(xp, s):
        a = arr(xp, s, (8, 6), (2, 3))
        return [xp.negative(xp.abs(a)[1:7, :])]

    def argmax(xp, s):
        a = arr(xp, s, (9, 4), (2, 2))
        return [xp.argmax(xp.negative(a), axis=0)]

    def two_outputs(xp, s):
        a = arr(xp, s, (6,), (2,))
        b = xp.negative(a)
        return [xp.abs(b), xp.sum(b)]

    return {
        "chain": chain, "diamond": diamond, "diamond2": diamond2, "binary": binary, "bcast": bcast, "sum": ssum,
        "sum-split": ssum_split, "mean": mean, "concat": concat, "stack": stack, "transpose": transpose, "matmul": matmul,
        "expand_dims": outer_new_axis, "index": index, "argmax": argmax, "two-outputs": two_outputs,
    }


PLAN_OPTS = ["default", "fuse_all", "num_tasks", "mnib1", "msa2", "legacy"]


def _plan_optimizer(opt):
    from functools import partial

    from cubed.core import optimization as O

    return {
        "default": O.multiple_inputs_optimize_dag,
        "fuse_all": O.fuse_all_optimize_dag,
        "num_tasks": partial(O.multiple_inputs_optimize_dag, max_total_num_input_blocks=None),
        "mnib1": partial(O.multiple_inputs_optimize_dag, max_total_num_input_blocks=1),
        "msa2": partial(O.multiple_inputs_optimize_dag, max_total_source_arrays=2),
        "legacy": O.simple_optimize_dag,
    }[opt]


class _KeyExpander:
    """Expands key functions of a plan's DAG down to arrays that no blockwise operation produces."""

    def __init__(self, dag):
        self.dag = dag
        self.B = _cb()["B"]
        self.memo = {}
        self.spec_cache = {}

    def spec_of(self, arr):
        if arr in self.spec_cache:
            return self.spec_cache[arr]
        spec = None
        if arr in self.dag:
            preds = list(self.dag.predecessors(arr))
            if len(preds) == 1:
                po = self.dag.nodes[preds[0]].get("primitive_op")
                if po is not None and isinstance(po.pipeline.config, self.B.BlockwiseSpec) and self.one_task_per_block(arr, po):
                    spec = (preds[0], po)
        self.spec_cache[arr] = spec
        return spec

    def one_task_per_block(self, arr, po):
        """Tasks of the producing op correspond one-to-one to blocks of the array (not so for rechunk-like ops that write
        several storage chunks per task: their outputs are treated as plan inputs)."""
        t = self.dag.nodes[arr].get("target")
        try:
            shape, chunks = tuple(t.shape), tuple(t.chunks)
            if len(chunks) != len(shape) or any(isinstance(c, (tuple, list)) for c in chunks):
                return False
            grid = [(max(1, -(-s // c)) if c else 1) for s, c in zip(shape, chunks)]  # a size-0 axis has one (empty) block
            return [tuple(m) for m in po.pipeline.mappable] == list(itertools.product(*[range(n) for n in grid]))
        except Exception:
            return False

    def block(self, arr, coords):
        key = (arr, coords)
        if key in self.memo:
            return self.memo[key]
        sp = self.spec_of(arr)
        if sp is None:
            v = ("chunk", arr, coords)
        else:
            fa = sp[1].pipeline.config.back_key_function(self.B.ChunkKey(arr, coords))
            v = ("op", arr) + tuple(self.norm(a) for a in fa.args)
        self.memo[key] = v
        return v

    def norm(self, x):
        B = self.B
        if isinstance(x, B.ChunkKey):
            return self.block(x.name, tuple(x.coords))
        if isinstance(x, list):
            return ("list",) + tuple(self.norm(i) for i in x)
        if isinstance(x, Iterator):
            return ("iter",) + tuple(self.norm(i) for i in x)
        if isinstance(x, B.FunctionArgs):
            if len(x.args) == 1 and isinstance(x.args[0], B.ChunkKey) and x.args[0].name == x.output_name:
                return self.norm(x.args[0])  # the wrapper put around a block that is read, not computed
            return ("op", x.output_name) + tuple(self.norm(a) for a in x.args)
        return ("?", type(x).__name__)


def _leaves(t, out):
    if isinstance(t, tuple) and t:
        if t[0] == "chunk":
            out.append(t)
        else:
            for x in t[1:]:
                _leaves(x, out)
    return out


def check_plan(case) -> Outcome:
    import warnings

    import cubed.array_api as xp
    from cubed.core.plan import arrays_to_plan

    opt = case.get("opt", "default")
    labels = {f"p3:opt={opt}"}
    spec = _plan_spec()
    with warnings.catch_warnings():
        warnings.simplefilter("ignore")
        if "name" in case:
            labels.add("p3:named=" + case["name"])
            outs = _named_programs()[case["name"]](xp, spec)
        else:
            from vp import prog as P

            try:
                arrs = P.build_cubed(case["prog"], spec)
            except Exception as e:  # building is C17's business
                labels.add(f"p3:declined-at-build:{type(e).__name__}")
                return Outcome(labels=tuple(sorted(labels)))
            outs = [arrs[i] for i in case["prog"]["outputs"]]
            from vp.ir import OPS

            for n in case["prog"]["nodes"]:
                for t in getattr(OPS.get(n["op"]), "tags", ()) or ():
                    labels.add("p3:tag=" + str(t))
        try:
            plan = arrays_to_plan(*outs)
            dag0 = plan.dag
        except Exception as e:  # noqa
            labels.add(f"p3:declined-at-plan:{type(e).__name__}")
            return Outcome(labels=tuple(sorted(labels)))
        fam = "legacy" if opt == "legacy" else "multi"
        try:
            dag1 = plan.optimize(_plan_optimizer(opt)).dag
        except Exception as e:  # noqa
            return Outcome(labels=tuple(sorted(labels)), failure=Failure(f"plan:{fam}:optimizer-exception:{type(e).__name__}", f"{e!r}; case={core.canon(case)}"[:900]))
    fails = []

    def bad(what, detail):
        fails.append(Failure(f"plan:{fam}:{what}", f"{detail}; case={core.canon(case)}"[:1500]))

    e0, e1 = _KeyExpander(dag0), _KeyExpander(dag1)
    nfused = 0
    multi_block = False
    nblocks = 0
    for arr, d in dag1.nodes(data=True):
        if d.get("type") != "array":
            continue
        sp1, sp0 = e1.spec_of(arr), e0.spec_of(arr)
        if sp1 is None:
            continue
        if sp0 is None:
            bad("producer-kind", f"{arr} is blockwise-produced only in the optimized plan")
            continue
        if sp1[1] is not sp0[1]:
            nfused += 1
        try:
            blocks1 = [tuple(c) for c in sp1[1].pipeline.mappable]
            blocks0 = [tuple(c) for c in sp0[1].pipeline.mappable]
        except Exception:
            continue
        if blocks1 != blocks0:
            bad("task-list", f"{arr}: optimized op runs blocks {blocks1[:5]}.. unoptimized {blocks0[:5]}..")
            continue
        if len(blocks1) > 1:
            multi_block = True
        if len(blocks1) > 400:
            blocks1 = blocks1[:200] + blocks1[-200:]
        for co in blocks1:
            nblocks += 1
            try:
                t1 = e1.block(arr, co)
            except Exception as e:  # noqa
                bad(f"key-function-exception:{type(e).__name__}", f"{arr}{co}: {e!r}")
                break
            try:
                t0 = e0.block(arr, co)
            except Exception as e:  # noqa  (unoptimized key function fails on its own task list: not a fusion matter)
                labels.add(f"p3:unoptimized-key-function-raises:{type(e).__name__}")
                break
            if fam == "legacy":
                # fuse() composes key functions without keeping the successor's level: compare the blocks read, in order
                if _leaves(t1, []) != _leaves(t0, []):
                    bad("blocks-read-differ", f"{arr}{co}: optimized {t1!r} unoptimized {t0!r}")
                    break
            elif t1 != t0:
                bad("key-structure-mismatch:" + str(term_diff_keys(t1, t0)), f"{arr}{co}: optimized {t1!r} unoptimized {t0!r}")
                break
    labels.add(f"p3:fused-ops={min(nfused, 4)}")
    return Outcome(nontrivial=nfused > 0 and multi_block and not fails, labels=tuple(sorted(labels)), failures=tuple(fails))


def term_diff_keys(a, b):
    if not (isinstance(a, tuple) and isinstance(b, tuple) and a and b) or a[0] != b[0]:
        return "structure"
    if a[0] == "chunk":
        return "array" if a[1] != b[1] else "coords"
    if a[0] == "op" and a[1] != b[1]:
        return "operation"
    if len(a) != len(b):
        return "arity"
    for x, y in zip(a[1:], b[1:]):
        if x != y:
            if isinstance(x, tuple) and isinstance(y, tuple):
                return term_diff_keys(x, y)
            return "structure"
    return "structure"


def plan_cases(profile="fusion-rich", rotate=0):
    from hypothesis import strategies as st

    from vp import prog as P

    opts = {
        "rotate": rotate,
        "allow_zero": False,
        "dtypes": ["float64", "float64", "int64", "float32", "bool"],
        "input_kinds": ["asarray"] * 4 + ["ones", "full"],
        "max_dims": 3,
        "many_chunks": bool(rotate % 2),
    }

    @st.composite
    def cases(draw):
        prog = draw(P.programs(profile, max_ops=6, min_ops=2, opts=opts))
        return {"kind": "plan", "prog": prog, "opt": draw(st.sampled_from(PLAN_OPTS[:5] * 2 + ["legacy"]))}

    return cases()


# =========================================================================== dispatch, shards
def check_case(case) -> Outcome:
    k = case.get("kind")
    if k == "expr":
        return check_expr(case)
    if k == "tree":
        return check_tree(case)
    if k == "plan":
        return check_plan(case)
    raise HarnessError(f"unknown kind {k}")


EXHAUSTIVE = {
    # name: (nargs, argmax, outmax, number of parts)
    "thorough": [(1, 4, 4, 1), (2, 4, 4, 9), (3, 2, 4, 5)],
    "quick": [(1, 4, 4, 1), (2, 2, 2, 1)],
}


def shards(tier):
    out = []
    if tier == "quick":
        out += [{"kind": "expr", "name": f"expr{i}", "n": 3500} for i in range(2)]
        out += [{"kind": "enum", "name": "enum-small", "slices": [[1, 4, 4, 0, 1], [2, 2, 2, 0, 1]]}]
        out += [{"kind": "tree", "name": f"tree{i}", "n": 1500} for i in range(3)]
        out += [{"kind": "plan", "name": "plan0", "n": 200, "named": True, "rotate": 0}]
        out += [{"kind": "plan", "name": "plan1", "n": 450, "rotate": 31}]
        return out
    # long Hypothesis shards first, then the enumeration slices (roughly equal CPU each)
    out += [{"kind": "expr", "name": f"expr{i}", "n": 60000} for i in range(2)]
    out += [{"kind": "tree", "name": f"tree{i}", "n": 35000} for i in range(6)]
    for nargs, amax, omax, parts in EXHAUSTIVE["thorough"]:
        for p in range(parts):
            out.append({"kind": "enum", "name": f"enum-{nargs}args-{p}of{parts}", "slices": [[nargs, amax, omax, p, parts]]})
    out += [{"kind": "plan", "name": "plan0", "n": 4000, "named": True, "rotate": 0}]
    out += [{"kind": "plan", "name": f"plan{i}", "n": 4000, "rotate": 17 * i} for i in (1, 2)]
    return out


def _observe_plain(acc, case, out, nt_cap):
    """Acc.observe without hashing millions of enumerated cases."""
    acc.evaluations += 1
    if out.nontrivial:
        acc.bump("enumerated_nontrivial")
        if len(acc.nt) < nt_cap:
            acc.nt.add(core.case_hash(case))
        if len(acc.samples) < 2:
            acc.samples.append(case)
    for lab in out.labels:
        acc.labels[lab] += 1
    acc.excluded += out.excluded
    for f in out.all_failures():
        acc.add_failure(case, f)


def run_shard(spec, seed, tier) -> Acc:
    import time

    t0 = time.process_time()
    acc = _run_shard(spec, seed, tier)
    acc.extra.setdefault("shard_cpu_s", {})[spec.get("name", spec.get("kind", "?"))] = round(time.process_time() - t0, 1)
    return acc


def _run_shard(spec, seed, tier) -> Acc:
    acc = Acc()
    is_known, _ = core.known_matcher(ID)
    kind = spec["kind"]
    if kind == "__corpus__":
        return core.corpus_shard(sys.modules[__name__], acc)
    if kind == "enum":
        n = 0
        for nargs, amax, omax, part, parts in spec["slices"]:
            for case in enum_exprs(nargs, amax, omax, part, parts):
                try:
                    out = check_expr(case)
                except Exception as e:  # noqa
                    import traceback

                    if len(acc.errors) < 3:
                        acc.errors.append("harness exception: " + "".join(traceback.format_exception(e))[-1500:])
                    out = Outcome()
                _observe_plain(acc, case, out, 40000)
                n += 1
        acc.bump("expressions_enumerated", n)
        acc.extra["enumeration_complete"] = "yes (every shard enumerates its slice of the stated domain to the end; no sampling, no time budget)"
        acc.extra["enumerated_domain"] = (
            "index expressions over 4 symbols named by first appearance: "
            + ("1 arg <= 4 dims, 2 args <= 4 dims, 3 args <= 2 dims" if tier == "thorough" else "1 arg <= 4 dims, 2 args <= 2 dims (out <= 2 dims)")
            + "; out index <= 4 dims; blocks {1,2,3} per symbol, every broadcast subset, new axes {1,2,3}; all output blocks"
        )
        return acc
    budget = 420 if tier == "quick" else 3000
    if kind == "expr":
        strat = expr_cases()
    elif kind == "tree":
        strat = tree_cases()
    elif kind == "plan":
        if spec.get("named"):
            for nm in _named_programs():
                for o in PLAN_OPTS:
                    case = {"kind": "plan", "name": nm, "opt": o}
                    try:
                        out = check_plan(case)
                    except Exception as e:  # noqa
                        import traceback

                        acc.errors.append("harness exception: " + "".join(traceback.format_exception(e))[-1500:])
                        out = Outcome()
                    acc.observe(case, out)
        strat = plan_cases(rotate=spec.get("rotate", 0))
    else:
        raise HarnessError(kind)
    core.hyp_run(strat, check_case, seed=seed, max_examples=spec["n"], acc=acc, budget_s=budget, shrink=(tier == "thorough"), is_known=is_known)
    return acc


def replay(case):
    return check_case(case).all_failures()
