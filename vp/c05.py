"""C05 — every stored chunk has exactly one writer task, written whole; outputs covered."""
from __future__ import annotations

import itertools
import json
import sys
import warnings

import numpy as np

import vp  # noqa
from vp import core, prog as P, sinks as S
from vp.core import Acc, Failure, Outcome

ID = "C05"
LEVEL = "exploration"
RULE = (
    "Programs from the shared generator with the storage-rich profile (rechunks weighted up; allowed_mem drawn from 2 GB down to "
    "1 kB so that the rechunk planner produces 1-4 stages with regular and rectilinear intermediate grids), optionally followed "
    "by store/to_zarr sinks (fresh paths, groups, existing arrays with equal chunking, aligned regions, sharded targets). Executed "
    "by the schedule-owning sequential executor (task id carried in a ContextVar) over a tracing zarr store. Oracle per array "
    "produced by the computation, from the trace and the chunk grid read back from the stored zarr.json: (a) every storage key of "
    "the grid (of the region for region stores) received a set; (b) each key is set exactly once, by one task; (c) the writing "
    "task issued no get of that key before its set (whole-chunk write, no read-modify-write); (d) no set outside the grid. "
    "Non-trivial = some produced array has >= 2 storage chunks written by an operation with >= 2 tasks; distinct = canonical JSON."
)
ASSUMPTIONS = [
    "cubed sets zarr's write_empty_chunks=True, so an absent key means 'not written'; metadata keys are outside the property",
    "concurrency consequences follow from the single-writer invariant; writers are not raced against each other here",
]

MEMS = [2_000_000_000, 2_000_000_000, 200_000, 40_000, 10_000, 4_000, 2_000, 1_000]


def case_strategy(opts=None, max_ops=5, with_sinks=True, classes=("fresh", "group", "existing-same", "region-aligned", "sharded")):
    from hypothesis import strategies as st

    @st.composite
    def cases(draw):
        profile = draw(st.sampled_from(["storage-rich", "storage-rich", "dag"]))
        prog = draw(P.programs(profile, max_ops=max_ops, opts=opts))
        case = {
            "kind": "program",
            "prog": prog,
            "allowed_mem": draw(st.sampled_from(MEMS)),
            "optimize": draw(st.booleans()),
            "perm_seed": draw(st.integers(0, 10**6)),
            "sinks": draw(S.sinks_strategy(prog, classes=classes)) if with_sinks and (draw(st.booleans()) or "existing-diff" in classes) else [],
        }
        return case

    return cases()


def grid_from_meta(meta):
    """-> (shape, per-axis boundaries) from a zarr v3 array metadata document, independent of cubed."""
    from vp.grid import axis_boundaries

    shape = tuple(meta["shape"])
    cg = meta["chunk_grid"]
    cfg = cg.get("configuration", {})
    if cg["name"] == "regular":
        cs = cfg["chunk_shape"]
        return shape, [axis_boundaries(n, c) for n, c in zip(shape, cs)]
    # rectilinear: per-axis list of sizes (possibly run-length encoded [[size, count], ...])
    specs = cfg.get("chunk_shapes") or cfg.get("chunk_shape")
    bounds = []
    for n, sp in zip(shape, specs):
        if isinstance(sp, int):
            bounds.append(axis_boundaries(n, sp))
            continue
        sizes = []
        for e in sp:
            if isinstance(e, (list, tuple)):
                sizes += [int(e[0])] * int(e[1])
            else:
                sizes.append(int(e))
        bounds.append(axis_boundaries(n, sizes))
    return shape, bounds


def expected_keys(path, shape, bounds, region=None):
    nbs = [len(b) - 1 for b in bounds]
    if len(shape) == 0:
        return {f"{path}/c" if path else "c"}
    ranges = []
    for ax, b in enumerate(bounds):
        idx = list(range(len(b) - 1))
        if region is not None:
            lo, hi = region[ax]
            idx = [i for i in idx if b[i] < hi and b[i + 1] > lo]
        ranges.append(idx)
    pre = f"{path}/c/" if path else "c/"
    return {pre + "/".join(map(str, c)) for c in itertools.product(*ranges)}


def analyse_trace(state, inner_dict, region_of=None, only_paths=None, never_written_ok=None):
    """Single-writer analysis. Returns (failures, stats)."""
    from vp.harness import split_key

    fails = []
    sets = {}
    first_get = {}
    for (seq, op, key, task, info, _t) in state.log:
        path, what = split_key(key)
        if what in ("meta", "other"):
            continue
        if op == "set":
            sets.setdefault(key, []).append((seq, task))
        elif op == "get" and info:  # a hit: the chunk existed and was read
            first_get.setdefault((key, task), seq)
    arrays = {}
    for k, v in inner_dict.items():
        if k.endswith("zarr.json"):
            try:
                m = json.loads(v.to_bytes())
            except Exception:
                continue
            if m.get("node_type") == "array":
                arrays[k[: -len("/zarr.json")] if "/" in k else ""] = m
    written_paths = {split_key(k)[0] for k in sets}
    stats = {"arrays": 0, "keys": 0, "multi_chunk_arrays": 0}
    # an array that exists in the store after the computation but received no chunk write at all (a target that no task wrote)
    for path, m in sorted(arrays.items()):
        if path in written_paths or (only_paths is not None and path not in only_paths) or (never_written_ok is not None and path in never_written_ok):
            continue
        shape, bounds = grid_from_meta(m)
        if 0 in shape:
            continue
        fails.append(("uncovered", path, f"array of shape {tuple(shape)} exists in the store but no task wrote any of its chunks"))
    for path in sorted(written_paths):
        if only_paths is not None and path not in only_paths:
            continue
        m = arrays.get(path)
        if m is None:
            fails.append(("set-without-array", path, f"chunk keys written under {path!r} but no array metadata there"))
            continue
        shape, bounds = grid_from_meta(m)
        sharded = any(c.get("name") == "sharding_indexed" for c in m.get("codecs", []))
        region = region_of.get(path) if region_of else None
        exp = expected_keys(path, shape, bounds, region)
        got = {k for k in sets if split_key(k)[0] == path}
        stats["arrays"] += 1
        stats["keys"] += len(exp)
        if len(exp) >= 2:
            stats["multi_chunk_arrays"] += 1
        if 0 in shape:
            continue
        missing = exp - got
        extra = got - (expected_keys(path, shape, bounds, None) if region is not None else exp)
        outside_region = (got - exp) - extra
        if missing:
            fails.append(("uncovered", path, f"{len(missing)} of {len(exp)} storage keys never written, e.g. {sorted(missing)[:3]}"))
        if extra:
            fails.append(("outside-grid", path, f"keys written outside the chunk grid: {sorted(extra)[:3]}"))
        if outside_region:
            fails.append(("outside-region", path, f"keys written outside the requested region: {sorted(outside_region)[:3]}"))
        for k in sorted(got):
            ws = sets[k]
            tasks = {t for _, t in ws}
            if len(tasks) > 1:
                fails.append(("multi-writer", path, f"{k} written by {len(tasks)} tasks: {sorted(map(str, tasks))[:3]}"))
                break
            if len(ws) > 1:
                fails.append(("rewritten", path, f"{k} set {len(ws)} times by task {ws[0][1]}"))
                break
        for k in sorted(got) if not sharded else ():
            # (sharded targets: zarr's sharding codec reads an edge shard before rewriting it even when the write covers
            #  the whole valid region; that is the store's business, the single-writer clauses above still apply)
            for (seq, task) in sets[k]:
                g = first_get.get((k, task))
                if g is not None and g < seq:
                    fails.append(("read-modify-write", path, f"task {task} read {k} before writing it (partial-chunk write)"))
                    break
            else:
                continue
            break
    return fails, stats


def run(case, executor_factory=None):
    """Build and execute the case on a TraceStore. -> dict(outcome fields)."""
    import cubed
    from zarr.storage import MemoryStore

    from vp import harness as H

    prog = case["prog"]
    ts = H.TraceStore(MemoryStore())
    spec = cubed.Spec(intermediate_store=ts, allowed_mem=case.get("allowed_mem", 2_000_000_000), reserved_mem=0)
    ex = H.ScheduleExecutor(H.Schedule(perm_seed=case.get("perm_seed")))
    out = {"ts": ts, "ex": ex, "phase": None}
    with warnings.catch_warnings():
        warnings.simplefilter("ignore")
        try:
            arrs = P.build_cubed(prog, spec)
            sink_ctx = S.SinkCtx(trace_state=ts.state)
            lazy = S.build_sinks(case.get("sinks") or [], arrs, sink_ctx, spec)
        except Exception as e:
            out.update(phase="build", exc=e)
            return out
        outs = [arrs[i] for i in prog["outputs"]] + list(lazy)
        out["arrs"], out["sink_ctx"] = arrs, sink_ctx
        try:
            fp = cubed.plan(*outs, optimize_graph=case.get("optimize", True))
            out["plan"] = fp
            fp.validate()
        except Exception as e:
            out.update(phase="plan", exc=e)
            return out
        ts.state.clear()
        try:
            res = cubed.compute(*outs, executor=ex, optimize_graph=case.get("optimize", True), _return_in_memory_array=False)
        except Exception as e:
            out.update(phase="execute", exc=e)
            return out
    return out


def check_rechunk(case) -> Outcome:
    """Tight-budget rechunk geometries (generator shared with C14) executed on a trace store."""
    import cubed
    import cubed.array_api as xp
    from zarr.storage import MemoryStore

    from vp import c14
    from vp import harness as H
    from vp.grid import prod

    labels = {"rechunk-case", "irregular-allowed" if case["allow_irregular"] else "regular-only"}
    spec0, budget = c14._mk_spec(case)
    ts = H.TraceStore(MemoryStore())
    kw = dict(intermediate_store=ts, allowed_mem=spec0.allowed_mem, reserved_mem=spec0.reserved_mem)
    if case["compressor"] == "none":
        kw["zarr_compressor"] = None
    spec = cubed.Spec(**kw)
    shape = tuple(case["shape"])
    dtype = c14.DTYPES_BY_ITEMSIZE[case["itemsize"]]
    data = ((np.arange(prod(shape)) * 7 + 3) % 251).reshape(shape).astype(dtype)
    with warnings.catch_warnings():
        warnings.simplefilter("ignore")
        try:
            x = xp.asarray(data, chunks=tuple(case["src"]), spec=spec)
            k2 = {} if case["min_mem"] is None else {"min_mem": case["min_mem"]}
            y = x.rechunk(tuple(case["tgt"]), allow_irregular=case["allow_irregular"], **k2)
            fp = y.plan()
            fp.validate()
        except Exception as e:
            labels.add(f"declined:{type(e).__name__}")
            return Outcome(labels=tuple(labels))
        ex = H.ScheduleExecutor(H.Schedule(perm_seed=case.get("perm_seed", 0)))
        try:
            y.compute(executor=ex, _return_in_memory_array=False)
        except Exception as e:
            labels.add(f"failed:{type(e).__name__}")
            return Outcome(labels=tuple(labels))
    inner = dict(ts._store._store_dict)
    fails, stats = analyse_trace(ts.state, inner)
    ncopies = len([1 for n, d in fp.dag.nodes(data=True) if d.get("op_name") == "rechunk"])
    labels.add(f"rechunk-copies={min(ncopies, 4)}")
    if any(b"rectilinear" in v.to_bytes() for k, v in inner.items() if k.endswith("zarr.json")):
        labels.add("irregular-grid")
    out_f, seen = [], set()
    for (code, path, msg) in fails:
        b = f"{code}:rechunk"
        if b not in seen:
            seen.add(b)
            out_f.append(Failure(b, f"{path}: {msg}"))
    return Outcome(nontrivial=ncopies >= 1 and stats["multi_chunk_arrays"] > 0, labels=tuple(labels), failures=tuple(out_f))


def check_case(case) -> Outcome:
    if case.get("kind") == "real":
        return check_rechunk(case)
    prog = case["prog"]
    labels = set(l for l in P.prog_labels(prog) if l.startswith(("op:rechunk", "nops", "nd")))
    labels.add(f"mem={case.get('allowed_mem')}")
    for s in case.get("sinks") or []:
        labels.add("sink:" + s["cls"])
    r = run(case)
    if r["phase"] is not None:
        labels.add(f"declined:{r['phase']}:{type(r['exc']).__name__}")
        return Outcome(labels=tuple(labels))
    ts = r["ts"]
    sink_ctx = r["sink_ctx"]
    inner = dict(ts._store._store_dict)
    region_of = sink_ctx.region_of()
    fails, stats = analyse_trace(ts.state, inner, region_of)
    # targets living in their own traced stores
    rejected_paths = {t.path for t in sink_ctx.targets if t.sink["cls"] in ("region-misaligned", "existing-smaller", "existing-larger-unaligned") or t.sink["cls"].startswith("region-malformed")}
    for tstore in sink_ctx.stores:
        f2, s2 = analyse_trace(tstore.state, dict(tstore._store._store_dict), region_of, never_written_ok=rejected_paths)
        fails += f2
        for k in stats:
            stats[k] += s2[k]
    plan = r.get("plan")
    ntasks = {}
    opname = {}
    if plan is not None:
        for n, d in plan.dag.nodes(data=True):
            if d.get("type") == "op" and "primitive_op" in d:
                ntasks[n] = d["primitive_op"].num_tasks
                opname[n] = d.get("op_name")
        nst = len([1 for n, d in plan.dag.nodes(data=True) if d.get("op_name") == "rechunk"])
        if nst:
            labels.add(f"rechunk-copies={min(nst, 4)}")
    irregular = any(b"rectilinear" in v.to_bytes() for k, v in inner.items() if k.endswith("zarr.json"))
    if irregular:
        labels.add("irregular-grid")
    out_f = []
    seen = set()
    for (code, path, msg) in fails:
        b = f"{code}"
        # root cause context: which kind of operation produced the array
        kind_ = "?"
        if plan is not None:
            for n, d in plan.dag.nodes(data=True):
                if d.get("type") == "array" and n == path.split("/")[-1]:
                    preds = list(plan.dag.predecessors(n))
                    if preds:
                        kind_ = plan.dag.nodes[preds[0]].get("op_name", "?")
        for t in sink_ctx.targets:
            if path == t.path:
                kind_ = "store-target:" + t.sink["cls"]
        b = f"{code}:{kind_}"
        if b not in seen:
            seen.add(b)
            out_f.append(Failure(b, f"{path}: {msg}"))
    nt = stats["multi_chunk_arrays"] > 0 and any(v >= 2 for v in ntasks.values())
    return Outcome(nontrivial=nt, labels=tuple(labels), failures=tuple(out_f))


def shards(tier):
    if tier == "quick":
        return [{"kind": "program", "name": f"st{i}", "n": 110, "rotate": 11 + i * 31} for i in range(5)] + [
            {"kind": "program", "name": "foreign", "n": 40, "rotate": 5, "classes": ["existing-diff"]}] + [
            {"kind": "rechunk", "name": f"rechunk{i}", "n": 150, "max_side": 40 if i == 0 else 160, "max_elems": 3000 if i == 0 else 24000} for i in range(2)]
    return [{"kind": "program", "name": f"st{i}", "n": 1500, "rotate": 11 + i * 31} for i in range(15)] + [
        {"kind": "program", "name": "foreign", "n": 600, "rotate": 5, "classes": ["existing-diff"]}] + [
        {"kind": "rechunk", "name": f"rechunk{i}", "n": 2500, "max_side": 40 if i < 2 else 160, "max_elems": 3000 if i < 2 else 24000} for i in range(4)]


def run_shard(spec, seed, tier) -> Acc:
    acc = Acc()
    if spec["kind"] == "__corpus__":
        return core.corpus_shard(sys.modules[__name__], acc)
    is_known, _ = core.known_matcher(ID)
    if spec["kind"] == "rechunk":
        from vp import c14

        core.hyp_run(c14.real_cases(max_side=spec.get("max_side", 40), max_elems=spec.get("max_elems", 3000), boost="staircase" if spec.get("max_side", 40) > 40 else None), check_case, seed=seed, max_examples=spec["n"], acc=acc, budget_s=420 if tier == "quick" else 3000,
                     shrink=(tier == "thorough"), is_known=is_known)
        return acc
    kw = {"classes": tuple(spec["classes"])} if spec.get("classes") else {}
    core.hyp_run(case_strategy({"rotate": spec.get("rotate", 0), "allow_zero": True}, **kw), check_case, seed=seed, max_examples=spec["n"], acc=acc,
                 budget_s=420 if tier == "quick" else 3000, shrink=(tier == "thorough"), is_known=is_known)
    return acc


def replay(case):
    return check_case(case).all_failures()
