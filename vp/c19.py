"""C19 — acceptance and results do not depend on how resources are configured (metamorphic)."""
from __future__ import annotations

import os
import shutil
import sys
import warnings

import numpy as np

import vp  # noqa
from vp import c01, core, prog as P
from vp.core import Acc, Failure, Outcome

ID = "C19"
LEVEL = "exploration"
RULE = (
    "Programs from the shared generator (dag profile, with the operations that create helper arrays internally weighted up: tril/triu, "
    "*_like, scalar promotion, searchsorted, clip, map_blocks with block ids, arg-reductions, broadcast_to, pad, diff with "
    "prepend/append, linspace/arange/eye inputs, random) are built and computed under every resource configuration: V0 global default "
    "config (no Spec passed anywhere), V1 explicit Spec equal to the default, V2 explicit work_dir, V3 intermediate_store = MemoryStore "
    "and = LocalStore, V4 zarr_compressor None / explicit Blosc dict, V5 different reserved_mem, V6 an executor in the Spec, V8 every input under its own Spec object with equal settings (executor given by name / as an instance / by name with empty options), V7 larger "
    "allowed_mem. Oracle (metamorphic): every variant has the same acceptance class (accepted / declined-at-build / declined-at-plan / "
    "failed-at-execute, with the same exception type) as V0, and accepted variants return identical values (NaN-aware exact "
    "equality) which also agree with NumPy. Non-trivial = the program contains a helper-array-creating operation or input; "
    "distinct = canonical JSON."
)
ASSUMPTIONS = [
    "all budgets are >= the default's, so a memory refusal cannot legitimately differ between variants; executors get max_workers=4 so the machine-memory pre-check is host-independent",
]

VARIANTS = ["V0-default-config", "V1-explicit-equal", "V2-work_dir", "V3-memorystore", "V3-localstore", "V4-compressor-none", "V4-compressor-blosc",
            "V5-reserved_mem", "V6-executor-in-spec", "V7-larger-allowed_mem", "V8-equal-specs-per-input"]
HELPER_OPS = {n for n, o in __import__("vp.ir", fromlist=["OPS"]).OPS.items() if "helper-array" in o.tags} | {"searchsorted", "diff", "pad", "tril", "triu", "map_blocks"}


def case_strategy(opts=None, max_ops=4):
    from hypothesis import strategies as st

    @st.composite
    def cases(draw):
        o = dict(opts or {})
        if draw(st.booleans()):
            o["boost_ops"] = True
        prog = draw(P.programs("helper-rich" if o.get("boost_ops") else "dag", max_ops=max_ops, min_ops=1, opts=o))
        vs = draw(st.lists(st.sampled_from(VARIANTS[1:]), min_size=2, max_size=4, unique=True))
        return {"kind": "program", "prog": prog, "variants": ["V0-default-config"] + sorted(vs), "optimize": draw(st.booleans())}

    return cases()


def make_spec(variant, scratch):
    import cubed
    from zarr.storage import LocalStore, MemoryStore

    base = dict(allowed_mem="2GB", reserved_mem="100MB")
    if variant == "V0-default-config":
        return None
    if variant == "V1-explicit-equal":
        return cubed.Spec(**base)
    if variant == "V2-work_dir":
        return cubed.Spec(work_dir=os.path.join(scratch, "wd"), **base)
    if variant == "V3-memorystore":
        return cubed.Spec(intermediate_store=MemoryStore(), **base)
    if variant == "V3-localstore":
        return cubed.Spec(intermediate_store=LocalStore(os.path.join(scratch, "ls")), **base)
    if variant == "V4-compressor-none":
        return cubed.Spec(work_dir=os.path.join(scratch, "wd4"), zarr_compressor=None, **base)
    if variant == "V4-compressor-blosc":
        return cubed.Spec(work_dir=os.path.join(scratch, "wd5"), zarr_compressor={"name": "blosc", "configuration": {"cname": "lz4", "clevel": 2, "shuffle": "shuffle"}}, **base)
    if variant == "V5-reserved_mem":
        return cubed.Spec(work_dir=os.path.join(scratch, "wd6"), allowed_mem="2GB", reserved_mem="1MB")
    if variant == "V6-executor-in-spec":
        from cubed.runtime.create import create_executor

        return cubed.Spec(work_dir=os.path.join(scratch, "wd7"), executor=create_executor("single-threaded"), **base)
    if variant == "V7-larger-allowed_mem":
        return cubed.Spec(work_dir=os.path.join(scratch, "wd8"), allowed_mem="3GB", reserved_mem="100MB")
    raise ValueError(variant)


def run_variant(prog, variant, scratch, optimize):
    from vp import harness as H

    if variant == "V8-equal-specs-per-input":
        # every input is built under its own Spec object; the Specs describe the same resources, the executor being written down
        # in different ways (by name, as an instance, by name with empty options)
        import cubed
        from cubed.runtime.create import create_executor

        base = dict(work_dir=os.path.join(scratch, "wd9"), allowed_mem="2GB", reserved_mem="100MB")
        specs = [cubed.Spec(executor_name="single-threaded", **base), cubed.Spec(executor=create_executor("single-threaded"), **base),
                 cubed.Spec(executor_name="single-threaded", executor_options={}, **base)]
        ctx = P.BuildCtx()
        ctx.input_specs = specs
        rr = H.run_program(prog, specs[0], executor=H.make_executor("single-threaded"), optimize_graph=optimize, ctx=ctx)
        return rr
    spec = make_spec(variant, scratch)
    ex = None if variant == "V6-executor-in-spec" else H.make_executor("single-threaded")
    rr = H.run_program(prog, spec, executor=ex, optimize_graph=optimize)
    if variant == "V6-executor-in-spec" and rr.phase == "plan" and rr.exc_type not in ("ValueError", "TypeError", "NotImplementedError", "IndexError"):
        # without a recording wrapper the phase of a compute-time failure is not observable: call it execute
        rr.phase = "execute"
    return rr


def tight_cases(opts=None):
    from hypothesis import strategies as st

    @st.composite
    def cases(draw):
        prog = draw(P.programs("storage-rich", max_ops=3, min_ops=1, opts=dict(opts or {}, allow_zero=False, input_kinds=["asarray", "asarray", "from_array", "from_zarr"])))
        return {"kind": "tight", "prog": prog, "budget": draw(st.sampled_from([1_500, 4_000, 10_000, 40_000, 200_000])),
                "reserved": draw(st.lists(st.sampled_from([1_000, 100_000, 1_000_000, 10_000_000]), min_size=1, max_size=2, unique=True)),
                "optimize": draw(st.booleans())}

    return cases()


def check_tight(case) -> Outcome:
    """Same data budget (allowed_mem - reserved_mem), different reserved_mem: acceptance and values must coincide."""
    import cubed
    from zarr.storage import MemoryStore

    from vp import harness as H

    prog = case["prog"]
    B = case["budget"]
    labels = {f"tight-budget={B}"}
    vals = P.eval_numpy(prog)
    fails = []
    nin = len(prog["inputs"])

    def run(reserved):
        spec = cubed.Spec(intermediate_store=MemoryStore(), allowed_mem=B + reserved, reserved_mem=reserved)
        return H.run_program(prog, spec, executor=H.make_executor("single-threaded"), optimize_graph=case["optimize"])

    base = run(0)
    bcls = ("accepted", None) if base.phase is None else (base.phase, base.exc_type)
    labels.add("base:" + bcls[0])
    for r in case["reserved"]:
        rr = run(r)
        c = ("accepted", None) if rr.phase is None else (rr.phase, rr.exc_type)
        if c != bcls:
            idx = rr.node_index if rr.phase == "build" else (base.node_index if base.phase == "build" else None)
            culprit = prog["nodes"][idx - nin]["op"] if idx is not None and idx >= nin else "plan"
            fails.append(Failure(f"acceptance-depends-on-reserved_mem:{culprit}", f"budget {B}: reserved_mem=0 -> {bcls}; reserved_mem={r} (allowed_mem={B + r}) -> {c}; {(rr.exc_msg or base.exc_msg)[:160]}"))
            continue
        if rr.phase is None:
            for oid, x, y in zip(prog["outputs"], base.results, rr.results):
                if x.shape != y.shape or not np.array_equal(x, y, equal_nan=True):
                    fails.append(Failure("values-depend-on-reserved_mem", f"output {oid} differs between reserved_mem=0 and {r}"))
                    break
    has_rechunk = any(n["op"] == "rechunk" for n in prog["nodes"])
    if has_rechunk:
        labels.add("has-rechunk")
    seen, uniq = set(), []
    for f in fails:
        if f.bucket not in seen:
            seen.add(f.bucket)
            uniq.append(f)
    return Outcome(nontrivial=has_rechunk, labels=tuple(labels), failures=tuple(uniq))


def check_case(case) -> Outcome:
    if case.get("kind") == "tight":
        return check_tight(case)
    prog = case["prog"]
    labels = {"optimize:" + str(case["optimize"])}
    labels |= {"variant:" + v for v in case["variants"]}
    helper = any(n["op"] in HELPER_OPS for n in prog["nodes"]) or any(i["kind"] in ("linspace", "arange", "eye", "full", "random") for i in prog["inputs"])
    for n in prog["nodes"]:
        if n["op"] in HELPER_OPS:
            labels.add("helper-op:" + n["op"])
    vals = P.eval_numpy(prog)
    scratch = c01.Scratch.fresh("c19")
    fails = []
    try:
        results = {}
        for v in case["variants"]:
            rr = run_variant(prog, v, scratch, case["optimize"])
            results[v] = rr
        base = results["V0-default-config"]

        def cls(rr):
            if rr.phase is None:
                return ("accepted", None)
            ph = rr.phase
            return (ph, rr.exc_type)

        b = cls(base)
        labels.add("base:" + (b[0] if b[1] is None else f"{b[0]}:{b[1]}"))
        nin = len(prog["inputs"])
        for v, rr in results.items():
            if v == "V0-default-config":
                continue
            c = cls(rr)
            if c[0] == "execute" and b[0] == "plan" or c[0] == "plan" and b[0] == "execute":
                # V6 cannot separate plan from execute failures; compare types only
                same = c[1] == b[1]
            else:
                same = c == b
            vk = v.split("-", 1)[0]
            if not same:
                idx = rr.node_index if rr.phase == "build" else None
                culprit = (prog["nodes"][idx - nin]["op"] if idx is not None and idx >= nin else (("input:" + prog["inputs"][idx]["kind"]) if idx is not None else "?"))
                if rr.phase is None and base.phase == "build":
                    idx = base.node_index
                    culprit = (prog["nodes"][idx - nin]["op"] if idx is not None and idx >= nin else "?")
                fails.append(Failure(f"acceptance-differs:{vk}:{culprit}", f"{v}: {c} vs default config: {b}; {rr.exc_msg[:150] or base.exc_msg[:150]}"))
                continue
            if rr.phase is None:
                for oid, x, y in zip(prog["outputs"], base.results, rr.results):
                    if vals[oid].comparable is False and any(i["kind"] == "random" for i in prog["inputs"]):
                        continue  # random arrays draw a fresh root seed per build
                    if x.shape != y.shape or not np.array_equal(x, y, equal_nan=True):
                        opn = prog["nodes"][oid - nin]["op"] if oid >= nin else "input"
                        fails.append(Failure(f"values-differ:{vk}:{opn}", f"{v}: output {oid} differs from the default-config result"))
                        break
        if base.phase is None:
            for oid, x in zip(prog["outputs"], base.results):
                if P.compare(x, vals[oid]) is not None:
                    labels.add("numpy-mismatch(C01)")
        seen, uniq = set(), []
        for f in fails:
            if f.bucket not in seen:
                seen.add(f.bucket)
                uniq.append(f)
        return Outcome(nontrivial=helper, labels=tuple(labels), failures=tuple(uniq))
    finally:
        shutil.rmtree(scratch, ignore_errors=True)


def shards(tier):
    if tier == "quick":
        return [{"kind": "program", "name": f"s{i}", "n": 45, "rotate": 31 + i * 61} for i in range(6)] + [
            {"kind": "tight", "name": f"tight{i}", "n": 90, "rotate": 7 + i * 11} for i in range(2)]
    return [{"kind": "program", "name": f"s{i}", "n": 700, "rotate": 31 + i * 61} for i in range(13)] + [
        {"kind": "tight", "name": f"tight{i}", "n": 1500, "rotate": 7 + i * 11} for i in range(3)]


def run_shard(spec, seed, tier) -> Acc:
    acc = Acc()
    if spec["kind"] == "__corpus__":
        return core.corpus_shard(sys.modules[__name__], acc)
    is_known, _ = core.known_matcher(ID)
    if spec["kind"] == "tight":
        core.hyp_run(tight_cases({"rotate": spec.get("rotate", 0)}), check_case, seed=seed, max_examples=spec["n"], acc=acc,
                     budget_s=420 if tier == "quick" else 3000, shrink=(tier == "thorough"), is_known=is_known)
        return acc
    core.hyp_run(case_strategy({"rotate": spec.get("rotate", 0), "input_kinds": ["asarray"] * 4 + ["from_array", "from_zarr", "full", "ones", "zeros", "arange", "linspace", "eye"]}), check_case,
                 seed=seed, max_examples=spec["n"], acc=acc, budget_s=420 if tier == "quick" else 3000, shrink=(tier == "thorough"), is_known=is_known)
    return acc


def replay(case):
    return check_case(case).all_failures()
