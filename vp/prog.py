"""Program generator (Hypothesis), cubed builder, NumPy evaluator and comparison for the IR of vp.ir."""
from __future__ import annotations

import itertools
import math
import warnings
from collections import Counter
from typing import Any, Optional

import numpy as np

from vp import ir
from vp.ir import OPS, Val, dn, kind, make_data

np.seterr(all="ignore")

GEN_STATS = Counter()  # per-process generation statistics (numpy-invalid draws, known-region exclusions, ...)

MAX_ELEMS = 4096


# --------------------------------------------------------------------------- inputs
def normalize_chunksize(shape, chunks):
    return [max(1, min(int(c), max(int(s), 1))) for s, c in zip(shape, chunks)]


def input_value(inp) -> np.ndarray:
    k = inp["kind"]
    if k in ("asarray", "from_array", "from_zarr"):
        return make_data(inp["shape"], inp["dtype"], inp.get("k", 0), inp.get("special", False), inp.get("frac", False))
    if k == "full":
        return np.full(tuple(inp["shape"]), inp["value"], dtype=inp["dtype"])
    if k == "ones":
        return np.ones(tuple(inp["shape"]), dtype=inp["dtype"])
    if k == "zeros":
        return np.zeros(tuple(inp["shape"]), dtype=inp["dtype"])
    if k == "arange":
        return np.arange(inp["start"], inp["stop"], inp["step"], dtype=inp["dtype"])
    if k == "linspace":
        return np.linspace(inp["start"], inp["stop"], inp["num"], endpoint=inp["endpoint"], dtype=inp["dtype"])
    if k == "eye":
        return np.eye(inp["n"], inp["m"], k=inp["kdiag"], dtype=inp["dtype"])
    if k == "random":
        return np.full(tuple(inp["shape"]), 0.5, dtype="float64")  # placeholder: values have no NumPy oracle
    raise ValueError(k)


def build_input(inp, spec, ctx):
    import cubed
    import cubed.array_api as xp

    k = inp["kind"]
    chunks = tuple(inp["chunks"])
    dt = getattr(xp, inp["dtype"])
    if k == "asarray":
        return xp.asarray(input_value(inp), chunks=chunks, spec=spec)
    if k == "from_array":
        return cubed.from_array(input_value(inp), chunks=chunks, spec=spec)
    if k == "from_zarr":
        import zarr

        store = ctx.input_store()
        path = f"in_{ctx.next_id()}"
        data = input_value(inp)
        z = zarr.create_array(store, name=path, shape=data.shape, dtype=data.dtype, chunks=tuple(max(1, c) for c in chunks) if data.ndim else (), overwrite=True)
        if data.size:
            z[...] = data
        ctx.inputs_written.append((store, path, data))
        return cubed.from_zarr(store, path=path, spec=spec)
    if k == "full":
        return xp.full(tuple(inp["shape"]), inp["value"], dtype=dt, chunks=chunks, spec=spec)
    if k == "ones":
        return xp.ones(tuple(inp["shape"]), dtype=dt, chunks=chunks, spec=spec)
    if k == "zeros":
        return xp.zeros(tuple(inp["shape"]), dtype=dt, chunks=chunks, spec=spec)
    if k == "arange":
        return xp.arange(inp["start"], inp["stop"], inp["step"], dtype=dt, chunks=chunks, spec=spec)
    if k == "linspace":
        return xp.linspace(inp["start"], inp["stop"], inp["num"], endpoint=inp["endpoint"], dtype=dt, chunks=chunks, spec=spec)
    if k == "eye":
        return xp.eye(inp["n"], inp["m"], k=inp["kdiag"], dtype=dt, chunks=chunks, spec=spec)
    if k == "random":
        import cubed.random

        return cubed.random.random(tuple(inp["shape"]), chunks=chunks, spec=spec)
    raise ValueError(k)


def input_val(inp) -> Val:
    v = input_value(inp)
    k = inp["kind"]
    # linspace: cubed computes start + i*step per block, NumPy uses its own formula: equal only up to rounding
    # arange with a fractional step: likewise (and NumPy's float32 arange accumulates its step in float32)
    return Val(v, exact=k not in ("random", "linspace") and not inp.get("frac_step"), comparable=k != "random", scale=max(1.0, _finite_max(v)))


class BuildCtx:
    def __init__(self, input_store_factory=None):
        self._factory = input_store_factory
        self._store = None
        self._n = 0
        self.inputs_written = []

    def input_store(self):
        if self._store is None:
            if self._factory is not None:
                self._store = self._factory()
            else:
                from zarr.storage import MemoryStore

                self._store = MemoryStore()
        return self._store

    def next_id(self):
        self._n += 1
        return self._n


# --------------------------------------------------------------------------- special ops needing chunk knowledge
def blocks_ref(v, p):
    from vp.grid import block_slices

    sl = block_slices(v[0].shape, p["chunks"], p["key"])
    return v[0][sl]


def blocks_cub(xp, a, p):
    return a[0].blocks[tuple(p["key"])]


def map_blocks_ref(v, p):
    x = v[0]
    if not p["bid"]:
        return x * p["k"] + 1
    from vp.grid import all_blocks, block_slices

    out = x * p["k"]
    out = out.copy()
    for coords in all_blocks(x.shape, p["chunks"]):
        sl = block_slices(x.shape, p["chunks"], coords)
        out[sl] += sum(int(b) * (10 ** i) for i, b in enumerate(coords))
    return out


OPS["blocks"].cub = blocks_cub
OPS["blocks"].ref = blocks_ref
OPS["map_blocks"].ref = map_blocks_ref


# --------------------------------------------------------------------------- evaluation
def node_count(prog):
    return len(prog["inputs"]) + len(prog["nodes"])


def _finite_max(x):
    x = np.asarray(x)
    if x.size == 0:
        return 0.0
    a = np.abs(x.astype(np.complex128) if kind(x.dtype) == "c" else x.astype(np.float64))
    a = a[np.isfinite(a)]
    return float(a.max()) if a.size else 0.0


LINEAR_OK = {
    "add", "subtract", "multiply", "negative", "positive", "abs", "op_add", "op_sub", "op_mul", "op_neg", "op_abs",
    "sum", "mean", "matmul", "tensordot", "vecdot", "outer", "cumulative_sum", "nansum", "nanmean", "conj", "real", "imag",
    "map_blocks", "map_blocks2", "apply_gufunc", "apply_gufunc2", "diff", "pad", "scalar_binop_lin",
}
STRUCTURAL_TAGS = {"manip", "selection", "chunk", "pick"}


def _mant(dt):
    return {"float32": 24, "float64": 53, "complex64": 24, "complex128": 53}[str(np.dtype(dt))]


def derive_meta(op: ir.Op, name, argvals, params, v) -> Val:
    """Soundness of comparisons: exact when bit-identical results are guaranteed for a correct implementation,
    tolerant when only reassociation / algorithm differs, uncomparable when a discontinuous or ill-conditioned
    function was applied to an inexact value."""
    ins_cmp = all(a.comparable for a in argvals)
    ins_exact = all(a.exact for a in argvals)
    scale = max([a.scale for a in argvals] + [1.0])
    cls = op.cls
    if isinstance(v, tuple):
        # tuples are compared by op-specific validators; picks of qr/svd factors are not unique
        cmp_ = ins_cmp and ins_exact
        exact = cls == "exact"
        return Val(v, exact=exact and ins_exact, comparable=cmp_ and cls == "exact", scale=scale)
    rdt = np.asarray(v).dtype
    scale = max(scale, _finite_max(v))
    if not ins_cmp:
        return Val(v, exact=False, comparable=False, scale=scale)
    if cls in ("reassoc", "reassoc-prod", "mean", "var", "recon", "svdvals") and kind(rdt) in "fc":
        # reassociating / contracting float operations on non-finite data: inf-inf, 0*inf and complex inf arithmetic
        # depend on the order of evaluation, so neither exact nor tolerant comparison is sound
        for a in argvals:
            x = np.asarray(a.v)
            if kind(x.dtype) in "fc" and not np.all(np.isfinite(x)):
                return Val(v, exact=False, comparable=False, scale=scale)
        if not np.all(np.isfinite(np.asarray(v))):
            return Val(v, exact=False, comparable=False, scale=scale)  # overflow inside the operation
    if cls == "shape-only":
        return Val(v, exact=False, comparable=False, scale=scale)
    structural = bool(set(op.tags) & STRUCTURAL_TAGS) and cls == "exact"
    if not ins_exact:
        # propagate inexactness only through structural and linear ops
        if structural or name in LINEAR_OK or (name == "where" and argvals[0].exact) or (name == "scalar_binop" and params.get("f") in ("add", "sub", "mul")) or name in ("astype",) and kind(rdt) in "fc":
            return Val(v, exact=False, comparable=True, scale=scale)
        return Val(v, exact=False, comparable=False, scale=scale)
    # all inputs exact
    if cls in ("exact", "discont"):
        return Val(v, exact=True, comparable=True, scale=scale)
    if kind(rdt) not in "fc":
        return Val(v, exact=True, comparable=True, scale=scale)  # integer arithmetic is associative (mod 2^n)
    if cls == "ulp":
        return Val(v, exact=False, comparable=True, scale=scale)
    if cls in ("reassoc", "reassoc-prod"):
        xs = [np.asarray(a.v) for a in argvals]
        if all(kind(x.dtype) not in "fc" or (np.all(np.isfinite(x)) and np.all(x == np.round(x.real if kind(x.dtype) == "c" else x)) and (kind(x.dtype) != "c" or np.all(x.imag == np.round(x.imag)))) for x in xs):
            # integer-valued: exact iff every partial result stays below 2^mantissa
            mant = _mant(rdt)
            for x in xs:  # inputs are converted to the result dtype before accumulating
                if kind(x.dtype) in "fc":
                    mant = min(mant, _mant(x.dtype))
            if cls == "reassoc":
                if len(xs) == 1:
                    bound = float(np.sum(np.abs(xs[0].astype(np.complex128)).astype(np.float64))) * 2
                else:
                    bound = float(np.sum(np.abs(xs[0].astype(np.complex128)))) * float(max(_finite_max(xs[1]), 1)) * 2
            else:
                with np.errstate(all="ignore"):
                    a = np.abs(xs[0].astype(np.complex128)).astype(np.float64)
                    bound = float(np.exp(np.sum(np.log(np.maximum(a, 1.0))))) * 4
            if bound < 2.0 ** mant:
                return Val(v, exact=True, comparable=True, scale=scale)
            if cls == "reassoc-prod" and not (bound < 1e30):
                return Val(v, exact=False, comparable=False, scale=scale)  # overflow order effects
        elif cls == "reassoc-prod":
            return Val(v, exact=False, comparable=False, scale=scale)
        if any(not np.all(np.isfinite(x)) for x in xs if kind(x.dtype) in "fc"):
            # non-finite data: inf-inf / 0*inf order effects; only NaN-ness is stable for sums
            return Val(v, exact=False, comparable=(cls == "reassoc"), scale=scale)
        return Val(v, exact=False, comparable=True, scale=scale)
    if cls in ("mean", "var"):
        return Val(v, exact=False, comparable=True, scale=scale, rtol=1e-7 if cls == "var" else 0.0)
    if cls in ("svdvals", "recon"):
        return Val(v, exact=False, comparable=True, scale=scale, rtol=1e-8)
    return Val(v, exact=False, comparable=False, scale=scale)


def eval_numpy(prog) -> list[Val]:
    vals = []
    for inp in prog["inputs"]:
        vals.append(input_val(inp))
    for node in prog["nodes"]:
        op = OPS[node["op"]]
        args = [vals[i] for i in node["args"]]
        with np.errstate(all="ignore"), warnings.catch_warnings():
            warnings.simplefilter("ignore")
            v = op.ref([a.v for a in args], node["params"])
        if not isinstance(v, tuple):
            v = np.asarray(v)
        vals.append(derive_meta(op, node["op"], args, node["params"], v))
    return vals


STORE_TARGETS_BY_BUILD: dict = {}


def store_targets(arrs):
    """{node id: (target, is_path)} of the store_lazy nodes of a program built by build_cubed (the list it returned)"""
    return STORE_TARGETS_BY_BUILD.get(id(arrs), {})


def clear_target(target, is_path):
    """remove what a run wrote to a store_lazy target (chunks of an existing array; everything below a path target)"""
    store = target if is_path else target.store
    inner = getattr(store, "_store_dict", None)
    if inner is not None:
        for k in list(inner):
            if is_path or not k.endswith("zarr.json"):
                del inner[k]
        return
    import os
    import shutil

    root = str(getattr(store, "root", ""))
    if root and os.path.isdir(root):
        for dirpath, dirs, files in os.walk(root):
            for f in files:
                if is_path or f != "zarr.json":
                    os.remove(os.path.join(dirpath, f))


def read_store_target(target, is_path):
    import zarr

    z = zarr.open_array(store=target, mode="r") if is_path else target
    return z, (np.asarray(z[...]) if z.ndim else np.asarray(z[()]))


def build_cubed(prog, spec, ctx: Optional[BuildCtx] = None):
    """Returns list of cubed arrays/tuples per node id. Exceptions propagate (caller classifies the phase)."""
    import cubed.array_api as xp

    ctx = ctx or BuildCtx()
    arrs = []
    STORE_TARGETS_BY_BUILD.pop(id(arrs), None)
    while len(STORE_TARGETS_BY_BUILD) > 16:
        STORE_TARGETS_BY_BUILD.pop(next(iter(STORE_TARGETS_BY_BUILD)))
    try:
        for k_, inp in enumerate(prog["inputs"]):
            # a check may give every input its own (equal) Spec object: ctx.input_specs
            sp_ = ctx.input_specs[k_ % len(ctx.input_specs)] if getattr(ctx, "input_specs", None) else spec
            arrs.append(build_input(inp, sp_, ctx))
        for node in prog["nodes"]:
            op = OPS[node["op"]]
            arrs.append(op.cub(xp, [arrs[i] for i in node["args"]], node["params"]))
            if node["op"] == "store_lazy":
                from vp import ir as _ir

                # node id -> (target, is_path): the checks that opt in to store_lazy nodes look the targets up here
                STORE_TARGETS_BY_BUILD.setdefault(id(arrs), {})[len(arrs) - 1] = _ir.STORE_TARGETS[-1]
    except Exception as e:
        e.vp_node_index = len(arrs)
        e.vp_partial = arrs
        raise
    return arrs


# --------------------------------------------------------------------------- comparison
def compare(got, val: Val, what="") -> Optional[str]:
    ref = np.asarray(val.v)
    got = np.asarray(got)
    if got.shape != ref.shape:
        return f"shape {got.shape} != numpy {ref.shape}"
    if not val.comparable or ref.size == 0:
        return None
    if got.dtype.names is not None:
        return f"structured result dtype {got.dtype}"
    if val.exact:
        try:
            if kind(got.dtype) in "fc" or kind(ref.dtype) in "fc":
                ok = np.array_equal(got, ref.astype(got.dtype) if kind(ref.dtype) not in "fc" and kind(got.dtype) in "fc" else ref, equal_nan=True)
                if not ok:
                    # dtype differences (float32 result vs float64 reference) are not value differences
                    ok = np.array_equal(got.astype(np.complex128), ref.astype(np.complex128), equal_nan=True) or (
                        np.dtype(got.dtype) != np.dtype(ref.dtype) and np.allclose(got.astype(np.complex128), ref.astype(np.complex128), rtol=1e-6, atol=0, equal_nan=True)
                    )
            else:
                ok = np.array_equal(got, ref)
        except Exception as e:  # pragma: no cover
            return f"comparison error {e!r}"
        if ok:
            return None
        return _diff_msg(got, ref)
    # tolerant
    small = str(got.dtype) in ("float32", "complex64") or str(ref.dtype) in ("float32", "complex64")
    rtol = max(val.rtol, 1e-4 if small else 1e-9)
    if val.rtol >= 1e-7 and small:
        rtol = 1e-3
    atol = rtol * max(val.scale, 1.0)
    g = got.astype(np.complex128)
    r = ref.astype(np.complex128)
    if np.allclose(g, r, rtol=rtol, atol=atol, equal_nan=True):
        return None
    # inf of the same sign compare equal under allclose; NaN vs inf mismatches are real
    return _diff_msg(got, ref)


def _diff_msg(got, ref):
    try:
        bad = ~((got == ref) | ((got != got) & (ref != ref)))
        idx = np.argwhere(bad)
        i = tuple(idx[0]) if len(idx) else ()
        return f"{int(bad.sum())}/{ref.size} elements differ; first at {list(map(int, i))}: got {got[i]!r} numpy {ref[i]!r}; got dtype {got.dtype}"
    except Exception:
        return "values differ"


def validate_special(opname, argvals, got_tuple_or_arr) -> Optional[str]:
    """Validity predicates for factorizations (many correct answers)."""
    A = np.asarray(argvals[0].v, dtype=np.float64)
    scale = max(_finite_max(A), 1.0)
    tol = 1e-8 * scale * max(A.shape)
    if opname == "qr":
        Q, R = [np.asarray(x) for x in got_tuple_or_arr]
        m, n = A.shape
        if Q.shape != (m, n) or R.shape != (n, n):
            return f"qr shapes Q{Q.shape} R{R.shape} for A{A.shape}"
        if not np.allclose(Q @ R, A, atol=tol, rtol=0):
            return f"Q@R != A (max err {np.abs(Q @ R - A).max():.3g})"
        if not np.allclose(Q.T @ Q, np.eye(n), atol=1e-8 * n, rtol=0) and np.linalg.matrix_rank(A) == n:
            return "Q not orthonormal"
        if not np.allclose(R, np.triu(R), atol=tol, rtol=0):
            return "R not upper triangular"
        return None
    if opname == "svd":
        U, S, Vh = [np.asarray(x) for x in got_tuple_or_arr]
        ref = np.linalg.svd(A, compute_uv=False)
        if S.shape != ref.shape:
            return f"S shape {S.shape} != {ref.shape}"
        if not np.allclose(np.sort(S)[::-1], ref, atol=tol, rtol=1e-8):
            return "singular values differ"
        if not np.allclose((U * S) @ Vh, A, atol=tol * 10, rtol=0):
            return "U S Vh != A"
        return None
    if opname == "svdvals":
        S = np.asarray(got_tuple_or_arr)
        ref = np.linalg.svd(A, compute_uv=False)
        if S.shape != ref.shape:
            return f"S shape {S.shape} != {ref.shape}"
        if not np.allclose(np.sort(S)[::-1], ref, atol=tol, rtol=1e-8):
            return "singular values differ"
        return None
    return None


# --------------------------------------------------------------------------- generator
PROFILE_WEIGHTS = {
    "dag": {},
    "fusion-rich": {"elementwise": 3, "reduction": 2, "selection": 2, "manip": 1, "chunk": 1},
    "storage-rich": {"rechunk": 6, "chunk": 2, "multi-output": 2},
    "helper-rich": {"helper-array": 8, "search": 4},
    "decline": {"scan": 6, "reduction": 2, "linalg": 3, "manip": 2, "multi": 3, "index": 2, "chunk": 2},
}


def _weighted_names(profile):
    mult = PROFILE_WEIGHTS.get(profile, {})
    names = []
    for n, op in OPS.items():
        if op.weight <= 0 or (op.params is None and n not in ("blocks", "map_blocks", "map_overlap")):
            continue
        w = op.weight
        for t in op.tags:
            w *= mult.get(t, 1)
        names += [n] * int(w)
    return sorted(names)


_WN = {}


def weighted_names(profile):
    if profile not in _WN:
        _WN[profile] = _weighted_names(profile)
    return _WN[profile]


def draw_shape(draw, st, max_dims=4, allow_zero=True):
    nd = draw(st.sampled_from([0, 1, 1, 1, 2, 2, 2, 2, 3, 3, 4][: 8 + max(0, max_dims - 1)])) if max_dims >= 4 else draw(st.integers(0, max_dims))
    nd = min(nd, max_dims)
    sides = [1, 1, 2, 3, 4, 5, 6, 7, 8, 2, 3, 4, 5, 6, 7, 8, 9, 10, 12] + ([0] if allow_zero else [])
    shape = [draw(st.sampled_from(sides)) for _ in range(nd)]
    while int(np.prod(shape)) > 1200:
        i = shape.index(max(shape))
        shape[i] = max(1, shape[i] // 2)
    return shape


def draw_chunks(draw, st, shape, many=False):
    out = []
    for s in shape:
        s1 = max(int(s), 1)
        c = draw(st.sampled_from([1, 1, 1, 2, s1] if many else [1, 2, 3, s1, (s1 + 1) // 2, 4, 5]))
        out.append(max(1, min(c, s1)))
    # bound the number of blocks (tasks): enlarge the smallest chunks until <= cap blocks
    cap = 96 if many else 48

    def nblocks():
        return int(np.prod([-(-max(int(s), 1) // c) for s, c in zip(shape, out)])) if out else 1

    while nblocks() > cap:
        cands = [i for i, (s, c) in enumerate(zip(shape, out)) if c < max(int(s), 1)]
        i = min(cands, key=lambda j: out[j])
        out[i] = min(max(int(shape[i]), 1), out[i] * 2)
    return out


def draw_input(draw, st, k, prev_inputs, opts):
    dtype = draw(st.sampled_from(opts.get("dtypes") or ir.WEIGHTED_DTYPES))
    rel = draw(st.integers(0, 9)) if prev_inputs else 9
    if prev_inputs and rel < 6:
        base = list(draw(st.sampled_from(prev_inputs))["shape"])
        how = draw(st.sampled_from(["same", "same", "bcast", "one-axis", "tail", "mm"]))
        if how == "bcast":
            base = [1 if draw(st.booleans()) else s for s in base]
        elif how == "one-axis" and base:
            i = draw(st.integers(0, len(base) - 1))
            base[i] = draw(st.sampled_from([1, 2, 3, 5, 0] if opts.get("allow_zero", True) else [1, 2, 3, 5]))
        elif how == "tail" and base:
            base = base[draw(st.integers(0, len(base))):]
        elif how == "mm" and base:
            base = base[:-2] + [base[-1], draw(st.sampled_from([1, 2, 3, 4]))] if len(base) >= 2 else [base[-1], draw(st.sampled_from([1, 2, 3]))]
        shape = base
        if draw(st.integers(0, 2)) == 0:
            dtype = draw(st.sampled_from(prev_inputs))["dtype"]
    else:
        shape = draw_shape(draw, st, opts.get("max_dims", 4), opts.get("allow_zero", True))
    kinds = opts.get("input_kinds") or ["asarray"] * 6 + ["from_array", "from_zarr", "full", "ones", "zeros", "arange", "linspace", "eye"]
    kd = draw(st.sampled_from(kinds))
    inp = {"kind": kd, "shape": shape, "dtype": dtype, "chunks": draw_chunks(draw, st, shape, opts.get("many_chunks", False)), "k": k}
    same = [q for q in prev_inputs if list(q["shape"]) == list(shape) and q["kind"] != "eye"]
    if same and len(shape) >= 1 and draw(st.integers(0, 3)) == 0:
        # same shape as an earlier input, chunked differently but with the SAME number of blocks along every axis where that is
        # possible (10 elements in chunks of 5 and of 6): block grids that coincide in count but not in extent
        q = draw(st.sampled_from(same))
        qc = normalize_chunksize(q["shape"], q["chunks"])
        new = []
        for n_, c_ in zip(shape, qc):
            n1 = max(int(n_), 1)
            nb = -(-n1 // max(int(c_), 1))
            alt = [c2 for c2 in range(1, n1 + 1) if -(-n1 // c2) == nb and c2 != c_]
            new.append(draw(st.sampled_from(alt)) if alt else int(c_))
        inp["chunks"] = new
        inp["equal_numblocks"] = True
    if kd in ("asarray", "from_array", "from_zarr"):
        if kind(dtype) in "fc":
            c = draw(st.integers(0, 9))
            if c == 0 and opts.get("special", True):
                inp["special"] = True
            elif c <= 2:
                inp["frac"] = True
    elif kd == "random":
        inp["dtype"] = "float64"
    elif kd == "full":
        inp["value"] = {"b": True, "i": -3, "u": 7, "f": 2.5, "c": 1.5}[kind(dtype)]
    elif kd == "arange":
        if kind(dtype) in "bc":
            inp["dtype"] = dtype = "int64"
        start = draw(st.integers(-5, 5))
        step = draw(st.sampled_from([1, 2, 3, -1, -2])) if kind(dtype) != "u" else draw(st.sampled_from([1, 2, 3]))
        if kind(dtype) == "f" and draw(st.integers(0, 2)) == 0:
            # fractional steps: the number of elements of a block must not be derived from a floating-point block stop
            step = draw(st.sampled_from([0.1, 0.25, 0.5, 0.3, -0.1, -0.25, 1.5]))
            inp["frac_step"] = True
        n = draw(st.integers(0 if opts.get("allow_zero", True) else 1, 12))
        if kind(dtype) == "u":
            start = abs(start)
        stop = start + n * step
        if kind(dtype) == "u" and stop < 0:
            stop = 0
        v = np.arange(start, stop, step)
        inp.update(start=start, stop=stop, step=step, shape=[int(v.size)])
        inp["chunks"] = draw_chunks(draw, st, inp["shape"])
    elif kd == "linspace":
        if kind(dtype) not in "f":
            inp["dtype"] = dtype = "float64"
        num = draw(st.integers(1, 12))
        inp.update(start=draw(st.integers(-5, 5)), stop=draw(st.integers(-5, 12)), num=num, endpoint=draw(st.booleans()), shape=[num])
        inp["chunks"] = draw_chunks(draw, st, inp["shape"])
    elif kd == "eye":
        if kind(dtype) in "bc":
            inp["dtype"] = dtype = "float64"
        n = draw(st.integers(1, 7))
        m = draw(st.integers(1, 7))
        inp.update(n=n, m=m, kdiag=draw(st.integers(-3, 3)), shape=[n, m])
        c = draw(st.integers(1, max(n, m)))
        inp["chunks"] = [min(c, n), min(c, m)]
    return inp


def known_chunks(prog_inputs, nodes, i):
    """Chunk sizes of node i when they follow from the IR alone (inputs other than eye, rechunk nodes)."""
    nin = len(prog_inputs)
    if i < nin:
        inp = prog_inputs[i]
        if inp["kind"] == "eye":
            c = min(inp["chunks"])
            return [min(c, inp["n"]), min(c, inp["m"])] if False else None
        return normalize_chunksize(inp["shape"], inp["chunks"])
    node = nodes[i - nin]
    if node["op"] == "rechunk":
        return list(node["params"]["chunks"])
    return None


def candidates(op, vals, recent=9):
    ids = [i for i, v in enumerate(vals) if not v.is_tuple]
    ids = ids[-recent:]
    arr = {i: vals[i].v for i in ids}
    if op.arity == 1:
        return [(i,) for i in ids if _safe(op.pred, arr[i])]
    if op.arity == 2:
        return [(i, j) for i in ids for j in ids if _safe(op.pred, arr[i], arr[j])]
    if op.arity == 3:
        out = []
        for c in ids:
            if dn(arr[c]) != "bool":
                continue
            for i in ids:
                for j in ids:
                    if _safe(op.pred, arr[c], arr[i], arr[j]):
                        out.append((c, i, j))
        return out[:60]
    if op.arity == "list":
        out = []
        for i in ids:
            for j in ids:
                if _safe(op.pred, arr[i], arr[j]):
                    out.append((i, j))
                    for k in ids[-4:]:
                        if _safe(op.pred, arr[i], arr[j], arr[k]):
                            out.append((i, j, k))
        return out[:80]
    return []


def _safe(pred, *a):
    try:
        return bool(pred(*a))
    except Exception:
        return False


def programs(profile="dag", max_ops=6, min_ops=0, n_inputs=(1, 3), opts=None, outputs=(1, 3)):
    from hypothesis import strategies as st

    opts = dict(opts or {})
    names = [n for n in weighted_names(profile) if n not in opts.get("exclude_ops", ())]
    if opts.get("only_ops"):
        names = [n for n in names if n in opts["only_ops"]]
    if opts.get("store_mid"):
        # lazy store results used as ordinary nodes (about one operation in twelve, or in opts["store_mid"] when that is a number)
        k = 12 if opts["store_mid"] is True else int(opts["store_mid"])
        names = sorted(names + ["store_lazy"] * max(1, len(names) // k))
    if opts.get("rotate") and names:
        r = opts["rotate"] % len(names)
        names = names[r:] + names[:r]  # Hypothesis favours early list positions in its first examples

    @st.composite
    def strat(draw):
        nin = draw(st.integers(*n_inputs))
        inputs = []
        for k in range(nin):
            inputs.append(draw_input(draw, st, k, inputs, opts))
        vals = [input_val(i) for i in inputs]
        nodes = []
        nops = draw(st.integers(min_ops, max_ops))
        for _ in range(nops):
            for attempt in range(5):
                name = draw(st.sampled_from(names))
                op = OPS[name]
                if name in ("blocks", "map_blocks", "map_overlap"):
                    ids = [i for i, v in enumerate(vals) if not v.is_tuple and known_chunks(inputs, nodes, i) is not None and _safe(op.pred or (lambda a: True), v.v)]
                    if name == "map_blocks":
                        ids = [i for i in ids if dn(vals[i].v) in ("int64", "float64")]
                    if not ids:
                        continue
                    a = draw(st.sampled_from(ids))
                    ch = known_chunks(inputs, nodes, a)
                    args = (a,)
                    if name == "map_overlap":
                        depth = draw(st.integers(1, 2))
                        # chunks (incl. the last, shorter one) smaller than the depth are a recorded finding (no validation)
                        sh = vals[a].v.shape
                        if any(min(c, (s % c) or c) < depth for s, c in zip(sh, ch)):
                            GEN_STATS["known-region-excluded"] += 1
                            continue
                        params = {"chunks": ch, "depth": depth, "boundary": draw(st.sampled_from([0, 5]))}
                    elif name == "blocks":
                        from vp.grid import numblocks

                        nb = numblocks(vals[a].v.shape, ch)
                        params = {"chunks": ch, "key": [draw(st.integers(0, n - 1)) for n in nb]}
                    else:
                        params = {"chunks": ch, "bid": draw(st.booleans()), "k": draw(st.integers(1, 3))}
                else:
                    cand = candidates(op, vals)
                    if not cand:
                        continue
                    args = draw(st.sampled_from(cand))
                    params = op.params(draw, st, [vals[i].v for i in args])
                    if params is None:
                        continue
                argvals = [vals[i] for i in args]
                try:
                    with np.errstate(all="ignore"), warnings.catch_warnings():
                        warnings.simplefilter("ignore")
                        v = op.ref([a.v for a in argvals], params)
                except Exception as e:
                    GEN_STATS["known-region-excluded" if str(e).startswith("KNOWN") else "numpy-invalid-draw"] += 1
                    continue
                if isinstance(v, tuple):
                    if len(v) == 0 or any(np.asarray(x).size > MAX_ELEMS for x in v):
                        continue
                else:
                    v = np.asarray(v)
                    if v.size > MAX_ELEMS:
                        continue
                nodes.append({"op": name, "args": list(args), "params": params})
                vals.append(derive_meta(op, name, argvals, params, v))
                if isinstance(v, tuple):
                    tid = len(vals) - 1
                    ks = draw(st.lists(st.integers(0, len(v) - 1), min_size=1, max_size=min(2, len(v)), unique=True))
                    for kk in ks:
                        nodes.append({"op": "pick", "args": [tid], "params": {"k": kk}})
                        vals.append(derive_meta(OPS["pick"], "pick", [vals[tid]], {"k": kk}, np.asarray(v[kk])))
                break
        arr_ids = [i for i, v in enumerate(vals) if not v.is_tuple]
        nout = draw(st.integers(outputs[0], min(outputs[1], len(arr_ids))))
        # prefer late nodes: the last node is always requested
        outs = {arr_ids[-1]}
        while len(outs) < nout:
            outs.add(draw(st.sampled_from(arr_ids)))
        prog = {"inputs": inputs, "nodes": nodes, "outputs": sorted(outs)}
        return prog

    return strat()


# --------------------------------------------------------------------------- classification helpers
def prog_labels(prog, vals=None):
    labs = set()
    for n in prog["nodes"]:
        labs.add("op:" + n["op"])
    for i in prog["inputs"]:
        labs.add("in:" + i["kind"])
        labs.add("dt:" + i["dtype"])
        labs.add(f"nd{len(i['shape'])}")
        if 0 in i["shape"]:
            labs.add("size0")
        sh, ch = i["shape"], normalize_chunksize(i["shape"], i["chunks"])
        if any(s > c for s, c in zip(sh, ch)):
            labs.add("multi-block-input")
        if any(s % c for s, c in zip(sh, ch) if s > c):
            labs.add("uneven-last-chunk")
        if any(c == 1 and s > 1 for s, c in zip(sh, ch)):
            labs.add("single-element-chunks")
    labs.add(f"nops={min(len(prog['nodes']), 8)}")
    labs.add(f"nout={len(prog['outputs'])}")
    return labs


def multi_block(prog):
    for i in prog["inputs"]:
        ch = normalize_chunksize(i["shape"], i["chunks"])
        if any(s > c for s, c in zip(i["shape"], ch)):
            return True
    return any(n["op"] == "rechunk" for n in prog["nodes"])
