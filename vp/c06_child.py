"""Executes one cloudpickled task (function, input, config) in a fresh interpreter (C06 placement independence)."""
import sys

import vp  # noqa: F401


def main():
    import cloudpickle

    with open(sys.argv[1], "rb") as f:
        fn, m, cfg = cloudpickle.loads(f.read())
    fn(m, config=cfg)


if __name__ == "__main__":
    main()
