"""C01 — computed values equal NumPy's for every expression, chunking and executor.
Also hosts the shared case runner used by C17 (phase / exception classification)."""
from __future__ import annotations

import shutil
import sys
import tempfile
import warnings

import numpy as np

import vp  # noqa
from vp import core, prog as P
from vp.core import Acc, Failure, Outcome
from vp.ir import OPS

ID = "C01"
LEVEL = "exploration"
RULE = (
    "Hypothesis builds programs constructively: 1-3 inputs (asarray/from_array/from_zarr/full/ones/zeros/arange/linspace/eye; "
    "0-4 dims, sides 0-12, every array-API dtype, independently drawn chunkings incl. single-element and uneven last chunks, "
    "related shapes so multi-input ops apply), then 0-6 operations drawn from a table of 160 public functions/operators with "
    "parameters derived from the argument shapes; 1-3 requested outputs (DAG sharing allowed). Each program runs under a drawn "
    "executor (schedule-permuting sequential, single-threaded, threads, processes) with optimize_graph on/off and is compared "
    "output by output with the same program evaluated by NumPy (exact equality when bit-identical results are guaranteed, "
    "stated tolerances for reassociating float ops, validity predicates for factorizations). Non-trivial = some input or "
    "rechunk on the path has >= 2 blocks, output size >= 1, cubed accepted the program; distinct = canonical JSON of program+config."
)
ASSUMPTIONS = [
    "NumPy 2.x is the reference (array-API-named functions); dtype is not compared (promotion rules differ by design), C12 checks declared dtype",
    "float comparisons: exact when results are exactly representable, else rtol 1e-9 (f64) / 1e-4 (f32), var/std 1e-7/1e-3",
    "regions of recorded known findings are kept out of generation by construction and probed by corpus cases",
]

EXECUTORS = ["schedule"] * 12 + ["single-threaded"] * 3 + ["threads"] * 4


def case_strategy(profile="dag", opts=None, max_ops=6, executors=None, allow_processes=False, min_ops=0, force=None):
    from hypothesis import strategies as st

    ex = list(executors or EXECUTORS)

    @st.composite
    def cases(draw):
        prog = draw(P.programs(profile, max_ops=max_ops, min_ops=min_ops, opts=opts))
        e = draw(st.sampled_from(ex))
        if allow_processes and draw(st.integers(0, 49)) == 0:
            e = "processes"
        case = {
            "kind": "program",
            "prog": prog,
            "executor": e,
            "optimize": draw(st.booleans()),
            "perm_seed": draw(st.integers(0, 10**6)),
        }
        if e in ("threads", "processes"):
            # executor options: batching and parallel generations change how tasks are submitted
            case["exec_opts"] = {"batch_size": draw(st.sampled_from([None, None, 1, 2, 3])), "compute_arrays_in_parallel": draw(st.booleans())}
        if force:
            # a shard may pin options (e.g. several batches per operation on the processes executor, unoptimized plans)
            if "optimize" in force:
                case["optimize"] = force["optimize"]
            if "batch" in force and "exec_opts" in case:
                case["exec_opts"]["batch_size"] = draw(st.sampled_from(force["batch"]))
        return case

    return cases()


class Scratch:
    """Per-process scratch directory for LocalStore-backed runs (processes executor)."""

    _dir = None

    @classmethod
    def dir(cls):
        if cls._dir is None:
            cls._dir = tempfile.mkdtemp(prefix="vp-")
            import atexit

            atexit.register(shutil.rmtree, cls._dir, ignore_errors=True)
        return cls._dir

    @classmethod
    def fresh(cls, prefix="w"):
        return tempfile.mkdtemp(prefix=prefix, dir=cls.dir())


def make_spec(executor_name, allowed_mem=2_000_000_000, **kw):
    import cubed
    from zarr.storage import MemoryStore

    if executor_name == "processes":
        return cubed.Spec(work_dir=Scratch.fresh(), allowed_mem=allowed_mem, reserved_mem=0, **kw)
    return cubed.Spec(intermediate_store=MemoryStore(), allowed_mem=allowed_mem, reserved_mem=0, **kw)


def run_case(case):
    """-> (vals, rr): NumPy values (with comparison metadata) and the cubed RunResult."""
    from vp import harness as H

    prog = case["prog"]
    vals = P.eval_numpy(prog)
    ename = case.get("executor", "schedule")
    spec = make_spec(ename)
    if ename == "schedule":
        ex = H.ScheduleExecutor(H.Schedule(perm_seed=case.get("perm_seed")))
    else:
        eo = {k: v for k, v in (case.get("exec_opts") or {}).items() if v is not None}
        ex = H.make_executor(ename, max_workers=2, **eo)
    ctx = None
    if ename == "processes":
        from zarr.storage import LocalStore

        ctx = P.BuildCtx(lambda: LocalStore(Scratch.fresh("in")))
    rr = H.run_program(prog, spec, executor=ex, optimize_graph=case.get("optimize", True), ctx=ctx)
    if ename == "processes":
        try:
            shutil.rmtree(spec.work_dir, ignore_errors=True)
        except Exception:
            pass
    return vals, rr


def culprit(case, vals):
    """Earliest node whose own value is wrong: recompute every array node unoptimized, sequentially."""
    from vp import harness as H

    prog = case["prog"]
    ids = [i for i, v in enumerate(vals) if not v.is_tuple]
    try:
        spec = make_spec("single-threaded")
        rr = H.run_program(prog, spec, executor=H.make_executor("single-threaded"), optimize_graph=False, outputs=ids)
        if rr.phase is not None:
            return None
        nin = len(prog["inputs"])
        for i, got in zip(ids, rr.results):
            if P.compare(got, vals[i]) is not None:
                return ("input:" + prog["inputs"][i]["kind"]) if i < nin else prog["nodes"][i - nin]["op"]
    except Exception:
        return None
    return None


def check_case(case) -> Outcome:
    prog = case["prog"]
    labels = set(P.prog_labels(prog))
    labels.add("exec:" + case.get("executor", "schedule"))
    labels.add("optimize:" + str(case.get("optimize", True)))
    vals, rr = run_case(case)
    if rr.phase is not None:
        labels.add(f"declined:{rr.phase}:{rr.exc_type}")
        return Outcome(nontrivial=False, labels=tuple(labels))
    fails = []
    for oid, got in zip(prog["outputs"], rr.results):
        msg = P.compare(got, vals[oid])
        if msg is not None:
            c = culprit(case, vals)
            nin = len(prog["inputs"])
            outop = prog["nodes"][oid - nin]["op"] if oid >= nin else "input"
            if c is None:
                bucket = f"value:only-under-config:{outop}:opt={case.get('optimize')}:exec={case.get('executor')}"
            else:
                bucket = f"value:{c}"
            fails.append(Failure(bucket, f"output node {oid} ({outop}): {msg}"))
            break
    if not any(vals[o].comparable for o in prog["outputs"]):
        labels.add("outputs-shape-only")
    nt = P.multi_block(prog) and any(np.asarray(vals[o].v).size >= 1 for o in prog["outputs"])
    return Outcome(nontrivial=nt, labels=tuple(labels), failures=tuple(fails))


FOCUS = {
    # op-family focus shards: short programs whose operations come from one family (dense coverage of its parameter space)
    "selection": ("selection", "index"),
    "reduction": ("reduction", "scan"),
    "manip": ("manip", "multi", "multi-output", "pick"),
    "linalg-chunk": ("linalg", "contraction", "chunk", "creation", "search", "misc"),
}


def focus_ops(fam):
    tags = set(FOCUS[fam])
    return sorted(n for n, o in OPS.items() if tags & set(o.tags)) + ["pick"]


def shards(tier):
    if tier == "quick":
        return [{"kind": "program", "name": f"dag{i}", "n": 110, "profile": "dag", "rotate": i * 23} for i in range(6)] + [
            {"kind": "program", "name": f"focus-{fam}", "n": 120, "profile": "dag", "rotate": 3 + j * 17, "focus": fam, "max_ops": 2} for j, fam in enumerate(FOCUS)] + [
            {"kind": "sweep", "name": f"sweep{i}", "part": i, "of": 4, "per": 5} for i in range(4)] + [
            {"kind": "program", "name": "proc", "n": 8, "profile": "dag", "executors": ["processes"], "max_ops": 3, "rotate": 5},
            {"kind": "program", "name": "proc-batch", "n": 14, "profile": "fusion-rich", "executors": ["processes"], "max_ops": 3, "min_ops": 2, "rotate": 8,
             "force": {"optimize": False, "batch": [1, 2]}},
        ]
    out = [{"kind": "program", "name": f"dag{i}", "n": 2600, "profile": "dag", "rotate": i * 11} for i in range(13)]
    out += [{"kind": "program", "name": f"focus-{fam}-{i}", "n": 2500, "profile": "dag", "rotate": 3 + j * 17 + i * 29, "focus": fam, "max_ops": 2} for j, fam in enumerate(FOCUS) for i in range(2)]
    out += [{"kind": "sweep", "name": f"sweep{i}", "part": i, "of": 8, "per": 120} for i in range(8)]
    out += [{"kind": "program", "name": "proc", "n": 150, "profile": "dag", "executors": ["processes"], "max_ops": 3, "rotate": 3},
            {"kind": "program", "name": "proc-batch", "n": 150, "profile": "fusion-rich", "executors": ["processes"], "max_ops": 3, "min_ops": 2, "rotate": 8,
             "force": {"optimize": False, "batch": [1, 2]}}]
    return out


def run_shard(spec, seed, tier) -> Acc:
    acc = Acc()
    if spec["kind"] == "__corpus__":
        return core.corpus_shard(sys.modules[__name__], acc)
    is_known, _ = core.known_matcher(ID)
    opts = {"rotate": spec.get("rotate", 0)}
    if spec.get("focus"):
        opts["only_ops"] = focus_ops(spec["focus"])
    if spec["kind"] == "sweep":
        # every operation of the op table is visited in every run: `per` one- or two-operation programs whose operations are that
        # operation (its parameters, input shapes, chunkings and dtypes drawn) plus cheap fillers that provide suitable operands
        names = sorted(set(P.weighted_names("dag")))[spec["part"]::spec["of"]]
        for j, nm in enumerate(names):
            o = dict(opts, only_ops=[nm, "pick"], rotate=0)
            core.hyp_run(case_strategy("dag", opts=o, max_ops=2, min_ops=1), check_case, seed=seed + j, max_examples=spec["per"], acc=acc,
                         budget_s=60 if tier == "quick" else 900, shrink=False, is_known=is_known)
        acc.extra["generation"] = dict(P.GEN_STATS)
        return acc
    strat = case_strategy(spec.get("profile", "dag"), opts=opts, max_ops=spec.get("max_ops", 6), executors=spec.get("executors"), min_ops=spec.get("min_ops", 0), force=spec.get("force"))
    core.hyp_run(strat, check_case, seed=seed, max_examples=spec["n"], acc=acc, budget_s=420 if tier == "quick" else 3000,
                 shrink=(tier == "thorough"), is_known=is_known)
    acc.extra["generation"] = dict(P.GEN_STATS)
    from vp import ir

    acc.extra["api_coverage"] = ir.api_coverage()
    return acc


def replay(case):
    return check_case(case).all_failures()
