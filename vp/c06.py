"""C06 — tasks are idempotent and independent of order, repetition and placement."""
from __future__ import annotations

import os
import shutil
import subprocess
import sys
import warnings

import numpy as np

import vp  # noqa
from vp import c01, core, prog as P
from vp.core import Acc, Failure, Outcome

ID = "C06"
LEVEL = "exploration"
RULE = (
    "Programs from the shared generator, each with a cubed.random.random input added in half of the cases. Reference run R: "
    "schedule-owning executor, natural task order, then a snapshot of every key of the store. Variant run V of the SAME plan on the "
    "emptied store: per-operation task permutation, a drawn multiset of duplicated task executions (immediately / after the "
    "operation finished / after all downstream operations finished — including the array-creation tasks), and execution mode in "
    "{direct, cloudpickle round trip in-process, fresh interpreter per task (sampled)}. Oracle: (a) every chunk key of every array "
    "holds the same bytes after V as after R and the returned results are equal (and equal NumPy where an oracle exists); (b) all "
    "sets of one key within V carry identical bytes; (c) random arrays: values in [0,1), different blocks of one array differ and share no value (streams do not overlap), two "
    "random arrays of one program differ; a separate family draws cubed.random.random geometries of 1-4 dimensions directly (every task "
    "duplicated, permuted order, float64 streams of distinct blocks share no value). Non-trivial = a duplicate ran after a downstream operation, or an operation with >= 3 "
    "tasks was permuted, or tasks ran from their serialized form; distinct = canonical JSON."
)
ASSUMPTIONS = [
    "duplicates are re-executions of tasks whose first run completed; two copies writing the same key concurrently are not raced (byte-level atomicity of one set is the store's contract)",
    "pickled / out-of-process execution uses a LocalStore directory because an in-memory store is copied by pickling",
]

TIMINGS = ["now", "after-op", "end"]


def case_strategy(opts=None, max_ops=5, modes=("direct", "direct", "direct", "pickle")):
    from hypothesis import strategies as st

    @st.composite
    def cases(draw):
        o = dict(opts or {})
        if draw(st.booleans()):
            o["input_kinds"] = ["asarray"] * 4 + ["from_array", "from_zarr", "full", "arange", "random", "random", "random"]
        prog = draw(P.programs("dag", max_ops=max_ops, min_ops=1, opts=o))
        ndups = draw(st.integers(0, 4))
        dups = [[draw(st.integers(0, 999)), draw(st.integers(0, 999)), draw(st.sampled_from(TIMINGS))] for _ in range(ndups)]
        return {
            "kind": "program",
            "prog": prog,
            "optimize": draw(st.booleans()),
            "perm_seed": draw(st.integers(0, 10**6)),
            "dups": dups,
            "mode": draw(st.sampled_from(list(modes))),
        }

    return cases()


def _snapshot_mem(store):
    return {k: v.to_bytes() for k, v in store._store_dict.items()}


def _snapshot_dir(path):
    out = {}
    for root, _, files in os.walk(path):
        for f in files:
            p = os.path.join(root, f)
            out[os.path.relpath(p, path)] = open(p, "rb").read()
    return out


class SubprocessCaller:
    """Runs one task in a fresh interpreter from its cloudpickled form."""

    def __init__(self, workdir, max_external=4):
        self.workdir = workdir
        self.n = 0
        self.calls = 0
        self.max_external = max_external

    def __call__(self, fn, m, cfg):
        import cloudpickle

        self.calls += 1
        if self.n >= self.max_external or self.calls % 2 == 0:
            # the remaining tasks run from their serialized form in this process
            fn2, m2, cfg2 = cloudpickle.loads(cloudpickle.dumps((fn, m, cfg)))
            return fn2(m2, config=cfg2)
        self.n += 1
        p = os.path.join(self.workdir, f"task{self.n}.pkl")
        with open(p, "wb") as f:
            f.write(cloudpickle.dumps((fn, m, cfg)))
        r = subprocess.run([sys.executable, "-m", "vp.c06_child", p], capture_output=True, text=True, env=dict(os.environ), timeout=300)
        if r.returncode != 0:
            raise RuntimeError("child failed: " + r.stderr[-800:])


def check_case(case) -> Outcome:
    import cubed
    from zarr.storage import LocalStore, MemoryStore

    from vp import harness as H

    prog = case["prog"]
    mode = case.get("mode", "direct")
    labels = {f"mode:{mode}", "optimize:" + str(case.get("optimize"))}
    labels |= {l for l in P.prog_labels(prog) if l.startswith(("in:random", "nops"))}
    vals = P.eval_numpy(prog)
    fails = []
    local = mode != "direct"
    workdir = c01.Scratch.fresh("c06") if local else None
    try:
        if local:
            store = LocalStore(os.path.join(workdir, "store"))
            ts = None
            spec = cubed.Spec(intermediate_store=store, allowed_mem=2_000_000_000, reserved_mem=0)
            ctx = P.BuildCtx(lambda: LocalStore(os.path.join(workdir, "inputs")))
        else:
            ts = H.TraceStore(MemoryStore())
            spec = cubed.Spec(intermediate_store=ts, allowed_mem=2_000_000_000, reserved_mem=0)
            ctx = None
        with warnings.catch_warnings():
            warnings.simplefilter("ignore")
            try:
                arrs = P.build_cubed(prog, spec, ctx)
                outs = [arrs[i] for i in prog["outputs"]]
                fp = cubed.plan(*outs, optimize_graph=case.get("optimize", True))
                fp.validate()
                exR = H.ScheduleExecutor(H.Schedule())
                resR = cubed.compute(*outs, executor=exR, optimize_graph=case.get("optimize", True))
            except Exception as e:
                labels.add(f"declined-or-failed:{type(e).__name__}")
                return Outcome(labels=tuple(labels))
            resR = [np.asarray(r) for r in resR]
            if local:
                snapR = _snapshot_dir(os.path.join(workdir, "store"))
                shutil.rmtree(os.path.join(workdir, "store"), ignore_errors=True)
            else:
                snapR = _snapshot_mem(ts._store)
                ts._store._store_dict.clear()
                ts.state.clear()
            sched = H.Schedule(perm_seed=case.get("perm_seed"), dup_list=[tuple(d) for d in case.get("dups", [])],
                               pickle_mode="roundtrip" if mode == "pickle" else None)
            exV = H.ScheduleExecutor(sched)
            if mode == "subprocess":
                exV.external_call = SubprocessCaller(workdir)
            try:
                resV = cubed.compute(*outs, executor=exV, optimize_graph=case.get("optimize", True))
            except Exception as e:
                fails.append(Failure(f"variant-run-failed:{type(e).__name__}", f"{mode}: {e!r}"[:400]))
                return Outcome(nontrivial=True, labels=tuple(labels), failures=tuple(fails))
            resV = [np.asarray(r) for r in resV]
            snapV = _snapshot_dir(os.path.join(workdir, "store")) if local else _snapshot_mem(ts._store)
        # (a) store contents
        if set(snapR) != set(snapV):
            d = sorted(set(snapR) ^ set(snapV))[:4]
            fails.append(Failure("store-keys-differ", f"keys only in one run: {d}"))
        else:
            for k in sorted(snapR):
                if snapR[k] != snapV[k]:
                    fails.append(Failure("store-bytes-differ:" + ("meta" if k.endswith("zarr.json") else "chunk"), f"{k} differs between reference and variant schedule"))
                    break
        for oid, a, b in zip(prog["outputs"], resR, resV):
            if a.shape != b.shape or not np.array_equal(a, b, equal_nan=True):
                fails.append(Failure("result-differs", f"output {oid} differs between schedules"))
                break
            msg = P.compare(a, vals[oid])
            if msg is not None:
                labels.add("numpy-mismatch(C01's business)")
        # (b) rewritten bytes identical
        nrew = 0
        if ts is not None:
            byk = {}
            for (seq, op, key, task, info, _t) in ts.state.log:
                if op == "set" and H.is_chunk_key(key):
                    byk.setdefault(key, set()).add(info)
                    nrew += 1
            for k, hs in byk.items():
                if len(hs) > 1:
                    fails.append(Failure("rewrite-bytes-differ", f"{k} was written with {len(hs)} different contents within one run"))
                    break
        # (c) random arrays
        rnd_ids = [i for i, inp in enumerate(prog["inputs"]) if inp["kind"] == "random"]
        if rnd_ids:
            try:
                rv = cubed.compute(*[arrs[i] for i in rnd_ids], executor=H.ScheduleExecutor(H.Schedule()), optimize_graph=False)
                rv = [np.asarray(x) for x in rv]
                from vp.grid import all_blocks, block_slices

                for i, x in zip(rnd_ids, rv):
                    if x.size and not ((x >= 0).all() and (x < 1).all()):
                        fails.append(Failure("random-out-of-range", f"input {i}"))
                    ch = P.normalize_chunksize(prog["inputs"][i]["shape"], prog["inputs"][i]["chunks"])
                    blocks = [x[block_slices(x.shape, ch, c)] for c in all_blocks(x.shape, ch)]
                    big = [b for b in blocks if b.size >= 8]
                    for a_ in range(len(big)):
                        for b_ in range(a_ + 1, len(big)):
                            if big[a_].shape == big[b_].shape and np.array_equal(big[a_], big[b_]):
                                fails.append(Failure("random-blocks-identical", f"input {i}: two blocks of one random array are identical"))
                                break
                    # distinct streams do not overlap: a float64 draw has 53 random bits, so among <= 10^4 values a coincidental
                    # repeat has probability < 1e-8; a value occurring in two blocks means their streams share a stretch
                    if x.dtype == np.float64 and 1 < x.size <= 10000:
                        owner = {}
                        for c, b in zip(all_blocks(x.shape, ch), blocks):
                            for v_ in np.unique(b).tolist():
                                if v_ in owner and owner[v_] != c:
                                    fails.append(Failure("random-streams-overlap", f"input {i}: value {v_!r} occurs in blocks {owner[v_]} and {c}"))
                                    break
                                owner[v_] = c
                            else:
                                continue
                            break
                for a_ in range(len(rv)):
                    for b_ in range(a_ + 1, len(rv)):
                        if rv[a_].dtype == np.float64 and rv[a_].size * rv[b_].size and rv[a_].size + rv[b_].size <= 10000 and np.intersect1d(rv[a_], rv[b_]).size:
                            fails.append(Failure("random-streams-overlap", "two random arrays of one program share values"))
                        if rv[a_].shape == rv[b_].shape and rv[a_].size >= 8 and np.array_equal(rv[a_], rv[b_]):
                            fails.append(Failure("random-arrays-identical", "two random arrays of one program are identical"))
                labels.add("random-checked")
            except Exception as e:
                labels.add(f"random-check-skipped:{type(e).__name__}")
        dup_tags = [t for (_, t) in exV.tasks_run if "#dup" in t]
        if any("#dup-end" in t for t in dup_tags):
            labels.add("dup-after-downstream")
        if dup_tags:
            labels.add("has-duplicates")
        nt = bool(dup_tags) or mode != "direct" or len(exV.tasks_run) >= 4
        seen, uniq = set(), []
        for f in fails:
            if f.bucket not in seen:
                seen.add(f.bucket)
                uniq.append(f)
        return Outcome(nontrivial=nt, labels=tuple(labels), failures=tuple(uniq))
    finally:
        if workdir:
            shutil.rmtree(workdir, ignore_errors=True)


def check_shipped(case) -> Outcome:
    """serialized-and-shipped execution on the real processes executor (tasks submitted in batches, optionally with backup
    tasks) gives the same results as in-process execution of the same unoptimized plan"""
    prog = case["prog"]
    labels = set(P.prog_labels(prog)) | {"mode:shipped-real-processes", f"batch={case['exec_opts'].get('batch_size')}", f"backups={case['exec_opts'].get('use_backups')}"}
    ref_case = dict(case, executor="schedule", exec_opts=None)
    _, r0 = c01.run_case(ref_case)
    if r0.phase is not None:
        labels.add(f"declined:{r0.phase}:{r0.exc_type}")
        return Outcome(labels=tuple(labels))
    _, r1 = c01.run_case(case)
    fails = []
    if r1.phase is not None:
        fails.append(Failure(f"shipped-run-failed:{r1.exc_type}", f"in-process run succeeded; processes executor with {case['exec_opts']}: {r1.phase} {r1.exc_type} {str(r1.exc)[:200]}"))
    else:
        for oid, a, b in zip(prog["outputs"], r0.results, r1.results):
            a, b = np.asarray(a), np.asarray(b)
            if a.shape != b.shape or a.dtype != b.dtype or not np.array_equal(a, b, equal_nan=(a.dtype.kind in "fc")):
                nin = len(prog["inputs"])
                outop = prog["nodes"][oid - nin]["op"] if oid >= nin else "input"
                fails.append(Failure("shipped-result-differs", f"output node {oid} ({outop}) differs between in-process and shipped execution ({case['exec_opts']})"))
                break
    ntasks = sum(1 for _ in r1.plan.dag.nodes()) if getattr(r1, "plan", None) is not None else 0
    return Outcome(nontrivial=P.multi_block(prog), labels=tuple(labels), failures=tuple(fails))


def shipped_cases(opts):
    from hypothesis import strategies as st

    @st.composite
    def cases(draw):
        prog = draw(P.programs("fusion-rich", max_ops=3, min_ops=2, opts=opts))
        return {"kind": "shipped", "prog": prog, "executor": "processes", "optimize": False, "perm_seed": draw(st.integers(0, 10**6)),
                "exec_opts": {"batch_size": draw(st.sampled_from([1, 2, 2, 3])), "use_backups": draw(st.sampled_from([None, None, True])),
                              "compute_arrays_in_parallel": draw(st.booleans())}}

    return cases()


def random_cases():
    from hypothesis import strategies as st

    @st.composite
    def cases(draw):
        nd = draw(st.sampled_from([1, 2, 2, 3, 3, 4, 4, 4]))
        shape = [draw(st.integers(2, 7 if nd < 4 else 5)) for _ in range(nd)]
        chunks = [draw(st.integers(1, max(1, n - 1))) if draw(st.integers(0, 3)) else n for n in shape]
        return {"kind": "random", "shape": shape, "chunks": chunks, "dtype": draw(st.sampled_from(["float64", "float64", "float32"])),
                "perm_seed": draw(st.integers(0, 10**6)), "post": draw(st.sampled_from([None, "negative", "sum0"]))}

    return cases()


def check_random(case) -> Outcome:
    """cubed.random.random over 1-4 dimensional block grids: a block regenerates identically when its task runs again (other
    order, after downstream operations), values lie in [0,1), and no value occurs in two blocks (float64: streams of distinct
    blocks do not overlap)."""
    import cubed
    import cubed.random
    from zarr.storage import MemoryStore

    from vp import harness as H
    from vp.grid import all_blocks, block_slices

    shape, chunks = tuple(case["shape"]), tuple(case["chunks"])
    labels = {f"random-ndim={len(shape)}", f"random-dtype={case['dtype']}"}
    fails = []
    spec = cubed.Spec(intermediate_store=MemoryStore(), allowed_mem=2_000_000_000, reserved_mem=0)
    with warnings.catch_warnings():
        warnings.simplefilter("ignore")
        import cubed.array_api as xp

        try:
            r = cubed.random.random(shape, dtype=getattr(xp, case["dtype"]), chunks=chunks, spec=spec)
            out = r if case["post"] is None else (xp.negative(r) if case["post"] == "negative" else xp.sum(r, axis=0))
            x1, o1 = [np.asarray(v) for v in cubed.compute(r, out, executor=H.ScheduleExecutor(H.Schedule()), optimize_graph=False)]
        except Exception as e:
            return Outcome(nontrivial=True, labels=tuple(labels), failures=(Failure(f"random-failed:{type(e).__name__}", f"{shape} chunks {chunks}: {e!r}"[:300]),))
        # the same array object computed again: permuted order, every task of the random op duplicated at the end
        spec.intermediate_store._store_dict.clear() if hasattr(spec.intermediate_store, "_store_dict") else None
        sched = H.Schedule(perm_seed=case["perm_seed"], dup_list=[(0, k, "end") for k in range(4)] + [(1, k, "now") for k in range(2)])
        x2, o2 = [np.asarray(v) for v in cubed.compute(r, out, executor=H.ScheduleExecutor(sched), optimize_graph=False)]
    if not np.array_equal(x1, x2) or not np.array_equal(o1, o2, equal_nan=True):
        fails.append(Failure("random-not-regenerated", f"{shape} chunks {chunks}: recomputing the same random array (permuted order, duplicated tasks) gave other values"))
    if x1.shape != shape:
        fails.append(Failure("random-shape", f"{x1.shape} != {shape}"))
    if x1.size and not ((x1 >= 0).all() and (x1 < 1).all()):
        fails.append(Failure("random-out-of-range", f"{shape}"))
    ch = P.normalize_chunksize(list(shape), list(chunks))
    coords = list(all_blocks(x1.shape, ch))
    blocks = [x1[block_slices(x1.shape, ch, c)] for c in coords]
    labels.add(f"random-blocks={min(len(blocks), 16) // 4 * 4}+")
    if x1.dtype == np.float64:
        owner = {}
        for c, b in zip(coords, blocks):
            hit = None
            for v_ in np.unique(b).tolist():
                if v_ in owner and owner[v_] != c:
                    hit = (v_, owner[v_])
                    break
                owner[v_] = c
            if hit:
                fails.append(Failure("random-streams-overlap", f"shape {shape} chunks {chunks}: value {hit[0]!r} occurs in blocks {hit[1]} and {c}"))
                break
    for a_ in range(len(blocks)):
        for b_ in range(a_ + 1, len(blocks)):
            if blocks[a_].size >= 8 and blocks[a_].shape == blocks[b_].shape and np.array_equal(blocks[a_], blocks[b_]):
                fails.append(Failure("random-blocks-identical", f"shape {shape} chunks {chunks}: blocks {coords[a_]} and {coords[b_]} are identical"))
                break
        else:
            continue
        break
    seen, uniq = set(), []
    for f in fails:
        if f.bucket not in seen:
            seen.add(f.bucket)
            uniq.append(f)
    return Outcome(nontrivial=len(blocks) >= 2, labels=tuple(labels), failures=tuple(uniq))


def shards(tier):
    if tier == "quick":
        return [{"kind": "program", "name": f"s{i}", "n": 70, "rotate": 17 + i * 41} for i in range(6)] + [
            {"kind": "program", "name": "subproc", "n": 3, "rotate": 2, "modes": ["subprocess"], "max_ops": 2}] + [
            {"kind": "shipped", "name": f"shipped{i}", "n": 12, "rotate": 8 + i * 31} for i in range(2)] + [{"kind": "random", "name": "random", "n": 120}]
    return [{"kind": "random", "name": f"random{i}", "n": 1500} for i in range(2)] + [{"kind": "program", "name": f"s{i}", "n": 1200, "rotate": 17 + i * 41} for i in range(14)] + [
        {"kind": "program", "name": f"subproc{i}", "n": 25, "rotate": 2 + i, "modes": ["subprocess"], "max_ops": 2} for i in range(2)] + [
        {"kind": "shipped", "name": f"shipped{i}", "n": 150, "rotate": 8 + i * 31} for i in range(2)]


def run_shard(spec, seed, tier) -> Acc:
    acc = Acc()
    if spec["kind"] == "__corpus__":
        return core.corpus_shard(sys.modules[__name__], acc)
    is_known, _ = core.known_matcher(ID)
    if spec["kind"] == "shipped":
        core.hyp_run(shipped_cases({"rotate": spec.get("rotate", 0), "allow_zero": False}), check_shipped, seed=seed, max_examples=spec["n"], acc=acc,
                     budget_s=420 if tier == "quick" else 3000, shrink=False, is_known=is_known)
        return acc
    if spec["kind"] == "random":
        core.hyp_run(random_cases(), check_random, seed=seed, max_examples=spec["n"], acc=acc, budget_s=420 if tier == "quick" else 3000,
                     shrink=(tier == "thorough"), is_known=is_known)
        return acc
    kw = {}
    if spec.get("modes"):
        kw["modes"] = tuple(spec["modes"])
    core.hyp_run(case_strategy({"rotate": spec.get("rotate", 0), "allow_zero": False}, max_ops=spec.get("max_ops", 5), **kw), check_case, seed=seed,
                 max_examples=spec["n"], acc=acc, budget_s=420 if tier == "quick" else 3000, shrink=(tier == "thorough"), is_known=is_known)
    return acc


def replay(case):
    if case.get("kind") == "random":
        return check_random(case).all_failures()
    if case.get("kind") == "shipped":
        return check_shipped(case).all_failures()
    return check_case(case).all_failures()
