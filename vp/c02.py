"""C02 — graph optimization (operation fusion) never changes any computed value."""
from __future__ import annotations

import sys
import warnings
from functools import partial

import numpy as np

import vp  # noqa
from vp import c01, core, prog as P
from vp.core import Acc, Failure, Outcome

ID = "C02"
LEVEL = "exploration"
RULE = (
    "Programs from the shared generator with the fusion-rich profile (elementwise / reduction / selection chains, diamonds, x op x, "
    "multi-output producers, rechunks), a drawn non-empty set of requested nodes (intermediates included) and a drawn optimizer: "
    "default; multiple_inputs_optimize_dag with max_total_source_arrays in 1..8 and max_total_num_input_blocks in {None,1..40}; "
    "always_fuse / never_fuse = drawn subsets of the operation names of the unoptimized plan; legacy simple_optimize_dag; "
    "fuse_all_optimize_dag; fuse_only_optimize_dag(only_fuse=subset). Oracle (differential): the optimized run returns exactly the "
    "values of the optimize_graph=False run for every requested array (and both agree with NumPy), and every requested array is "
    "materialized: opened from storage with plain zarr it has all chunks and the same values. Non-trivial = the optimized plan has "
    "fewer operations than the unoptimized one; distinct = canonical JSON."
)
ASSUMPTIONS = [
    "forced fusion runs under a large allowed_mem (the memory interplay is C04's); max_total_source_arrays=None is not a supported setting (compared with >)",
]

OPTIMIZERS = ["default", "default", "multi", "multi", "multi", "always-never", "always-never", "simple", "fuse-all", "fuse-only"]


def case_strategy(opts=None, max_ops=6, min_ops=2):
    from hypothesis import strategies as st

    @st.composite
    def cases(draw):
        prog = draw(P.programs(draw(st.sampled_from(["fusion-rich", "fusion-rich", "dag"])), max_ops=max_ops, min_ops=min_ops, opts=opts))
        n = P.node_count(prog)
        opt = draw(st.sampled_from((opts or {}).get("optimizers") or OPTIMIZERS))
        o = {"name": opt}
        if opt == "multi":
            o["msa"] = draw(st.integers(1, 8))
            o["mnib"] = draw(st.one_of(st.none(), st.integers(1, 40)))
        if opt in ("always-never", "fuse-only"):
            o["sel_a"] = draw(st.lists(st.integers(0, 30), max_size=6))
            o["sel_n"] = draw(st.lists(st.integers(0, 30), max_size=4))
        return {
            "kind": "program",
            "prog": prog,
            "requested": _draw_requested(draw, st, prog, n),
            "optimizer": o,
            "perm_seed": draw(st.integers(0, 10**6)),
            "executor": draw(st.sampled_from(["schedule", "schedule", "schedule", "single-threaded", "threads"])),
        }

    return cases()


def ancestors(prog, i):
    nin = len(prog["inputs"])
    out, stack = set(), [i]
    while stack:
        j = stack.pop()
        if j >= nin:
            for a in prog["nodes"][j - nin]["args"]:
                if a not in out:
                    out.add(a)
                    stack.append(a)
    return out


def _draw_requested(draw, st, prog, n):
    """last node only / last node plus some of its ancestors (requested intermediates that feed other requested arrays:
    the case the optimizer's requested-array guard exists for) / arbitrary subset."""
    mode = draw(st.sampled_from(["last", "last+anc", "last+anc", "subset"]))
    last = n - 1
    if mode == "last":
        return [last]
    if mode == "last+anc":
        anc = sorted(a for a in ancestors(prog, last) if a >= len(prog["inputs"]) and prog["nodes"][a - len(prog["inputs"])]["op"] != "pick" or a < len(prog["inputs"]))
        if anc:
            k = draw(st.lists(st.sampled_from(anc), min_size=1, max_size=2, unique=True))
            return sorted(set(k) | {last})
        return [last]
    return sorted(set(draw(st.lists(st.integers(0, n - 1), min_size=1, max_size=3, unique=True))))


def make_optimizer(o, unopt_dag):
    from cubed.core import optimization as opt

    name = o["name"]
    if name == "default":
        return None
    # creation order (numeric suffix: the zero-padded names stop sorting lexicographically after op-999)
    ops = sorted((n for n in unopt_dag.nodes() if isinstance(n, str) and n.startswith("op-")), key=lambda n: int(n.split("-")[1]))

    def pick(sel):
        return [ops[i % len(ops)] for i in sel] if ops else []

    if name == "multi":
        return partial(opt.multiple_inputs_optimize_dag, max_total_source_arrays=o["msa"], max_total_num_input_blocks=o["mnib"])
    if name == "always-never":
        af = pick(o["sel_a"])
        nf = [x for x in pick(o["sel_n"]) if x not in af]
        return partial(opt.multiple_inputs_optimize_dag, always_fuse=af, never_fuse=nf)
    if name == "simple":
        return opt.simple_optimize_dag
    if name == "fuse-all":
        return opt.fuse_all_optimize_dag
    if name == "fuse-only":
        return partial(opt.fuse_only_optimize_dag, only_fuse=pick(o["sel_a"]))
    raise ValueError(name)


def _nops(dag):
    return len([1 for n, d in dag.nodes(data=True) if d.get("type") == "op" and "primitive_op" in d])


def check_case(case) -> Outcome:
    import cubed
    import zarr

    from vp import harness as H

    prog = case["prog"]
    o = case["optimizer"]
    labels = {f"opt:{o['name']}", f"exec:{case['executor']}"}
    vals = P.eval_numpy(prog)
    req = [i for i in case["requested"] if i < len(vals) and not vals[i].is_tuple]
    if not req:
        req = [prog["outputs"][-1]]
    labels.add(f"nreq={len(req)}")
    nin = len(prog["inputs"])
    if any(i != P.node_count(prog) - 1 for i in req):
        labels.add("requested-intermediate")
    spec = c01.make_spec("schedule")
    fails = []
    with warnings.catch_warnings():
        warnings.simplefilter("ignore")
        try:
            arrs = P.build_cubed(prog, spec)
            outs = [arrs[i] for i in req]
            fp0 = cubed.plan(*outs, optimize_graph=False)
            fp0.validate()
        except Exception as e:
            labels.add(f"declined:{type(e).__name__}")
            return Outcome(labels=tuple(labels))
        try:
            ref = cubed.compute(*outs, executor=H.make_executor("single-threaded"), optimize_graph=False)
            ref = [np.asarray(r) for r in ref]
            # the optimized run must materialize everything itself: empty the intermediate store
            spec.intermediate_store._store_dict.clear()
            # ... and the targets of lazy stores inside the program (remember which ones the unoptimized run wrote completely)
            targets = P.store_targets(arrs)
            written_unopt = {}
            for nid, (t, is_path) in targets.items():
                try:
                    z, img = P.read_store_target(t, is_path)
                    written_unopt[nid] = z.nchunks_initialized == z.nchunks and P.compare(img, vals[nid]) is None
                except Exception:
                    written_unopt[nid] = False
                P.clear_target(t, is_path)
            if targets:
                labels.add("store-mid")
        except Exception as e:
            labels.add(f"unoptimized-run-failed:{type(e).__name__}(C17)")
            return Outcome(labels=tuple(labels))
        try:
            optf = make_optimizer(o, fp0.dag)
            kw = {"optimize_graph": True}
            if optf is not None:
                kw["optimize_function"] = optf
            fp1 = cubed.plan(*outs, **kw)
        except Exception as e:
            fails.append(Failure(f"optimizer-raised:{o['name']}:{type(e).__name__}", f"{e!r}"[:300]))
            return Outcome(nontrivial=True, labels=tuple(labels), failures=tuple(fails))
        n0, n1 = _nops(fp0.dag), _nops(fp1.dag)
        fused = n1 < n0
        labels.add("fused" if fused else "not-fused")
        if fused:
            labels.add(f"ops-removed={min(n0 - n1, 5)}")
        try:
            fp1.validate()
        except ValueError:
            labels.add("optimized-plan-over-memory")
            return Outcome(labels=tuple(labels))
        if case["executor"] == "schedule":
            ex = H.ScheduleExecutor(H.Schedule(perm_seed=case.get("perm_seed")))
        else:
            ex = H.make_executor(case["executor"], max_workers=2)
        try:
            got = cubed.compute(*outs, executor=ex, **kw)
            got = [np.asarray(g) for g in got]
        except Exception as e:
            fails.append(Failure(f"optimized-run-failed:{o['name']}:{type(e).__name__}", f"unoptimized run succeeded; optimized: {e!r}"[:400]))
            return Outcome(nontrivial=True, labels=tuple(labels), failures=tuple(fails))
        # a lazy store inside the program that the unoptimized run carried out is carried out by the optimized run too
        # (forced fusion settings, where the caller directs what is fused, are exempt)
        if o["name"] in ("default", "multi", "simple"):
            for nid, (t, is_path) in targets.items():
                if not written_unopt.get(nid):
                    continue
                labels.add("store-mid-target-checked")
                try:
                    z, img = P.read_store_target(t, is_path)
                    ok = z.nchunks_initialized == z.nchunks and P.compare(img, vals[nid]) is None
                except Exception:
                    ok = False
                if not ok:
                    fails.append(Failure(f"store-target-not-written:{o['name']}", f"node {nid} (store_lazy {prog['nodes'][nid - nin]['params']}): target written by the unoptimized run, not by the optimized one"))
                    break
        for i, a, b in zip(req, ref, got):
            opn = ("input:" + prog["inputs"][i]["kind"]) if i < nin else prog["nodes"][i - nin]["op"]
            same = a.shape == b.shape and np.array_equal(a, b, equal_nan=True)
            if not same and a.shape == b.shape and not vals[i].exact:
                # fusion keeps intermediates in memory instead of rounding them to the stored dtype: for results that are not
                # exactly representable the two runs may differ by rounding; judge them with the stated float tolerance
                from vp.ir import Val

                same = P.compare(b, Val(a, exact=False, comparable=vals[i].comparable, rtol=vals[i].rtol, scale=vals[i].scale)) is None
            if not same and a.shape == b.shape and np.asarray(a).dtype.kind in "fc":
                # some operations hand on a block of a wider dtype than the one they declare (nextafter with mixed operands,
                # nanmedian of float32): unfused, the intermediate is rounded to the declared dtype when stored; fused it is not.
                # Both results are correctly rounded evaluations; they may differ by rounding at the narrowest float dtype
                # that occurs among the inputs and nodes of the program.
                kinds = {str(np.asarray(v.v).dtype) for v in vals if not v.is_tuple}
                narrow = bool(kinds & {"float32", "complex64"})
                from vp.ir import Val

                scale = max(vals[i].scale, 1.0)
                tol = Val(a, exact=False, comparable=vals[i].comparable, rtol=1e-5 if narrow else 1e-12, scale=scale)
                if P.compare(b.astype(np.complex64 if narrow and b.dtype.kind == "c" else (np.float32 if narrow else b.dtype)),
                             Val(np.asarray(a).astype(np.complex64 if narrow and a.dtype.kind == "c" else (np.float32 if narrow else a.dtype)), exact=False, comparable=vals[i].comparable, scale=scale)) is None:
                    same = True
                    labels.add("differs-by-intermediate-rounding")
            if not same:
                fails.append(Failure(f"optimized-differs:{o['name']}:{opn}", f"node {i}: optimized result differs from unoptimized ({P._diff_msg(b, a) if a.shape == b.shape else 'shape'})"))
                break
            if P.compare(b, vals[i]) is not None:
                labels.add("numpy-mismatch(C01)")
            # materialized in storage?
            za = getattr(arrs[i], "_zarray", None)
            try:
                from cubed.storage.zarr import LazyZarrArray

                if isinstance(za, LazyZarrArray) and b.size > 0 and b.dtype.names is None:
                    store = za.store
                    inner = getattr(store, "_store", store)
                    try:
                        z = zarr.open_array(store=store, path=za.path, mode="r")
                    except Exception as e:
                        fails.append(Failure(f"not-materialized:{o['name']}", f"requested node {i} ({opn}) has no array in storage after the optimized compute: {type(e).__name__}"))
                        break
                    if z.nchunks_initialized != z.nchunks:
                        fails.append(Failure(f"not-fully-materialized:{o['name']}", f"requested node {i} ({opn}): {z.nchunks_initialized}/{z.nchunks} chunks in storage"))
                        break
                    stored = np.asarray(z[...]) if z.ndim else np.asarray(z[()])
                    if not np.array_equal(stored, b, equal_nan=True):
                        fails.append(Failure(f"stored-differs:{o['name']}", f"requested node {i} ({opn}): stored values differ from the returned ones"))
                        break
            except ImportError:
                pass
    return Outcome(nontrivial=fused, labels=tuple(labels), failures=tuple(fails))


# ------------------------------------------------------------------------------------------------ side inputs
def side_cases():
    from hypothesis import strategies as st

    @st.composite
    def cases(draw):
        nd = draw(st.sampled_from([1, 2, 2]))
        shape = [draw(st.integers(2, 7)) for _ in range(nd)]
        chunks = [draw(st.integers(1, n)) for n in shape]
        return {"kind": "side-input", "shape": shape, "chunks": chunks, "depth": draw(st.integers(0, 3)), "consumer": draw(st.sampled_from(["negative", "add-input", "sum", "none"])),
                "optimizer": draw(st.sampled_from(["default", "default", "fuse-all", "simple", "multiple-inputs"])), "perm_seed": draw(st.integers(0, 10**6)),
                "request_side": draw(st.booleans())}

    return cases()


def _side_build(case, spec):
    """d = consumer(map_blocks(f, a, extra_source_arrays=[y])) where f reads the matching region of y straight from y's storage (a side
    input declared with the extra_source_arrays option of blockwise/map_blocks) and y is computed `depth` operations deep in the
    same plan.  -> (requested arrays, expected NumPy values)"""
    import cubed
    import cubed.array_api as xp

    from cubed.storage.zarr import open_if_lazy_zarr_array

    shape, chunks = tuple(case["shape"]), tuple(case["chunks"])
    an = (np.arange(int(np.prod(shape)), dtype=np.float64).reshape(shape) % 7) + 1
    bn = (np.arange(int(np.prod(shape)), dtype=np.float64).reshape(shape)[::-1] % 5) * 10 + 1
    a = xp.asarray(an, chunks=chunks, spec=spec)
    b = xp.asarray(bn, chunks=chunks, spec=spec)
    s1, s1n = xp.add(a, b), an + bn
    d = case["depth"]
    if d == 0:
        y, yn = s1, s1n
    elif d == 1:
        y, yn = xp.multiply(s1, 2.0), s1n * 2
    elif d == 2:
        y, yn = xp.add(xp.multiply(s1, 2.0), xp.multiply(s1, 3.0)), s1n * 5
    else:
        y, yn = xp.negative(xp.add(xp.multiply(s1, 2.0), xp.multiply(s1, 3.0))), -(s1n * 5)
    yz = y._zarray

    def add_side(block, block_id=None):
        side = open_if_lazy_zarr_array(yz)
        sel = tuple(slice(c * i, min(c * (i + 1), n)) for c, i, n in zip(chunks, block_id, shape))
        return block + side[sel]

    p_, pn = cubed.map_blocks(add_side, a, dtype=a.dtype, extra_source_arrays=[y]), an + yn
    c = case["consumer"]
    if c == "negative":
        out, on = xp.negative(p_), -pn
    elif c == "add-input":
        out, on = xp.add(p_, b), pn + bn
    elif c == "sum":
        out, on = xp.sum(p_, axis=0), pn.sum(axis=0)
    else:
        out, on = p_, pn
    if case["request_side"]:
        return [out, y], [on, yn]
    return [out], [on]


def check_side_input(case) -> Outcome:
    import cubed
    from zarr.storage import MemoryStore

    from vp import harness as H

    labels = {f"side-depth={case['depth']}", f"side-consumer={case['consumer']}", f"optimizer:{case['optimizer']}"}
    fails = []
    runs = {}
    with warnings.catch_warnings():
        warnings.simplefilter("ignore")
        for name in ("unoptimized", "optimized"):
            spec = cubed.Spec(intermediate_store=MemoryStore(), allowed_mem=2_000_000_000, reserved_mem=0)
            try:
                outs, exp = _side_build(case, spec)
                kw = {"optimize_graph": False}
                if name == "optimized":
                    kw = {"optimize_graph": True}
                    if case["optimizer"] != "default":
                        from cubed.core import optimization as opt

                        kw["optimize_function"] = {"fuse-all": opt.fuse_all_optimize_dag, "simple": opt.simple_optimize_dag, "multiple-inputs": opt.multiple_inputs_optimize_dag}[case["optimizer"]]
                runs[name] = [np.asarray(r) for r in cubed.compute(*outs, executor=H.ScheduleExecutor(H.Schedule(perm_seed=case.get("perm_seed"))), **kw)]
            except Exception as e:
                if name == "unoptimized":
                    labels.add(f"declined:{type(e).__name__}")
                    return Outcome(labels=tuple(labels))
                fails.append(Failure(f"side-input:optimized-run-failed:{case['optimizer']}:{type(e).__name__}", f"{case}: {e!r}"[:300]))
                return Outcome(nontrivial=True, labels=tuple(labels), failures=tuple(fails))
    for k, (u, o, e) in enumerate(zip(runs["unoptimized"], runs["optimized"], exp)):
        if u.shape != e.shape or not np.array_equal(u, e):
            labels.add("side-input:unoptimized-differs-from-numpy")  # C01's business; no differential verdict
            return Outcome(labels=tuple(labels))
        if o.shape != u.shape or not np.array_equal(o, u):
            fails.append(Failure(f"side-input:optimized-differs:{case['optimizer']}", f"requested array {k} of {case}: optimized run differs from the unoptimized one"))
            break
    return Outcome(nontrivial=case["depth"] >= 1, labels=tuple(labels), failures=tuple(fails))


def shards(tier):
    if tier == "quick":
        return [{"kind": "program", "name": f"s{i}", "n": 90, "rotate": 7 + i * 43} for i in range(7)] + [
            {"kind": "program", "name": f"store-mid{i}", "n": 90, "rotate": 19 + i * 37, "store_mid": 4} for i in range(2)] + [
            {"kind": "program", "name": f"chains{i}", "n": 90, "rotate": 5 + i * 53, "chains": True, "min_ops": 3} for i in range(2)] + [{"kind": "side-input", "name": "side", "n": 80}]
    return [{"kind": "side-input", "name": f"side{i}", "n": 1500} for i in range(2)] + [{"kind": "program", "name": f"s{i}", "n": 1500, "rotate": 7 + i * 43} for i in range(16)] + [
        {"kind": "program", "name": f"store-mid{i}", "n": 1500, "rotate": 19 + i * 37, "store_mid": 4} for i in range(4)] + [
        {"kind": "program", "name": f"chains{i}", "n": 1500, "rotate": 5 + i * 53, "chains": True, "min_ops": 3} for i in range(4)]


def run_shard(spec, seed, tier) -> Acc:
    acc = Acc()
    if spec["kind"] == "__corpus__":
        return core.corpus_shard(sys.modules[__name__], acc)
    is_known, _ = core.known_matcher(ID)
    if spec["kind"] == "side-input":
        core.hyp_run(side_cases(), check_side_input, seed=seed, max_examples=spec["n"], acc=acc, budget_s=420 if tier == "quick" else 3000,
                     shrink=(tier == "thorough"), is_known=is_known)
        return acc
    opts = {"rotate": spec.get("rotate", 0), "store_mid": spec.get("store_mid", 12)}
    if spec.get("chains"):
        # chains of single-input elementwise operations ending in operations that read a stream of blocks (reductions, scans),
        # under the optimizers that fuse linear chains step by step (the legacy optimizer fuses a fused operation again)
        from vp.ir import OPS

        opts["only_ops"] = sorted(n for n, o in OPS.items() if ({"unary", "reduction", "scan"} & set(o.tags)) and "helper-array" not in o.tags) + ["pick"]
        opts["optimizers"] = ["simple", "simple", "default", "fuse-all"]
        opts.pop("store_mid")
    core.hyp_run(case_strategy(opts, min_ops=spec.get("min_ops", 2)), check_case, seed=seed, max_examples=spec["n"], acc=acc,
                 budget_s=420 if tier == "quick" else 3000, shrink=(tier == "thorough"), is_known=is_known)
    return acc


def replay(case):
    if case.get("kind") == "side-input":
        return check_side_input(case).all_failures()
    return check_case(case).all_failures()
