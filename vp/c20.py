"""C20 — serialized arrays compute the same and are never confused with other arrays."""
from __future__ import annotations

import os
import shutil
import subprocess
import sys
import warnings

import numpy as np

import vp  # noqa
from vp import c01, core, prog as P
from vp.core import Acc, Failure, Outcome
from vp.ir import OPS

ID = "C20"
LEVEL = "exploration"
RULE = (
    "A 'sender' builds a generated program after creating j dummy arrays (so its per-process name counters stand at a drawn value) "
    "and cloudpickles the requested lazy arrays; a 'receiver', which has already created k arrays of its own, unpickles them, "
    "computes each alone and combines them with locally built arrays in drawn roles (left/right operand of add/subtract/where/stack/"
    "concat, two pickled arrays with shared ancestry combined with each other, disjoint ancestry), with and without optimization, "
    "then also plans, rechunks and stores the result. Sender = the same process with its counters reset (emulation, bulk of the cases) "
    "or a fresh interpreter (python -m vp.c20_child; sampled). Oracle: NumPy - the pickled arrays alone and every combination must "
    "equal the NumPy evaluation. Non-trivial = a deserialized array is combined with a locally built one; the sub-class in which the "
    "name ranges of sender and receiver overlap is a recorded known finding and is kept out of the main campaign by construction "
    "(counters are placed in disjoint ranges), with a corpus probe. distinct = canonical JSON."
)
ASSUMPTIONS = [
    "cloudpickle (the pickler cubed ships tasks with) is the closure-capable pickler; sender and receiver run the same cubed version",
    "emulation resets cubed's four module-level name counters; each emulated failure bucket is confirmed with a real subprocess before being reported",
]

COMBOS = ["alone", "add-left", "add-right", "subtract-right", "stack", "concat", "where", "two-pickled", "pickled-with-own-ancestor"]


def set_counters(n):
    import cubed.core.array as A
    import cubed.core.optimization as O
    import cubed.core.plan as Pl
    import cubed.primitive.blockwise as B

    old = (A.sym_counter, Pl.sym_counter, B.sym_counter, O.sym_counter)
    A.sym_counter = n
    Pl.sym_counter = n
    B.sym_counter = n
    O.sym_counter = n
    return old


def restore_counters(old):
    import cubed.core.array as A
    import cubed.core.optimization as O
    import cubed.core.plan as Pl
    import cubed.primitive.blockwise as B

    A.sym_counter, Pl.sym_counter, B.sym_counter, O.sym_counter = old


def case_strategy(opts=None, max_ops=3, modes=("emulated",)):
    from hypothesis import strategies as st

    @st.composite
    def cases(draw):
        o = dict(opts or {})
        o.setdefault("input_kinds", ["asarray"] * 4 + ["from_array", "full", "arange"])
        o["allow_zero"] = False
        o["max_dims"] = 3
        prog = draw(P.programs("dag", max_ops=max_ops, min_ops=1, opts=o))
        overlap = draw(st.booleans()) if o.get("allow_overlap") else False
        if overlap:
            j = draw(st.integers(0, 6))
            k = draw(st.integers(0, 6))
        else:
            # disjoint name ranges by construction
            if draw(st.booleans()):
                j, k = draw(st.integers(0, 5)), draw(st.integers(400, 405))
            else:
                j, k = draw(st.integers(400, 405)), draw(st.integers(0, 5))
        return {
            "kind": "pickle",
            "prog": prog,
            "sender_counter": j,
            "receiver_counter": k,
            "local_arrays": draw(st.integers(0, 4)),
            "combo": draw(st.sampled_from(COMBOS)),
            "optimize": draw(st.booleans()),
            "mode": draw(st.sampled_from(list(modes))),
            # histories that touch lazily cached state of the Spec / arrays on one side only
            "sender_computes": draw(st.booleans()),
            "explicit_executor": draw(st.booleans()),
        }

    return cases()


def _local(shape, dtype, spec, k):
    import cubed.array_api as xp

    d = P.make_data(shape, dtype, k=20 + k)
    ch = tuple(max(1, (s + 1) // 2) for s in shape)
    return xp.asarray(d, chunks=ch, spec=spec), d


def check_case(case) -> Outcome:
    import cloudpickle
    import cubed
    import cubed.array_api as xp

    from vp import harness as H

    prog = case["prog"]
    combo = case["combo"]
    labels = {f"combo:{combo}", f"mode:{case['mode']}", f"optimize:{case['optimize']}"}
    j, k = case["sender_counter"], case["receiver_counter"]
    vals = P.eval_numpy(prog)
    nin = len(prog["inputs"])
    overlap = abs(j - k) < 60
    labels.add("name-ranges-overlap" if overlap else "name-ranges-disjoint")
    wd = c01.Scratch.fresh("c20")
    fails = []
    old = None
    try:
        spec_kw = dict(work_dir=os.path.join(wd, "work"), allowed_mem=2_000_000_000, reserved_mem=0)
        out_ids = list(prog["outputs"])
        with warnings.catch_warnings():
            warnings.simplefilter("ignore")
            # ---------------- sender
            if case["mode"] == "subprocess":
                import json

                req = os.path.join(wd, "req.json")
                resp = os.path.join(wd, "resp.pkl")
                with open(req, "w") as f:
                    json.dump({"prog": prog, "counter": j, "spec": spec_kw, "out_ids": out_ids, "resp": resp, "sender_computes": bool(case.get("sender_computes"))}, f)
                r = subprocess.run([sys.executable, "-m", "vp.c20_child", req], capture_output=True, text=True, timeout=300, env=dict(os.environ))
                if r.returncode == 3:
                    labels.add("declined-in-sender")
                    return Outcome(labels=tuple(labels))
                if r.returncode != 0:
                    raise core.HarnessError("c20 child failed: " + r.stderr[-600:])
                blob = open(resp, "rb").read()
                old = set_counters(k)
            else:
                old = set_counters(j)
                try:
                    spec_s = cubed.Spec(**spec_kw)
                    arrs_s = P.build_cubed(prog, spec_s)
                    if case.get("sender_computes"):
                        try:
                            cubed.compute(*[arrs_s[i] for i in out_ids])  # default executor of the spec
                        except Exception:
                            pass
                    blob = cloudpickle.dumps([arrs_s[i] for i in out_ids])
                except Exception as e:
                    labels.add(f"declined-in-sender:{type(e).__name__}")
                    return Outcome(labels=tuple(labels))
                del arrs_s
                set_counters(k)
            # ---------------- receiver
            spec_r = cubed.Spec(**spec_kw)
            locals_ = []
            for n in range(case["local_arrays"]):
                locals_.append(_local((3,), "int64", spec_r, n)[0] + 1)
            got = cloudpickle.loads(blob)
            ex = (lambda: H.make_executor("single-threaded")) if case.get("explicit_executor", True) else (lambda: None)  # noqa: E731
            kw = dict(optimize_graph=case["optimize"])
            # alone
            try:
                res = cubed.compute(*got, executor=ex(), **kw)
            except Exception as e:
                fails.append(Failure(f"pickled-array-compute-failed:{type(e).__name__}", f"{e!r}"[:300]))
                return Outcome(nontrivial=False, labels=tuple(labels), failures=tuple(fails))
            for oid, r_ in zip(out_ids, res):
                msg = P.compare(np.asarray(r_), vals[oid])
                if msg is not None:
                    fails.append(Failure("pickled-array-alone-differs", f"output {oid}: {msg}"))
            # the combination must not be served by intermediates the stand-alone run left behind: start from an empty
            # work directory and from a fresh deserialization
            shutil.rmtree(os.path.join(wd, "work"), ignore_errors=True)
            got = cloudpickle.loads(blob)
            nt = False
            if combo != "alone" and not fails:
                a = got[-1]
                va = vals[out_ids[-1]]
                ref_a = np.asarray(va.v)
                if ref_a.dtype.kind in "iuf" and ref_a.size > 0:
                    loc, dloc = _local(ref_a.shape, str(ref_a.dtype), spec_r, 7)
                    loc2 = loc * 2
                    dloc2 = dloc * 2
                    exp = None
                    try:
                        if combo == "add-left":
                            y, exp = a + loc2, ref_a + dloc2
                        elif combo == "add-right":
                            y, exp = loc2 + a, dloc2 + ref_a
                        elif combo == "subtract-right":
                            y, exp = loc2 - a, dloc2 - ref_a
                        elif combo == "stack":
                            y, exp = xp.stack([loc2, a, loc]), np.stack([dloc2, ref_a, dloc])
                        elif combo == "concat" and ref_a.ndim >= 1:
                            y, exp = xp.concat([a, loc2], axis=0), np.concatenate([ref_a, dloc2], axis=0)
                        elif combo == "where":
                            y, exp = xp.where(loc > 0, a, loc2), np.where(dloc > 0, ref_a, dloc2)
                        elif combo == "two-pickled" and len(got) >= 2:
                            b = got[0]
                            vb = np.asarray(vals[out_ids[0]].v)
                            if vb.shape == ref_a.shape and vb.dtype == ref_a.dtype:
                                y, exp = (a + loc2) - b, (ref_a + dloc2) - vb
                            else:
                                y, exp = a + loc2, ref_a + dloc2
                        else:
                            y, exp = (a + loc2) * 1, (ref_a + dloc2) * 1
                        nt = True
                    except (ValueError, TypeError, NotImplementedError) as e:
                        labels.add("combo-declined")
                        y = None
                        # "behaves like any other array": the same combination with an equivalent array built locally
                        # under the receiver's spec must be declined too
                        try:
                            arrs_l = P.build_cubed(prog, spec_r)
                            al = arrs_l[out_ids[-1]]
                            if combo in ("add-left", "two-pickled", "pickled-with-own-ancestor"):
                                _ = al + loc2
                            elif combo in ("add-right", "subtract-right"):
                                _ = loc2 - al
                            elif combo == "stack":
                                _ = xp.stack([loc2, al, loc])
                            elif combo == "concat":
                                _ = xp.concat([al, loc2], axis=0)
                            elif combo == "where":
                                _ = xp.where(loc > 0, al, loc2)
                            fails.append(Failure("combination-declined-only-for-deserialized", f"{combo}: {type(e).__name__}: {str(e)[:160]}"))
                        except (ValueError, TypeError, NotImplementedError):
                            pass
                    if y is not None:
                        try:
                            r2 = np.asarray(y.compute(executor=ex(), **kw))
                            from vp.ir import Val

                            msg = P.compare(r2, Val(exp, exact=va.exact, comparable=va.comparable, rtol=va.rtol, scale=max(va.scale, 1.0) * 4 + 1000))
                            if msg is not None:
                                fails.append(Failure("name-collision:combined-with-local-wrong-or-failed" if overlap else "combined-with-local-differs", f"{combo}: wrong values: {msg}"))
                            # behaves like any other array
                            y.plan()
                            if y.ndim >= 1:
                                y.rechunk(tuple(max(1, s) for s in y.shape)).plan()
                            from zarr.storage import MemoryStore

                            cubed.store([y], [MemoryStore()], executor=ex())
                        except Exception as e:
                            fails.append(Failure("name-collision:combined-with-local-wrong-or-failed" if overlap else f"combined-compute-failed:{type(e).__name__}", f"{combo}: {e!r}"[:300]))
                else:
                    labels.add("combo-skipped(dtype)")
        seen, uniq = set(), []
        for f in fails:
            if f.bucket not in seen:
                seen.add(f.bucket)
                uniq.append(f)
        return Outcome(nontrivial=nt, labels=tuple(labels), failures=tuple(uniq))
    finally:
        if old is not None:
            restore_counters(old)
        shutil.rmtree(wd, ignore_errors=True)


def shards(tier):
    if tier == "quick":
        return [{"kind": "pickle", "name": f"e{i}", "n": 60, "rotate": 43 + i * 73} for i in range(6)] + [
            {"kind": "pickle", "name": "real", "n": 8, "rotate": 9, "modes": ["subprocess"]}]
    return [{"kind": "pickle", "name": f"e{i}", "n": 1100, "rotate": 43 + i * 73} for i in range(13)] + [
        {"kind": "pickle", "name": f"real{i}", "n": 200, "rotate": 9 + i, "modes": ["subprocess"]} for i in range(3)]


def run_shard(spec, seed, tier) -> Acc:
    acc = Acc()
    if spec["kind"] == "__corpus__":
        return core.corpus_shard(sys.modules[__name__], acc)
    is_known, _ = core.known_matcher(ID)
    kw = {"modes": tuple(spec["modes"])} if spec.get("modes") else {}
    core.hyp_run(case_strategy({"rotate": spec.get("rotate", 0)}, **kw), check_case, seed=seed, max_examples=spec["n"], acc=acc,
                 budget_s=420 if tier == "quick" else 3000, shrink=(tier == "thorough"), is_known=is_known)
    return acc


def replay(case):
    return check_case(case).all_failures()
