"""C07 tier A helper: the REAL `async_map_dag` (pipeline_to_stream, aiostream merge, visit_nodes /
visit_node_generations, async_map_unordered, real retry wrapper, real `run_func_threads`) on the virtual-time loop over
a synthetic DAG shaped like cubed's finalized plans, with harness-owned per-task durations.

    run_dag_schedule(case) -> list[core.Failure]
    dag_cases()            -> Hypothesis strategy of cases

A case:
    {"kind": "dag",
     "ops": [{"name": "op-000", "ntasks": 3, "nout": 1, "preds": [["op-xxx", out_index], ...],
              "pipeline": true, "computed": false, "iter": false}, ...],      # in creation (topological) order
     "create_arrays": true,                 # add the create-arrays/arrays housekeeping nodes like Plan._create_lazy_zarr_arrays
     "durations": {"op-000:1": 5.0, ...},   # virtual duration of the original submission (default 1.0)
     "backup_durations": {"op-000:1": 1.0}, # duration of a backup submission (default 1.0)
     "fails": {"op-000:1": 1},              # leading failing attempts of the original submission (retries+1 = it exhausts its retries)
     "backup_fails": {"op-000:1": 3},       # same for the backup submission of that task
     "parallel": bool, "batch_size": None | int, "use_backups": bool, "retries": 0..2, "order": "of"|"bf"|"rof"|"rbf"|"native", "hperm": 0..5 (iteration order of cubed's sets of futures)}

A run may legitimately raise the task's error only when the task whose error is raised has no submission (made so far,
completed or still pending) that is scripted to succeed; such a run is labelled and not judged for ordering. Any other
raise is a violation (a failure surfaced although a twin succeeds / would succeed).

Oracle (sequence-based, so ties in virtual time cannot blur it): for every op X with a pipeline and every DAG ancestor op
Y with a pipeline (not marked computed), every submission of a task of X happens after the first SUCCESSFUL completion
of every task of Y (a failed original whose backup is still running has not produced its data); create-arrays completes before any other submission; the run ends without exception / hang; every
task of every op with a pipeline is submitted (exactly once without backups, at most twice with) and reported by exactly
one task-end callback; ops without a pipeline or marked computed are never submitted.
"""
from __future__ import annotations

from collections import Counter

import vp  # noqa: F401
from vp import core
from vp.core import Failure


class DagTaskError(Exception):
    pass


class _Cfg:
    """Stands in for a pipeline config (BlockwiseSpec etc.); identifies the op for the scripted pool."""

    def __init__(self, op):
        self.op = op

    def __repr__(self):
        return f"_Cfg({self.op})"


class _PrimOp:
    def __init__(self, num_tasks, pipeline):
        self.num_tasks = num_tasks
        self.pipeline = pipeline
        self.allowed_mem = 0
        self.reserved_mem = 0
        self.projected_mem = 0


def build_dag(case, body):
    import networkx as nx

    from cubed.runtime.types import CubedPipeline

    dag = nx.MultiDiGraph()
    pipeline_nodes = []
    for op in case["ops"]:
        name = op["name"]
        attrs = dict(name=name, op_name="vp-op", type="op", func_name="", op_display_name=name)
        if op.get("pipeline", True):
            n = op["ntasks"]
            mappable = _OneShot(n) if op.get("iter") else list(range(n))
            pl = CubedPipeline(body, name, mappable, _Cfg(name))
            attrs["pipeline"] = pl
            attrs["primitive_op"] = _PrimOp(n, pl)
            pipeline_nodes.append(name)
            if op.get("computed"):
                attrs["computed"] = True
        dag.add_node(name, **attrs)
        for j in range(op.get("nout", 1)):
            arr = f"{name}-out{j}"
            dag.add_node(arr, name=arr, type="array", target=None, hidden=False)
            dag.add_edge(name, arr)
        for (p, j) in op.get("preds", []):
            dag.add_edge(f"{p}-out{j}", name)
    if case.get("create_arrays", True) and pipeline_nodes:
        # exactly the wiring of cubed/core/plan.py Plan._create_lazy_zarr_arrays
        pl = CubedPipeline(body, "create-arrays", list(range(1)), _Cfg("create-arrays"))
        dag.add_node("create-arrays", name="create-arrays", op_name="create-arrays", type="op", func_name="", primitive_op=_PrimOp(1, pl), pipeline=pl)
        dag.add_node("arrays", name="arrays", target=None)
        dag.add_edge("create-arrays", "arrays")
        for n in pipeline_nodes:
            dag.add_edge("arrays", n)
    return dag


class _OneShot:
    """A mappable that can be iterated once per computation, like cubed's generator-backed mappables."""

    def __init__(self, n):
        self.n = n

    def __iter__(self):
        return iter(range(self.n))


def run_dag(case):
    """-> (failures, labels, info)"""
    import networkx as nx

    from cubed.runtime.asyncio import async_map_dag
    from cubed.runtime.executors.local import run_func_threads, threads_create_futures_func

    from vp.harness import RecordingCallback
    from vp.vloop import Hang, ScriptedPool, VirtualTimeLoop, run_to_completion, virtual_time

    durations = case.get("durations", {})
    bdur = case.get("backup_durations", {})
    failsmap = case.get("fails", {})
    bfailsmap = case.get("backup_fails", {})
    retries = case.get("retries", 2)
    use_backups = case.get("use_backups", False)

    loop = VirtualTimeLoop(max_time=1e5, max_iters=600_000, hash_perm=case.get("hperm", 0))
    reg = {}

    def schedule(sub):
        op, i = sub.key
        k = f"{op}:{i}"
        if sub.subno == 0:
            return float(durations.get(k, 1.0))
        return float(bdur.get(k, 1.0))

    def key_fn(i, kw):
        cfg = kw.get("config")
        return (getattr(cfg, "op", repr(cfg)), i)

    pool = ScriptedPool(loop, schedule, key_fn=key_fn)

    def body(m, config=None):
        sub = pool.current
        sub.attempts += 1
        op, i = sub.key
        nf = failsmap.get(f"{op}:{i}", 0) if sub.subno == 0 else bfailsmap.get(f"{op}:{i}", 0)
        if sub.attempts <= nf:
            raise DagTaskError(op, i, sub.attempts)
        return None

    real_cff = threads_create_futures_func(pool, run_func_threads, retries=retries)

    def cff(inputs, **kw):
        before = len(pool.subs)
        out = real_cff(inputs, **kw)
        for j, (_i, fut) in enumerate(out):
            if before + j < len(pool.subs):
                reg[fut] = pool.subs[before + j]
        return out

    mode = case.get("order", "native")
    okey = None
    if mode != "native":
        si = -1 if mode in ("rof", "rbf") else 1
        sk = -1 if mode in ("bf", "rbf") else 1

        def okey(fut):
            sub = reg.get(fut)
            if sub is None:
                return ("", 0, 0)
            return (sub.key[0], si * sub.key[1], sk * sub.subno)

    dag = build_dag(case, body)
    cb = RecordingCallback()
    kwargs = {}
    if case.get("batch_size") is not None:
        kwargs["batch_size"] = case["batch_size"]
    if use_backups:
        kwargs["use_backups"] = True

    reports = []
    loop.set_exception_handler(lambda lp, ctx: reports.append(str(ctx.get("message")) + " " + repr(ctx.get("exception"))))
    outcome, exc = "ok", None
    with virtual_time(loop, okey):
        try:
            run_to_completion(loop, async_map_dag(cff, dag, callbacks=[cb], compute_arrays_in_parallel=case.get("parallel"), **kwargs))
        except Hang as e:
            outcome, exc = "hang", e
        except BaseException as e:  # noqa
            if isinstance(e, (KeyboardInterrupt, SystemExit)):
                raise
            outcome, exc = "crash", e

    fails = []
    labels = {f"dag:parallel={int(bool(case.get('parallel')))}", f"dag:batch={case.get('batch_size')}", f"dag:backups={int(use_backups)}",
              "dag:outcome=" + outcome}
    def scripted_ok(sub):
        op_, i_ = sub.key
        m = failsmap if sub.subno == 0 else bfailsmap
        return m.get(f"{op_}:{i_}", 0) <= retries

    legit_raise = False
    if outcome == "hang":
        fails.append(Failure("dag:hang", str(exc)))
    elif outcome == "crash":
        if isinstance(exc, DagTaskError) and len(exc.args) >= 2:
            subs_of = pool.by_key.get((exc.args[0], exc.args[1]), [])
            good = [sb for sb in subs_of if scripted_ok(sb)]
            if subs_of and not good:
                legit_raise = True
                outcome = "legit-raise"
                labels.discard("dag:outcome=crash")
                labels.add("dag:outcome=legit-raise(not judged for ordering)")
            else:
                sb = good[0] if good else None
                state = "n/a" if sb is None else ("completed" if sb.fired else "still pending")
                fails.append(Failure("dag:raised-although-a-submission-succeeds",
                                     f"raised {exc!r} although submission {getattr(sb, 'subno', '?')} of that task is scripted to succeed ({state})"))
        else:
            fails.append(Failure(f"dag:crash:{type(exc).__name__}", f"{type(exc).__name__}: {str(exc)[:200]}"))

    # causal sequence of events
    first_done = {}  # (op, i) -> seq index of first successful completion
    submits = {}  # (op, i) -> [seq index of each submission]
    for idx, (kind, sub, t) in enumerate(pool.events):
        if kind == "submit":
            submits.setdefault(sub.key, []).append(idx)
        elif kind == "done":
            first_done.setdefault(sub.key, idx)

    ops = {op["name"]: op for op in case["ops"]}
    live = {name for name, op in ops.items() if op.get("pipeline", True) and not op.get("computed")}
    ntasks = {name: ops[name]["ntasks"] for name in live}
    has_ca = case.get("create_arrays", True) and any(op.get("pipeline", True) for op in case["ops"])
    if has_ca:
        live.add("create-arrays")
        ntasks["create-arrays"] = 1

    # never-run ops
    for (op, i) in submits:
        if op not in live:
            fails.append(Failure("dag:task-of-op-without-pipeline-or-computed-submitted", f"{op}:{i}"))
            break

    if outcome == "ok":
        for op in sorted(live):
            miss = [i for i in range(ntasks[op]) if (op, i) not in first_done]
            if miss:
                fails.append(Failure("dag:task-never-completed", f"op {op}: tasks {miss[:5]} of {ntasks[op]} never completed although the run ended normally"))
                break
        ends = Counter(e[1] for e in cb.events if e[0] == "task_end")
        bad = {op: (ends.get(op, 0), ntasks[op]) for op in live if ends.get(op, 0) != ntasks[op]}
        if bad:
            fails.append(Failure("dag:task-end-count", f"(task-end callbacks, tasks) per op: {dict(list(bad.items())[:4])}"))
        extra = [op for op in ends if op not in live]
        if extra:
            fails.append(Failure("dag:task-end-for-unknown-op", str(extra[:3])))
    for key, lst in submits.items():
        if len(lst) > (2 if use_backups else 1):
            fails.append(Failure("dag:task-submitted-too-often", f"{key[0]}:{key[1]} submitted {len(lst)} times (use_backups={use_backups})"))
            break

    # the ordering property
    anc = {}
    for name in live:
        if name in dag:
            anc[name] = {a for a in nx.ancestors(dag, name) if a in live}
    viol = None
    for (op, i), lst in submits.items():
        if op not in live or legit_raise:
            continue
        start = min(lst)
        for a in anc.get(op, ()):
            for j in range(ntasks[a]):
                d = first_done.get((a, j))
                if d is None or d > start:
                    viol = (op, i, a, j, pool.events[start][2], None if d is None else pool.events[d][2])
                    break
            if viol:
                break
        if viol:
            break
    if viol:
        op, i, a, j, ts, td = viol
        which = "create-arrays" if a == "create-arrays" else "producer"
        fails.append(Failure(f"dag:task-started-before-{which}-finished",
                             f"task {op}:{i} was submitted at t={ts} before task {a}:{j} of ancestor op {a} had completed ({'never' if td is None else 't=' + str(td)})"))
    if reports:
        rep = [r for r in reports if "never retrieved" not in r and "destroyed but it is pending" not in r]
        if rep:
            fails.append(Failure("dag:loop-exception-report", rep[0][:300]))

    nlive = len(live - {"create-arrays"})
    multi_producer = any(len({p for p, _ in op.get("preds", [])} & live) >= 2 for op in case["ops"] if op["name"] in live)
    gens_unequal = len({ntasks[o] for o in live if o != "create-arrays"}) >= 2
    if any(len(v) > 1 for v in submits.values()):
        labels.add("dag:backup-launched")
    fire_pos = {sub.seq: idx for idx, (kind, sub, t) in enumerate(pool.events) if kind == "fire"}
    for key, subs_ in pool.by_key.items():
        if len(subs_) >= 2:
            o, b = subs_[0], subs_[1]
            po, pb = fire_pos.get(o.seq), fire_pos.get(b.seq)
            if o.fired and not o.ok and (pb is None or pb > po):
                labels.add("dag:orig-exhausted-while-backup-running" + ("" if scripted_ok(b) else "(backup fails too)"))
            if b.fired and not b.ok and (po is None or po > pb):
                labels.add("dag:backup-exhausted-while-orig-running" + ("" if scripted_ok(o) else "(orig fails too)"))
    if multi_producer:
        labels.add("dag:op-with>=2-producers")
    info = {"nontrivial": bool(nlive >= 2 and (multi_producer or gens_unequal)), "events": len(pool.events), "t_end": loop.time()}
    seen, uniq = set(), []
    for f in fails:
        if f.bucket not in seen:
            seen.add(f.bucket)
            uniq.append(f)
    return uniq, labels, info


def run_dag_schedule(case) -> list:
    """Run one DAG schedule on the real async_map_dag; -> list of core.Failure (empty = property holds for this schedule)."""
    return run_dag(case)[0]


def dag_cases(max_ops=8):
    from hypothesis import strategies as st

    @st.composite
    def gen(draw):
        nops = draw(st.integers(1, max_ops))
        use_backups = draw(st.sampled_from([False, True]))
        # "twins": a straggler in an op with >= 10 tasks whose original or backup exhausts its retries while the twin is
        # still running, followed by a dependent op
        twins = use_backups and draw(st.integers(0, 2)) != 0
        if twins:
            nops = max(nops, 2)
            big_at = draw(st.integers(0, min(nops - 2, 2)))
        ops = []
        # node names are not in topological order (a scheduler must not rely on name or insertion order)
        perm = draw(st.permutations(list(range(nops)))) if draw(st.booleans()) else list(range(nops))
        for k in range(nops):
            name = f"op-{perm[k]:03d}"
            forced_big = twins and k == big_at
            big = forced_big or (use_backups and draw(st.integers(0, 2)) == 0)
            ntasks = draw(st.integers(10, 14)) if big else draw(st.integers(1, 6))
            nout = draw(st.sampled_from([1, 1, 1, 2]))
            preds = []
            if ops:
                npred = draw(st.sampled_from([0, 1, 1, 1, 2, 2, 3]))
                for _ in range(npred):
                    p = draw(st.sampled_from(ops))
                    preds.append([p["name"], draw(st.integers(0, p["nout"] - 1))])
            if twins and k == big_at + 1 and not any(p == ops[big_at]["name"] for p, _ in preds):
                preds.append([ops[big_at]["name"], 0])  # the dependent op
            op = {"name": name, "ntasks": ntasks, "nout": nout, "preds": preds,
                  "pipeline": True if (forced_big or (twins and k == big_at + 1)) else draw(st.integers(0, 9)) != 0}
            if op["pipeline"] and not forced_big and draw(st.integers(0, 14)) == 0:
                op["computed"] = True
            if draw(st.integers(0, 3)) == 0:
                op["iter"] = True
            ops.append(op)
        durs, bd, fl, bfl = {}, {}, {}, {}
        retries = draw(st.sampled_from([0, 1, 2]))
        style = "unit" if twins and draw(st.booleans()) else draw(st.sampled_from(["unit", "small", "small", "stragglers"]))
        if twins:
            bop = ops[big_at]
            for i in draw(st.lists(st.integers(0, bop["ntasks"] - 1), min_size=1, max_size=2, unique=True)):
                key = f"{bop['name']}:{i}"
                durs[key] = draw(st.sampled_from([8.0, 8.0, 12.0, 20.0]))
                bd[key] = draw(st.sampled_from([1.0, 6.0, 10.0, 10.0, 30.0]))
                sc = draw(st.sampled_from(["orig-exhausts", "orig-exhausts", "orig-exhausts", "backup-exhausts", "backup-exhausts", "both-exhaust", "retry-ok"]))
                if sc in ("orig-exhausts", "both-exhaust"):
                    fl[key] = retries + 1
                if sc in ("backup-exhausts", "both-exhaust"):
                    bfl[key] = retries + 1
                if sc == "retry-ok" and retries:
                    fl[key] = retries
                    bfl[key] = draw(st.integers(0, retries))
        for op in ops:
            if not op["pipeline"]:
                continue
            for i in range(op["ntasks"]):
                key = f"{op['name']}:{i}"
                if key in durs and twins and op is ops[big_at]:
                    continue
                if style == "small":
                    d = draw(st.sampled_from([0.0, 1.0, 1.0, 2.0, 3.0]))
                    if d != 1.0:
                        durs[key] = d
                elif style == "stragglers" and draw(st.integers(0, 7)) == 0:
                    durs[key] = draw(st.sampled_from([5.0, 8.0, 20.0, 100.0]))
                    if use_backups:
                        bd[key] = draw(st.sampled_from([1.0, 1.0, 3.0, 50.0]))
                if retries and draw(st.integers(0, 11)) == 0:
                    fl[key] = draw(st.integers(1, retries))
        mx = max(op["ntasks"] for op in ops)
        case = {"kind": "dag", "ops": ops, "create_arrays": draw(st.sampled_from([True, True, True, False])),
                "durations": durs, "backup_durations": bd, "fails": fl, "backup_fails": bfl,
                "parallel": draw(st.sampled_from([True, True, False])),
                "batch_size": draw(st.sampled_from([None, None, None, 10, mx, mx + 3] if twins else [None, None, 1, 2, 10, mx, mx + 3])),
                "use_backups": use_backups, "retries": retries, "order": draw(st.sampled_from(["of", "bf", "rof", "rbf", "native"])), "hperm": draw(st.integers(0, 5))}
        return case

    return gen()
