"""Program IR shared by most checks: JSON programs over cubed's public API, a constructive Hypothesis
generator, a cubed builder and an independent NumPy evaluator.

program = {"inputs": [input...], "nodes": [node...], "outputs": [node ids]}
  input = {"kind": "asarray"|"from_array"|"from_zarr"|"full"|"arange"|"linspace"|"eye"|"ones"|"zeros",
           "shape": [...], "dtype": str, "chunks": [...], "k": int, "special": bool, ...}
  node  = {"op": name, "args": [ids], "params": {...}}
Node ids: inputs first (0..nin-1), then nodes in order. A node value is an ndarray or (multi-output ops) a tuple;
tuples are consumed by the pseudo-op "pick".
"""
from __future__ import annotations

import math
import operator
from dataclasses import dataclass, field
from typing import Any, Callable, Optional

import numpy as np

DTYPES = [
    "bool", "int8", "int16", "int32", "int64", "uint8", "uint16", "uint32", "uint64",
    "float32", "float64", "complex64", "complex128",
]
WEIGHTED_DTYPES = (
    ["int64"] * 6 + ["float64"] * 6 + ["int8"] * 2 + ["uint8"] * 2 + ["float32"] * 3 + ["bool"] * 2 + ["complex128"] * 2
    + ["int16", "int32", "uint16", "uint32", "uint64", "complex64"]
)


def kind(dt) -> str:
    return np.dtype(dt).kind


def is_float(dt):
    return kind(dt) in "fc"


# --------------------------------------------------------------------------- data patterns
def make_data(shape, dtype, k=0, special=False, frac=False):
    """Deterministic data; (almost) pairwise-distinct values so mis-routed blocks show up."""
    shape = tuple(int(s) for s in shape)
    n = int(np.prod(shape)) if shape else 1
    kd = kind(dtype)
    idx = np.arange(n, dtype=np.int64)
    if kd == "b":
        d = ((idx * (3 + 2 * k) + k) % 5 < 2)
    elif np.dtype(dtype).itemsize == 1 and kd in "iu":
        d = (idx * (7 + 2 * k) + 3 * k) % 23 - (5 if kd == "i" else 0)
    elif kd == "u":
        d = (idx * (7 + 2 * k) + 3 * k) % 251
    elif kd == "c":
        re = (idx * (7 + 2 * k) + 3 * k) % 61 - 20
        im = (idx * (5 + 2 * k) + k) % 13 - 6
        d = re + 1j * im
    else:
        d = (idx * (7 + 2 * k) + 3 * k) % 251 - 100
    d = np.asarray(d).astype(dtype)
    if frac and kd in "fc":
        d = d / np.asarray(4, dtype=d.dtype)  # quarters: exactly representable
    if special and kd in "fc" and n > 0:
        d = d.copy().reshape(-1)
        d[(3 * k + 1) % n] = np.nan
        if n > 2:
            d[(5 * k + 2) % n] = np.inf
        if n > 4:
            d[(7 * k + 4) % n] = np.nan
    return d.reshape(shape)


# --------------------------------------------------------------------------- param codec (JSON <-> python)
def enc_key(key):
    out = []
    for k in key:
        if k is None:
            out.append("nx")
        elif k is Ellipsis:
            out.append("...")
        elif isinstance(k, slice):
            out.append({"s": [k.start, k.stop, k.step]})
        elif isinstance(k, (list, np.ndarray)):
            out.append({"a": [int(v) for v in np.asarray(k).tolist()]})
        else:
            out.append(int(k))
    return out


def dec_key(enc, arr=np.asarray):
    out = []
    for k in enc:
        if k == "nx":
            out.append(None)
        elif k == "...":
            out.append(Ellipsis)
        elif isinstance(k, dict) and "s" in k:
            out.append(slice(*k["s"]))
        elif isinstance(k, dict) and "a" in k:
            out.append(arr(k["a"], dtype=np.int64) if arr is np.asarray else arr(k["a"]))
        else:
            out.append(int(k))
    return tuple(out)


def tup(x):
    if isinstance(x, list):
        return tuple(tup(v) for v in x)
    return x


# --------------------------------------------------------------------------- node metadata for comparison
@dataclass
class Val:
    v: Any  # ndarray or tuple of ndarrays
    exact: bool = True  # bit-exact comparison is sound
    comparable: bool = True  # values may be compared at all (False: only shape)
    rtol: float = 0.0
    scale: float = 1.0

    @property
    def is_tuple(self):
        return isinstance(self.v, tuple)


@dataclass
class Op:
    name: str
    arity: Any  # int, or "list" (variadic list of arrays)
    pred: Callable  # pred(*vals ndarray) -> bool: applicable to these argument values
    params: Callable  # params(draw, st, vals) -> dict | None
    cub: Callable  # cub(xp_module_ctx, arrs, params) -> cubed array (or tuple)
    ref: Callable  # ref(vals, params) -> ndarray (or tuple)
    cls: str = "exact"  # exact | ulp | reassoc | var | discont | shape-only
    tags: tuple = ()
    weight: int = 2


OPS: dict[str, Op] = {}


def reg(op: Op):
    OPS[op.name] = op
    return op


def _noparams(draw, st, vals):
    return {}


# dtype categories (the array API's, as cubed checks them)
BOOL = {"bool"}
INTS = {"int8", "int16", "int32", "int64", "uint8", "uint16", "uint32", "uint64"}
REALF = {"float32", "float64"}
CPLX = {"complex64", "complex128"}
FLOATING = REALF | CPLX
NUMERIC = INTS | FLOATING
REALNUM = INTS | REALF
INTBOOL = INTS | BOOL
ALL = NUMERIC | BOOL
CATS = {
    "numeric": NUMERIC, "floating": FLOATING, "realfloat": REALF, "intbool": INTBOOL, "int": INTS,
    "realnum": REALNUM, "bool": BOOL, "all": ALL, "complex": CPLX,
}


def dn(a):
    return str(np.asarray(a).dtype)


def in_cat(cat):
    s = CATS[cat]
    return lambda *vals: all(dn(v) in s for v in vals)


def can_promote(a, b):
    """array-API promotion defined (no int<->float, no signed<->uint64, bool only with bool)."""
    da, db = dn(a), dn(b)
    if da == db:
        return True
    ka, kb = kind(da), kind(db)
    if "b" in (ka, kb):
        return False
    if ka in "iu" and kb in "iu":
        if ka == kb:
            return True
        u, i = (da, db) if ka == "u" else (db, da)
        return u != "uint64"
    if ka in "fc" and kb in "fc":
        return True
    return False


def bshape_ok(a, b):
    try:
        np.broadcast_shapes(np.shape(a), np.shape(b))
        return True
    except ValueError:
        return False


# --------------------------------------------------------------------------- elementwise
UNARY = {
    # name: (category, class)
    "abs": ("numeric", "exact"), "negative": ("numeric", "exact"), "positive": ("numeric", "exact"),
    "square": ("numeric", "exact"), "sign": ("numeric", "exact"),
    "ceil": ("realnum", "discont"), "floor": ("realnum", "discont"), "trunc": ("realnum", "discont"), "round": ("numeric", "discont"),
    "isfinite": ("numeric", "discont"), "isinf": ("numeric", "discont"), "isnan": ("numeric", "discont"),
    "signbit": ("realfloat", "discont"),
    "bitwise_invert": ("intbool", "exact"), "logical_not": ("bool", "exact"),
    "conj": ("complex", "exact"), "real": ("complex", "exact"), "imag": ("complex", "exact"),
    "sqrt": ("floating", "ulp"), "exp": ("floating", "ulp"), "expm1": ("floating", "ulp"), "log": ("floating", "ulp"),
    "log1p": ("floating", "ulp"), "log2": ("floating", "ulp"), "log10": ("floating", "ulp"),
    "sin": ("floating", "ulp"), "cos": ("floating", "ulp"), "tan": ("floating", "ulp"),
    "sinh": ("floating", "ulp"), "cosh": ("floating", "ulp"), "tanh": ("floating", "ulp"),
    "asin": ("floating", "ulp"), "acos": ("floating", "ulp"), "atan": ("floating", "ulp"),
    "asinh": ("floating", "ulp"), "acosh": ("floating", "ulp"), "atanh": ("floating", "ulp"),
    "reciprocal": ("floating", "exact"),
}
NP_ALIAS = {
    "acos": "arccos", "acosh": "arccosh", "asin": "arcsin", "asinh": "arcsinh", "atan": "arctan", "atanh": "arctanh",
    "atan2": "arctan2", "bitwise_invert": "invert", "bitwise_left_shift": "left_shift", "bitwise_right_shift": "right_shift",
    "pow": "power", "concat": "concatenate", "permute_dims": "transpose",
}


def npf(name):
    return getattr(np, NP_ALIAS.get(name, name))


def _mk_unary(name, cat, cls):
    f = npf(name)
    reg(Op(name, 1, in_cat(cat), _noparams, lambda xp, a, p, _n=name: getattr(xp, _n)(a[0]), lambda v, p, _f=f: _f(v[0]), cls, ("elementwise", "unary"), 1))


for _n, (_c, _k) in UNARY.items():
    _mk_unary(_n, _c, _k)

BINARY = {
    "add": ("numeric", "exact"), "subtract": ("numeric", "exact"), "multiply": ("numeric", "exact"),
    "divide": ("floating", "exact"), "floor_divide": ("realnum", "discont"), "remainder": ("realnum", "discont"),
    "pow": ("numeric", "ulp"), "maximum": ("realnum", "exact"), "minimum": ("realnum", "exact"),
    "atan2": ("realfloat", "ulp"), "hypot": ("realfloat", "ulp"), "logaddexp": ("realfloat", "ulp"),
    "copysign": ("realfloat", "exact"), "nextafter": ("realfloat", "exact"),
    "bitwise_and": ("intbool", "exact"), "bitwise_or": ("intbool", "exact"), "bitwise_xor": ("intbool", "exact"),
    "logical_and": ("bool", "exact"), "logical_or": ("bool", "exact"), "logical_xor": ("bool", "exact"),
    "equal": ("all", "discont"), "not_equal": ("all", "discont"), "less": ("realnum", "discont"),
    "less_equal": ("realnum", "discont"), "greater": ("realnum", "discont"), "greater_equal": ("realnum", "discont"),
}


def _bin_pred(cat):
    s = CATS[cat]

    def pred(a, b):
        return dn(a) in s and dn(b) in s and can_promote(a, b) and bshape_ok(a, b)

    return pred


def _np_binary(name):
    f = npf(name)

    def ref(v, p):
        a, b = v
        if name == "pow" and kind(dn(a)) in "iu" and kind(dn(b)) in "iu":
            if np.any(np.asarray(b) < 0):
                raise ValueError("negative integer power")
        if name in ("floor_divide", "remainder") and kind(dn(a)) in "iu" and kind(dn(b)) in "iu":
            if np.any(np.asarray(b) == 0):
                raise ValueError("integer division by zero is undefined in the array API")
        return f(a, b)

    return ref


for _n, (_c, _k) in BINARY.items():
    reg(Op(_n, 2, _bin_pred(_c), _noparams, lambda xp, a, p, _n=_n: getattr(xp, _n)(a[0], a[1]), _np_binary(_n), _k, ("elementwise", "binary"), 2 if _n in ("add", "subtract", "multiply") else 1))


# shifts: second operand is a small python scalar (negative / too large shifts are undefined)
def _shift_params(draw, st, vals):
    bits = np.dtype(dn(vals[0])).itemsize * 8
    return {"n": draw(st.integers(0, min(bits - 1, 7)))}


for _n in ("bitwise_left_shift", "bitwise_right_shift"):
    reg(Op(_n, 1, in_cat("int"), _shift_params, lambda xp, a, p, _n=_n: getattr(xp, _n)(a[0], p["n"]), lambda v, p, _n=_n: npf(_n)(v[0], np.asarray(p["n"], dtype=v[0].dtype)), "exact", ("elementwise", "scalar"), 1))

# operators (Array dunders, incl. reflected forms with python scalars)
OPERATORS = {
    "op_add": (operator.add, "numeric"), "op_sub": (operator.sub, "numeric"), "op_mul": (operator.mul, "numeric"),
    "op_floordiv": (operator.floordiv, "realnum"), "op_mod": (operator.mod, "realnum"),
    "op_and": (operator.and_, "intbool"), "op_or": (operator.or_, "intbool"), "op_xor": (operator.xor, "intbool"),
    "op_lt": (operator.lt, "realnum"), "op_le": (operator.le, "realnum"), "op_gt": (operator.gt, "realnum"),
    "op_ge": (operator.ge, "realnum"), "op_eq": (operator.eq, "all"), "op_ne": (operator.ne, "all"),
    "op_truediv": (operator.truediv, "floating"),
}


def _mk_operator(name, f, cat):
    cls = "discont" if name in ("op_floordiv", "op_mod", "op_lt", "op_le", "op_gt", "op_ge", "op_eq", "op_ne") else "exact"

    def ref(v, p):
        a, b = v
        if name in ("op_floordiv", "op_mod") and kind(dn(b)) in "iu" and np.any(np.asarray(b) == 0):
            raise ValueError("integer division by zero")
        return f(a, b)

    reg(Op(name, 2, _bin_pred(cat), _noparams, lambda xp, a, p, _f=f: _f(a[0], a[1]), ref, cls, ("elementwise", "binary", "operator"), 1))


for _n, (_f, _c) in OPERATORS.items():
    _mk_operator(_n, _f, _c)


def _scalar_params(draw, st, vals):
    d = dn(vals[0])
    k = kind(d)
    if k == "b":
        s = draw(st.booleans())
    elif k == "u":
        s = draw(st.integers(0, 5))
    elif k == "i":
        s = draw(st.integers(-3, 5))
    else:
        s = draw(st.sampled_from([-2, -1, 0, 1, 2, 3, 0.5, 2.0, -1.5]))
    return {"s": s, "refl": draw(st.booleans()), "f": draw(st.sampled_from(["add", "sub", "mul", "lt", "eq", "maximum"] if k != "b" else ["eq", "and", "or"]))}


_SC = {
    "add": operator.add, "sub": operator.sub, "mul": operator.mul, "lt": operator.lt, "eq": operator.eq,
    "and": operator.and_, "or": operator.or_,
}


def _scalar_cub(xp, a, p):
    if p["f"] == "maximum":
        return xp.maximum(p["s"], a[0]) if p["refl"] else xp.maximum(a[0], p["s"])
    f = _SC[p["f"]]
    return f(p["s"], a[0]) if p["refl"] else f(a[0], p["s"])


def _scalar_ref(v, p):
    s = np.asarray(p["s"]).astype(v[0].dtype) if not isinstance(p["s"], float) or kind(dn(v[0])) in "fc" else p["s"]
    if p["f"] == "maximum":
        return np.maximum(v[0], s)
    f = _SC[p["f"]]
    return f(s, v[0]) if p["refl"] else f(v[0], s)


reg(Op("scalar_binop", 1, lambda a: dn(a) in ALL and kind(dn(a)) != "c", _scalar_params, _scalar_cub, _scalar_ref, "discont", ("elementwise", "scalar", "operator", "helper-array"), 2))

reg(Op("op_neg", 1, in_cat("numeric"), _noparams, lambda xp, a, p: -a[0], lambda v, p: -v[0], "exact", ("elementwise", "operator"), 1))
reg(Op("op_abs", 1, in_cat("numeric"), _noparams, lambda xp, a, p: abs(a[0]), lambda v, p: abs(v[0]), "exact", ("elementwise", "operator"), 1))
reg(Op("op_invert", 1, in_cat("intbool"), _noparams, lambda xp, a, p: ~a[0], lambda v, p: ~v[0], "exact", ("elementwise", "operator"), 1))


def _clip_params(draw, st, vals):
    lo = draw(st.sampled_from([None, -2, 0, 1]))
    hi = draw(st.sampled_from([None, 3, 5, 40]))
    if kind(dn(vals[0])) == "u" and lo is not None and lo < 0:
        lo = 0
    if lo is None and hi is None:
        lo = 0
    return {"lo": lo, "hi": hi}


reg(Op("clip", 1, in_cat("realnum"), _clip_params, lambda xp, a, p: xp.clip(a[0], p["lo"], p["hi"]), lambda v, p: np.clip(v[0], p["lo"], p["hi"]), "exact", ("elementwise", "scalar", "helper-array"), 2))


def _clip0d_params(draw, st, vals):
    # bounds given as 0-d lazy arrays (min / max of the operand itself) or as scalars: composing must stay lazy, values as NumPy's
    which = draw(st.sampled_from(["both", "both", "lo", "hi"]))
    return {"which": which, "lo": draw(st.sampled_from([-2, 0, 1])), "hi": draw(st.sampled_from([3, 5, 40])), "shrink": draw(st.booleans())}


def _clip0d_cub(xp, a, p):
    x = a[0]
    one = xp.asarray(1, dtype=x.dtype, spec=x.spec)
    lo = xp.min(x)
    hi = xp.max(x)
    if p["shrink"]:
        lo, hi = xp.add(lo, one), xp.subtract(hi, one)
        lo = xp.minimum(lo, hi)
    return xp.clip(x, lo if p["which"] in ("both", "lo") else p["lo"], hi if p["which"] in ("both", "hi") else p["hi"])


def _clip0d_ref(v, p):
    x = v[0]
    lo, hi = x.min(), x.max()
    if p["shrink"]:
        lo, hi = lo + 1, hi - 1
        lo = min(lo, hi)
    return np.clip(x, lo if p["which"] in ("both", "lo") else p["lo"], hi if p["which"] in ("both", "hi") else p["hi"])


reg(Op("clip_bounds0d", 1, lambda a: dn(a) in ("int64", "float64") and a.size > 0 and np.isfinite(a).all(), _clip0d_params, _clip0d_cub, _clip0d_ref, "exact",
       ("elementwise", "reduction", "helper-array"), 1))


def _where_pred(c, a, b):
    return dn(c) == "bool" and can_promote(a, b) and bshape_ok(a, b) and bshape_ok(np.broadcast(a, b), c) if True else False


def _where_pred2(c, a, b):
    if dn(c) != "bool" or not can_promote(a, b):
        return False
    try:
        np.broadcast_shapes(np.shape(c), np.shape(a), np.shape(b))
        return True
    except ValueError:
        return False


reg(Op("where", 3, _where_pred2, _noparams, lambda xp, a, p: xp.where(a[0], a[1], a[2]), lambda v, p: np.where(v[0], v[1], v[2]), "exact", ("elementwise",), 2))


def _astype_params(draw, st, vals):
    src = dn(vals[0])
    if kind(src) == "c":
        cands = ["complex64", "complex128"]
    elif kind(src) == "f":
        # float -> unsigned / narrow ints with out-of-range values is implementation-defined: keep safe targets
        finite = np.all(np.isfinite(vals[0]))
        cands = ["float32", "float64", "complex128"] + (["int64", "int32"] if finite else [])
    else:
        cands = ["int64", "float64", "float32", "int32", "int16", "uint8", "int8", "bool", "complex128", "uint64"]
        if kind(src) == "i" and np.any(np.asarray(vals[0]) < 0):
            pass  # negative -> unsigned wraps identically in NumPy on both sides
    return {"dtype": draw(st.sampled_from(cands))}


reg(Op("astype", 1, lambda a: True, _astype_params, lambda xp, a, p: xp.astype(a[0], getattr(xp, p["dtype"])), lambda v, p: v[0].astype(p["dtype"]), "discont", ("elementwise", "dtype"), 2))


# --------------------------------------------------------------------------- reductions
def axis_param(draw, st, v, allow_tuple=True, allow_none=True, negative=True):
    nd = v.ndim
    opts = []
    if allow_none:
        opts.append(st.none())
    if nd:
        opts.append(st.integers(-nd if negative else 0, nd - 1))
        opts.append(st.integers(-nd if negative else 0, nd - 1))
        if allow_tuple:
            opts.append(st.lists(st.integers(0, nd - 1), min_size=1, max_size=nd, unique=True))
    if not opts:
        return None
    return draw(st.one_of(*opts))


def split_every_param(draw, st, v, axis):
    c = draw(st.integers(0, 9))
    if c < 4:
        return None
    if c < 8 or v.ndim == 0:
        return draw(st.integers(2, 6))
    return None


def _red_params(has_dtype=False, allow_tuple=True):
    def params(draw, st, vals):
        v = vals[0]
        ax = axis_param(draw, st, v, allow_tuple=allow_tuple)
        p = {"axis": ax, "keepdims": draw(st.booleans()), "split_every": split_every_param(draw, st, v, ax)}
        if has_dtype and draw(st.integers(0, 4)) == 0:
            k = kind(dn(v))
            p["dtype"] = draw(st.sampled_from({"b": ["int64"], "i": ["int64"], "u": ["uint64"], "f": ["float64", "float32"], "c": ["complex128"]}[k]))
        return p

    return params


def _ax(p):
    a = p.get("axis")
    return tuple(a) if isinstance(a, list) else a


def _red_cub(name):
    def cub(xp, a, p):
        kw = dict(axis=_ax(p), keepdims=p["keepdims"])
        if p.get("split_every") is not None:
            kw["split_every"] = p["split_every"]
        if p.get("dtype"):
            kw["dtype"] = getattr(xp, p["dtype"])
        if "correction" in p:
            kw["correction"] = p["correction"]
        return getattr(xp, name)(a[0], **kw)

    return cub


def _red_ref(npname):
    f = getattr(np, npname)

    def ref(v, p):
        kw = dict(axis=_ax(p), keepdims=p["keepdims"])
        if p.get("dtype"):
            kw["dtype"] = p["dtype"]
        if "correction" in p:
            kw["ddof"] = p["correction"]
        return f(v[0], **kw)

    return ref


def _nonempty_along(v, p):
    ax = _ax(p)
    if ax is None:
        return v.size > 0
    if isinstance(ax, int):
        ax = (ax,)
    return all(v.shape[a] > 0 for a in ax)


def _red(name, cat, cls, npname=None, has_dtype=False, need_nonempty=False, weight=2, extra_pred=None):
    s = CATS[cat]

    def pred(a):
        if dn(a) not in s:
            return False
        if need_nonempty and a.size == 0:
            return False
        return extra_pred(a) if extra_pred else True

    base_ref = _red_ref(npname or name)

    def ref(v, p):
        if need_nonempty and not _nonempty_along(v[0], p):
            raise ValueError("empty reduction")
        return base_ref(v, p)

    reg(Op(name, 1, pred, _red_params(has_dtype), _red_cub(name), ref, cls, ("reduction",), weight))


_red("sum", "all", "reassoc", has_dtype=True, weight=4)
_red("prod", "all", "reassoc-prod", has_dtype=True)
_red("max", "realnum", "exact", need_nonempty=True, weight=3)
_red("min", "realnum", "exact", need_nonempty=True)
_red("mean", "numeric", "mean", need_nonempty=True, weight=3, extra_pred=lambda a: dn(a) != "bool")
_red("any", "all", "discont")
_red("all", "all", "discont")
_red("count_nonzero", "all", "discont")


def _var_params(draw, st, vals):
    p = _red_params()(draw, st, vals)
    p["correction"] = draw(st.sampled_from([0, 0, 1]))
    return p


def _var_ok(v, p):
    ax = _ax(p)
    if ax is None:
        n = v.size
    else:
        n = int(np.prod([v.shape[a] for a in ((ax,) if isinstance(ax, int) else ax)]))
    return n - p["correction"] > 0


for _n in ("var", "std"):

    def _ref(v, p, _n=_n):
        if not _var_ok(v[0], p):
            raise ValueError("degrees of freedom <= 0")
        if not np.all(np.isfinite(v[0])):
            raise ValueError("var of non-finite data not compared")
        return _red_ref(_n)(v, p)

    reg(Op(_n, 1, lambda a: dn(a) in REALF and a.size > 0 and a.ndim > 0, _var_params, _red_cub(_n), _ref, "var", ("reduction",), 2))


def _arg_params(draw, st, vals):
    v = vals[0]
    return {"axis": axis_param(draw, st, v, allow_tuple=False), "keepdims": draw(st.booleans()), "split_every": split_every_param(draw, st, v, None)}


for _n in ("argmax", "argmin"):

    def _ref(v, p, _n=_n):
        if not _nonempty_along(v[0], p):
            raise ValueError("empty")
        return getattr(np, _n)(v[0], axis=p["axis"], keepdims=p["keepdims"])

    reg(Op(_n, 1, lambda a: dn(a) in REALNUM and a.size > 0, _arg_params, _red_cub(_n), _ref, "discont", ("reduction", "arg", "helper-array"), 2))


# cumulative
def _cum_params(draw, st, vals):
    v = vals[0]
    ax = draw(st.integers(-v.ndim, v.ndim - 1)) if v.ndim > 1 or draw(st.booleans()) else None
    p = {"axis": ax}
    if draw(st.integers(0, 5)) == 0:
        p["include_initial"] = True
    return p


for _n in ("cumulative_sum", "cumulative_prod"):

    def _cub(xp, a, p, _n=_n):
        kw = {"axis": p["axis"]}
        if p.get("include_initial"):
            kw["include_initial"] = True
        return getattr(xp, _n)(a[0], **kw)

    def _ref(v, p, _n=_n):
        kw = {"axis": p["axis"]}
        if p.get("include_initial"):
            kw["include_initial"] = True
        return getattr(np, _n)(v[0], **kw)

    reg(Op(_n, 1, lambda a: dn(a) in NUMERIC and a.ndim >= 1, _cum_params, _cub, _ref, "reassoc" if _n.endswith("sum") else "reassoc-prod", ("scan",), 2))


# --------------------------------------------------------------------------- nan functions
def _nan_red(name, cls, has_corr=False, arg=False):
    def params(draw, st, vals):
        if arg:
            p = _arg_params(draw, st, vals)
        else:
            p = _red_params()(draw, st, vals)
        if has_corr:
            p["correction"] = draw(st.sampled_from([0, 0, 1]))
        return p

    def cub(xp, a, p):
        import cubed

        kw = dict(axis=_ax(p), keepdims=p["keepdims"])
        if p.get("split_every") is not None:
            kw["split_every"] = p["split_every"]
        if has_corr:
            kw["correction"] = p["correction"]
        return getattr(cubed, name)(a[0], **kw)

    def ref(v, p):
        x = v[0]
        ax = _ax(p)
        if not _nonempty_along(x, p):
            raise ValueError("empty")
        # all-NaN slices: NumPy warns/raises; keep those out of the domain
        if kind(dn(x)) in "fc":
            nn = np.sum(~np.isnan(x), axis=ax)
            need = 1 + (p.get("correction", 0) if has_corr else 0)
            if np.any(nn < need):
                raise ValueError("all-NaN slice")
            if name in ("nanvar", "nanstd") and not np.all(np.isfinite(x[~np.isnan(x)])):
                raise ValueError("var of non-finite")
            if name in ("nansum", "nanmean") and np.isinf(x).any() and np.isneginf(x).any() and np.isposinf(x).any():
                raise ValueError("KNOWN: inf-inf inside a block")
            if name == "nanprod" and np.isinf(x).any():
                raise ValueError("KNOWN: 0*inf inside a block")
        kw = dict(axis=ax, keepdims=p["keepdims"])
        if has_corr:
            kw["ddof"] = p["correction"]
        return getattr(np, name)(x, **kw)

    cat = REALF if (has_corr or name in ("nanmean",)) else (REALNUM if (arg or name in ("nanmax", "nanmin")) else NUMERIC)
    reg(Op(name, 1, lambda a: dn(a) in cat and a.size > 0, params, cub, ref, cls, ("reduction", "nan"), 1))


_nan_red("nansum", "reassoc")
_nan_red("nanprod", "reassoc-prod")
_nan_red("nanmean", "mean")
_nan_red("nanmax", "exact")
_nan_red("nanmin", "exact")
_nan_red("nanvar", "var", has_corr=True)
_nan_red("nanstd", "var", has_corr=True)
_nan_red("nanargmax", "discont", arg=True)
_nan_red("nanargmin", "discont", arg=True)


# --------------------------------------------------------------------------- manipulation
def _flip_params(draw, st, vals):
    return {"axis": axis_param(draw, st, vals[0])}


reg(Op("flip", 1, lambda a: True, _flip_params, lambda xp, a, p: xp.flip(a[0], axis=_ax(p)), lambda v, p: np.flip(v[0], axis=_ax(p)), "exact", ("manip", "selection"), 2))


def _roll_params(draw, st, vals):
    v = vals[0]
    c = draw(st.integers(0, 3))
    if v.ndim == 0 or c == 0:
        return {"shift": draw(st.integers(-9, 9)), "axis": None}
    if c == 1 and v.ndim >= 2:
        axes = draw(st.lists(st.integers(0, v.ndim - 1), min_size=2, max_size=v.ndim, unique=True))
        return {"shift": [draw(st.integers(-5, 5)) for _ in axes], "axis": axes}
    return {"shift": draw(st.integers(-9, 9)), "axis": draw(st.integers(-v.ndim, v.ndim - 1))}


reg(Op("roll", 1, lambda a: True, _roll_params, lambda xp, a, p: xp.roll(a[0], tup(p["shift"]), axis=_ax(p)), lambda v, p: np.roll(v[0], tup(p["shift"]), axis=_ax(p)), "exact", ("manip", "selection"), 2))


def _repeat_params(draw, st, vals):
    v = vals[0]
    ax = draw(st.one_of(st.none(), st.integers(-v.ndim, v.ndim - 1))) if v.ndim else None
    return {"repeats": draw(st.integers(1, 4)), "axis": ax}


reg(Op("repeat", 1, lambda a: True, _repeat_params, lambda xp, a, p: xp.repeat(a[0], p["repeats"], axis=p["axis"]), lambda v, p: np.repeat(v[0], p["repeats"], axis=p["axis"]), "exact", ("manip",), 2))


def _tile_params(draw, st, vals):
    v = vals[0]
    n = draw(st.integers(max(0, v.ndim - 1), v.ndim + 1))
    reps = [draw(st.integers(1, 3)) for _ in range(n)]
    return {"reps": reps}


reg(Op("tile", 1, lambda a: a.size <= 64, _tile_params, lambda xp, a, p: xp.tile(a[0], tuple(p["reps"])), lambda v, p: np.tile(v[0], tuple(p["reps"])), "exact", ("manip",), 1))


def _reshape_params(draw, st, vals):
    v = vals[0]
    n = v.size
    if n == 0:
        return None
    divs = [d for d in range(1, n + 1) if n % d == 0]
    k = draw(st.integers(0, 3))
    if k == 0:
        shape = [n]
    elif k == 1:
        d = draw(st.sampled_from(divs))
        shape = [d, n // d]
    elif k == 2:
        d = draw(st.sampled_from(divs))
        rest = n // d
        d2 = draw(st.sampled_from([x for x in divs if rest % x == 0]))
        shape = [d, d2, rest // d2]
    else:
        shape = list(v.shape)
        if shape:
            i = draw(st.integers(0, len(shape)))
            shape.insert(i, 1)
        else:
            shape = [1]
    if draw(st.integers(0, 4)) == 0 and shape:
        shape[draw(st.integers(0, len(shape) - 1))] = -1
    return {"shape": shape}


reg(Op("reshape", 1, lambda a: a.size > 0, _reshape_params, lambda xp, a, p: xp.reshape(a[0], tuple(p["shape"])), lambda v, p: np.reshape(v[0], tuple(p["shape"])), "exact", ("manip",), 3))


def _perm_params(draw, st, vals):
    return {"axes": list(draw(st.permutations(range(vals[0].ndim))))}


reg(Op("permute_dims", 1, lambda a: a.ndim >= 1, _perm_params, lambda xp, a, p: xp.permute_dims(a[0], tuple(p["axes"])), lambda v, p: np.transpose(v[0], p["axes"]), "exact", ("manip",), 2))
reg(Op("matrix_transpose", 1, lambda a: a.ndim >= 2, _noparams, lambda xp, a, p: xp.matrix_transpose(a[0]), lambda v, p: np.swapaxes(v[0], -1, -2), "exact", ("manip",), 1))
reg(Op("attr_T", 1, lambda a: a.ndim == 2, _noparams, lambda xp, a, p: a[0].T, lambda v, p: v[0].T, "exact", ("manip",), 1))
reg(Op("attr_mT", 1, lambda a: a.ndim >= 2, _noparams, lambda xp, a, p: a[0].mT, lambda v, p: np.swapaxes(v[0], -1, -2), "exact", ("manip",), 1))


def _moveaxis_params(draw, st, vals):
    nd = vals[0].ndim
    if draw(st.booleans()) or nd < 2:
        return {"src": draw(st.integers(-nd, nd - 1)), "dst": draw(st.integers(-nd, nd - 1))}
    k = draw(st.integers(2, nd))
    return {"src": draw(st.permutations(range(nd)))[:k], "dst": draw(st.permutations(range(nd)))[:k]}


reg(Op("moveaxis", 1, lambda a: a.ndim >= 1, _moveaxis_params, lambda xp, a, p: xp.moveaxis(a[0], tup(p["src"]), tup(p["dst"])), lambda v, p: np.moveaxis(v[0], tup(p["src"]), tup(p["dst"])), "exact", ("manip",), 1))


def _expand_params(draw, st, vals):
    nd = vals[0].ndim
    if draw(st.integers(0, 3)) == 0:
        k = draw(st.integers(1, 2))
        axes = sorted(draw(st.lists(st.integers(0, nd + k - 1), min_size=k, max_size=k, unique=True)))
        return {"axis": axes}
    return {"axis": draw(st.integers(-(nd + 1), nd))}


reg(Op("expand_dims", 1, lambda a: a.ndim <= 3, _expand_params, lambda xp, a, p: xp.expand_dims(a[0], axis=_ax(p)), lambda v, p: np.expand_dims(v[0], _ax(p)), "exact", ("manip",), 2))


def _squeeze_params(draw, st, vals):
    ones = [i for i, s in enumerate(vals[0].shape) if s == 1]
    if not ones:
        return None
    if draw(st.booleans()):
        return {"axis": draw(st.sampled_from(ones)) - (vals[0].ndim if draw(st.booleans()) else 0)}
    return {"axis": draw(st.lists(st.sampled_from(ones), min_size=1, max_size=len(ones), unique=True))}


reg(Op("squeeze", 1, lambda a: 1 in a.shape, _squeeze_params, lambda xp, a, p: xp.squeeze(a[0], axis=_ax(p)), lambda v, p: np.squeeze(v[0], axis=_ax(p)), "exact", ("manip",), 2))


def _bto_params(draw, st, vals):
    v = vals[0]
    lead = [draw(st.integers(1, 3)) for _ in range(draw(st.integers(0, max(0, 3 - v.ndim))))]
    shape = lead + [s if s != 1 else draw(st.integers(1, 4)) for s in v.shape]
    return {"shape": shape}


reg(Op("broadcast_to", 1, lambda a: a.ndim <= 3, _bto_params, lambda xp, a, p: xp.broadcast_to(a[0], tuple(p["shape"])), lambda v, p: np.broadcast_to(v[0], tuple(p["shape"])), "exact", ("manip", "helper-array"), 2))


def _concat_pred(*vs):
    a = vs[0]
    if a.ndim == 0:
        return False
    return all(v.ndim == a.ndim and (dn(v) == dn(a) or can_promote(a, v)) for v in vs)


def _concat_params(draw, st, vals):
    a = vals[0]
    axes = [ax for ax in range(a.ndim) if all(all(v.shape[i] == a.shape[i] for i in range(a.ndim) if i != ax) for v in vals)]
    if not axes:
        if all(v.size == a.size for v in vals) and False:
            return {"axis": None}
        return None
    ax = draw(st.sampled_from(axes))
    if draw(st.booleans()):
        ax -= a.ndim
    return {"axis": ax}


reg(Op("concat", "list", _concat_pred, _concat_params, lambda xp, a, p: xp.concat(list(a), axis=p["axis"]), lambda v, p: np.concatenate(list(v), axis=p["axis"]), "exact", ("manip", "multi"), 3))


def _stack_pred(*vs):
    a = vs[0]
    return a.ndim <= 3 and all(v.shape == a.shape and (dn(v) == dn(a) or can_promote(a, v)) for v in vs)


reg(Op("stack", "list", _stack_pred, lambda draw, st, vals: {"axis": draw(st.integers(-(vals[0].ndim + 1), vals[0].ndim))}, lambda xp, a, p: xp.stack(list(a), axis=p["axis"]), lambda v, p: np.stack(list(v), axis=p["axis"]), "exact", ("manip", "multi"), 3))

reg(Op("unstack", 1, lambda a: a.ndim >= 1 and 1 <= a.shape[0] <= 6, lambda draw, st, vals: {"axis": draw(st.integers(-vals[0].ndim, vals[0].ndim - 1))},
       lambda xp, a, p: tuple(xp.unstack(a[0], axis=p["axis"])), lambda v, p: tuple(np.moveaxis(v[0], p["axis"], 0)) if v[0].shape[p["axis"]] <= 6 else (_ for _ in ()).throw(ValueError("too many")), "exact", ("manip", "multi-output"), 2))


def _barr_pred(a, b):
    return bshape_ok(a, b)


reg(Op("broadcast_arrays", 2, _barr_pred, _noparams, lambda xp, a, p: tuple(xp.broadcast_arrays(a[0], a[1])), lambda v, p: tuple(np.broadcast_arrays(v[0], v[1])), "exact", ("manip", "multi-output-single-parent"), 1))

reg(Op("meshgrid", 2, lambda a, b: a.ndim == 1 and b.ndim == 1 and a.size > 0 and b.size > 0 and can_promote(a, b) and dn(a) == dn(b), lambda draw, st, vals: {"indexing": draw(st.sampled_from(["xy", "ij"]))},
       lambda xp, a, p: tuple(xp.meshgrid(a[0], a[1], indexing=p["indexing"])), lambda v, p: tuple(np.meshgrid(v[0], v[1], indexing=p["indexing"])), "exact", ("creation", "multi-output-single-parent"), 1))

reg(Op("pick", 1, None, None, lambda xp, a, p: a[0][p["k"]], lambda v, p: v[0][p["k"]], "exact", ("pick",), 0))


# --------------------------------------------------------------------------- indexing
def _index_params(draw, st, vals):
    v = vals[0]
    key = []
    used_array = False
    for n in v.shape:
        c = draw(st.integers(0, 11))
        if c < 2 and n > 0:
            key.append(draw(st.integers(-n, n - 1)))
        elif c < 3:
            key.append(slice(None))
        elif c < 4 and n > 0 and not used_array:
            used_array = True
            key.append([draw(st.integers(-n, n - 1)) for _ in range(draw(st.integers(1, 5)))])
        else:
            key.append(
                slice(
                    draw(st.one_of(st.none(), st.integers(-n - 1, n + 1))),
                    draw(st.one_of(st.none(), st.integers(-n - 1, n + 1))),
                    draw(st.sampled_from([None, 1, 1, 2, 3, 4, -1, -2, -3])),
                )
            )
    c = draw(st.integers(0, 9))
    if c == 0 and key:
        # ellipsis replacing a run of full slices at the end / start
        k = draw(st.integers(0, len(key)))
        key = key[:k] + [Ellipsis]
    elif c == 1:
        key.insert(draw(st.integers(0, len(key))), None)
    elif c == 2 and len(key) > 1:
        key = key[: draw(st.integers(1, len(key) - 1))]
    return {"key": enc_key(key)}


def _index_cub(xp, a, p):
    key = dec_key(p["key"], arr=lambda x, dtype=None: np.asarray(x, dtype=np.int64))
    return a[0][key]


def _index_ref(v, p):
    key = dec_key(p["key"])
    return v[0][key]


reg(Op("index", 1, lambda a: a.ndim >= 1, _index_params, _index_cub, _index_ref, "exact", ("selection", "index"), 5))


def _take_params(draw, st, vals):
    v = vals[0]
    ax = draw(st.integers(-v.ndim, v.ndim - 1)) if (v.ndim > 1 or draw(st.booleans())) else None
    n = v.size if ax is None else v.shape[ax]
    return {"axis": ax, "idx": [draw(st.integers(0, n - 1)) for _ in range(draw(st.integers(1, 6)))]}


reg(Op("take", 1, lambda a: a.ndim >= 1 and a.size > 0, _take_params, lambda xp, a, p: xp.take(a[0], np.asarray(p["idx"], dtype=np.int64), axis=p["axis"]), lambda v, p: np.take(v[0], p["idx"], axis=p["axis"]), "exact", ("selection", "index"), 1))


def _blocks_pred(a):
    return a.ndim >= 1 and a.size > 0


reg(Op("blocks", 1, _blocks_pred, None, None, None, "exact", ("selection", "blocks"), 1))  # filled in by the builder (needs chunks)


# --------------------------------------------------------------------------- linear algebra
def _mm_pred(a, b):
    if not (dn(a) in NUMERIC and dn(b) in NUMERIC and can_promote(a, b)):
        return False
    if a.ndim == 0 or b.ndim == 0:
        return False
    try:
        np.matmul(np.empty(a.shape, dtype=bool), np.empty(b.shape, dtype=bool))
        return True
    except Exception:
        return False


reg(Op("matmul", 2, _mm_pred, lambda draw, st, vals: {"op": draw(st.booleans())}, lambda xp, a, p: (a[0] @ a[1]) if p["op"] else xp.matmul(a[0], a[1]), lambda v, p: np.matmul(v[0], v[1]), "reassoc", ("linalg", "contraction"), 3))


def _td_pred(a, b):
    return dn(a) in NUMERIC and dn(b) in NUMERIC and can_promote(a, b) and a.ndim >= 1 and b.ndim >= 1


def _td_params(draw, st, vals):
    a, b = vals
    pairs = [(i, j) for i in range(a.ndim) for j in range(b.ndim) if a.shape[i] == b.shape[j]]
    if not pairs:
        return None
    k = draw(st.sampled_from([1, 2, 2]))  # contractions over two axes are the ones a single-axis test never reaches
    chosen = []
    for _ in range(k):
        avail = [(i, j) for (i, j) in pairs if all(i != ci and j != cj for ci, cj in chosen)]
        if not avail:
            break
        chosen.append(draw(st.sampled_from(avail)))
    return {"axes": [[c[0] for c in chosen], [c[1] for c in chosen]]}


reg(Op("tensordot", 2, _td_pred, _td_params, lambda xp, a, p: xp.tensordot(a[0], a[1], axes=(tuple(p["axes"][0]), tuple(p["axes"][1]))), lambda v, p: np.tensordot(v[0], v[1], axes=(p["axes"][0], p["axes"][1])), "reassoc", ("linalg", "contraction"), 2))


def _vd_pred(a, b):
    return dn(a) in NUMERIC and dn(b) in NUMERIC and can_promote(a, b) and a.ndim >= 1 and b.ndim >= 1 and kind(dn(a)) != "c" and kind(dn(b)) != "c"


def _vd_params(draw, st, vals):
    a, b = vals
    nd = min(a.ndim, b.ndim)
    axes = [-k for k in range(1, nd + 1) if a.shape[-k] == b.shape[-k]]
    ok = []
    for ax in axes:
        sa = list(a.shape)
        sb = list(b.shape)
        del sa[ax]
        del sb[ax]
        try:
            np.broadcast_shapes(tuple(sa), tuple(sb))
            ok.append(ax)
        except ValueError:
            pass
    if not ok:
        return None
    return {"axis": draw(st.sampled_from(ok))}


reg(Op("vecdot", 2, _vd_pred, _vd_params, lambda xp, a, p: xp.vecdot(a[0], a[1], axis=p["axis"]), lambda v, p: np.vecdot(v[0], v[1], axis=p["axis"]), "reassoc", ("linalg", "contraction"), 1))

reg(Op("outer", 2, lambda a, b: a.ndim == 1 and b.ndim == 1 and dn(a) in NUMERIC and dn(b) in NUMERIC and can_promote(a, b), _noparams, lambda xp, a, p: xp.linalg.outer(a[0], a[1]), lambda v, p: np.outer(v[0], v[1]), "exact", ("linalg",), 1))

for _n in ("tril", "triu"):
    reg(Op(_n, 1, lambda a: a.ndim >= 2, lambda draw, st, vals: {"k": draw(st.integers(-3, 3))}, lambda xp, a, p, _n=_n: getattr(xp, _n)(a[0], k=p["k"]), lambda v, p, _n=_n: getattr(np, _n)(v[0], k=p["k"]), "exact", ("creation", "helper-array"), 1))


# --------------------------------------------------------------------------- searching / sets / misc
def _ss_pred(a, b):
    if not (a.ndim == 1 and a.size > 0 and dn(a) in REALNUM and dn(b) in REALNUM and can_promote(a, b)):
        return False
    if kind(dn(a)) == "f" and np.isnan(a).any():
        return False
    return bool(np.all(a[:-1] <= a[1:]))


reg(Op("searchsorted", 2, _ss_pred, lambda draw, st, vals: {"side": draw(st.sampled_from(["left", "right"]))}, lambda xp, a, p: xp.searchsorted(a[0], a[1], side=p["side"]), lambda v, p: np.searchsorted(v[0], v[1], side=p["side"]), "discont", ("search", "helper-array"), 1))

reg(Op("sort_input", 1, lambda a: False, None, None, None))  # placeholder (never drawn)

reg(Op("isin", 2, lambda a, b: dn(a) in REALNUM | BOOL and dn(b) in REALNUM | BOOL and can_promote(a, b) and b.ndim >= 1 and b.size <= 64, lambda draw, st, vals: {"invert": draw(st.booleans())}, lambda xp, a, p: xp.isin(a[0], a[1], invert=p["invert"]), lambda v, p: np.isin(v[0], v[1], invert=p["invert"]), "discont", ("search",), 1))


def _diff_params(draw, st, vals):
    v = vals[0]
    ax = draw(st.integers(-v.ndim, v.ndim - 1))
    n = draw(st.integers(0, 2))
    if v.shape[ax] < 1:
        return None
    p = {"axis": ax, "n": n}
    for nm in ("prepend", "append"):
        if draw(st.integers(0, 3)) == 0:
            p[nm] = draw(st.integers(1, 3))
    return p


def _diff_extra(v, p, nm, mk):
    if nm not in p:
        return None
    sh = list(v.shape)
    sh[p["axis"]] = p[nm]
    return mk(tuple(sh))


def _diff_cub(xp, a, p):
    kw = {}
    for i, nm in enumerate(("prepend", "append")):
        if nm in p:
            sh = list(a[0].shape)
            sh[p["axis"]] = p[nm]
            d = make_data(sh, str(a[0].dtype), k=11 + i)
            kw[nm] = xp.asarray(d, chunks=tuple(max(1, min(2, s)) for s in sh), spec=a[0].spec)
    return xp.diff(a[0], axis=p["axis"], n=p["n"], **kw)


def _diff_ref(v, p):
    kw = {}
    for i, nm in enumerate(("prepend", "append")):
        if nm in p:
            sh = list(v[0].shape)
            sh[p["axis"]] = p[nm]
            kw[nm] = make_data(sh, dn(v[0]), k=11 + i)
    if v[0].shape[p["axis"]] + p.get("prepend", 0) + p.get("append", 0) <= p["n"]:
        raise ValueError("diff would be empty")
    return np.diff(v[0], axis=p["axis"], n=p["n"], **kw)


reg(Op("diff", 1, lambda a: a.ndim >= 1 and dn(a) in NUMERIC and a.size > 0, _diff_params, _diff_cub, _diff_ref, "exact", ("misc", "selection"), 1))


def _pad_params(draw, st, vals):
    v = vals[0]
    mode = draw(st.sampled_from(["constant", "constant", "symmetric"]))
    if mode == "symmetric":
        ax = draw(st.integers(0, v.ndim - 1))
        # symmetric: pad width limited by the array length along that axis
        pw = [[0, 0] for _ in range(v.ndim)]
        pw[ax] = [draw(st.integers(0, min(2, v.shape[ax]))), draw(st.integers(0, min(2, v.shape[ax])))]
    else:
        pw = [[draw(st.integers(0, 3)), draw(st.integers(0, 3))] for _ in range(v.ndim)]
    return {"pad_width": pw, "mode": mode, "cv": draw(st.sampled_from([0, 1, 7]))}


def _pad_cub(xp, a, p):
    import cubed

    kw = {"mode": p["mode"]}
    if p["mode"] == "constant":
        kw["constant_values"] = p["cv"]
    return cubed.pad(a[0], tuple(tuple(w) for w in p["pad_width"]), **kw)


def _pad_ref(v, p):
    kw = {"mode": p["mode"]}
    if p["mode"] == "constant":
        kw["constant_values"] = p["cv"]
    return np.pad(v[0], p["pad_width"], **kw)


reg(Op("pad", 1, lambda a: a.ndim >= 1 and a.size > 0 and dn(a) in REALNUM, _pad_params, _pad_cub, _pad_ref, "exact", ("misc", "helper-array"), 1))


# --------------------------------------------------------------------------- chunk-level API
def _rechunk_params(draw, st, vals):
    v = vals[0]
    ch = []
    for s in v.shape:
        s1 = max(s, 1)
        ch.append(min(s1, draw(st.sampled_from([1, 2, 3, s1, (s1 + 1) // 2, draw(st.integers(1, s1))]))))
    return {"chunks": ch, "method": draw(st.booleans()), "allow_irregular": draw(st.sampled_from([True, True, False]))}


def _rechunk_cub(xp, a, p):
    import cubed

    kw = {} if p.get("allow_irregular", True) else {"allow_irregular": False}
    if p.get("method", True):
        return a[0].rechunk(tuple(p["chunks"]), **kw)
    return cubed.rechunk(a[0], tuple(p["chunks"]), **kw)


reg(Op("rechunk", 1, lambda a: a.ndim >= 1 and a.size > 0, _rechunk_params, _rechunk_cub, lambda v, p: v[0], "exact", ("chunk", "rechunk"), 3))


def _store_lazy_params(draw, st, vals):
    v = vals[0]
    mode = draw(st.sampled_from(["same", "divide", "other", "path", "path"]))
    div = [draw(st.sampled_from([1, 2, 3])) for _ in v.shape]
    other = [min(max(s, 1), draw(st.sampled_from([1, 2, 3, 5]))) for s in v.shape]
    return {"mode": mode, "div": div, "other": other, "api": draw(st.sampled_from(["store", "to_zarr"]))}


STORE_TARGETS = []  # (target, is_path) of every store_lazy node built since the last reset (checks clear it)


def _store_lazy_cub(xp, a, p):
    """the array returned by store/to_zarr(..., compute=False), used as an ordinary node of the program (opt-in: store_mid)"""
    import os
    import uuid

    import cubed
    import zarr
    from zarr.storage import LocalStore, MemoryStore

    x = a[0]
    wd = getattr(x.spec, "work_dir", None)

    def new_store():
        if wd is not None and "://" not in str(wd):
            d = os.path.join(str(wd), "vp-targets", uuid.uuid4().hex + ".zarr")
            os.makedirs(os.path.dirname(d), exist_ok=True)
            return LocalStore(d)
        return MemoryStore()

    if p["mode"] == "path":
        target = new_store()
        STORE_TARGETS.append((target, True))
    else:
        if p["mode"] == "same":
            ch = tuple(x.chunksize)
        elif p["mode"] == "divide":
            ch = tuple(max(1, c // d) if c % d == 0 else c for c, d in zip(x.chunksize, p["div"]))
        else:
            ch = tuple(min(max(n, 1), c) for n, c in zip(x.shape, p["other"]))
        target = zarr.create_array(new_store(), shape=x.shape, chunks=ch, dtype=x.dtype)
        STORE_TARGETS.append((target, False))
    if p["api"] == "to_zarr" or p["mode"] == "path":
        return cubed.to_zarr(x, target, compute=False)
    return cubed.store([x], [target], compute=False)[0]


# weight 0: only generated where a check opts in (opts["store_mid"]); the value is the source's
reg(Op("store_lazy", 1, lambda a: a.ndim >= 1 and a.size > 0 and a.dtype.names is None, _store_lazy_params, _store_lazy_cub, lambda v, p: v[0], "exact", ("store-mid",), 0))


def _mb_fn(x, block_id=None, k=1):
    return x * k + sum(int(b) * (10 ** i) for i, b in enumerate(block_id))


def _mb_plain(x, k=1):
    return x * k + 1


def _mb_params(draw, st, vals):
    return {"bid": draw(st.booleans()), "k": draw(st.integers(1, 3))}


def _mb_cub(xp, a, p):
    import cubed

    if p["bid"]:
        return cubed.map_blocks(_mb_fn, a[0], dtype=a[0].dtype, k=p["k"])
    return cubed.map_blocks(_mb_plain, a[0], dtype=a[0].dtype, k=p["k"])


reg(Op("map_blocks", 1, lambda a: dn(a) in ("int64", "float64"), _mb_params, _mb_cub, None, "exact", ("chunk", "helper-array"), 2))  # ref needs chunks: builder


def _mb2_fn(x, y):
    return x * 2 + y


def _mb2_cub(xp, a, p):
    import cubed

    x, y = a
    # map_blocks pairs blocks by index: corresponding blocks are the caller's responsibility (documented contract)
    if x.chunks != y.chunks:
        y = y.rechunk(x.chunksize)
    return cubed.map_blocks(_mb2_fn, x, y, dtype=x.dtype)


reg(Op("map_blocks2", 2, lambda a, b: a.shape == b.shape and dn(a) == dn(b) and dn(a) in ("int64", "float64"), _noparams,
       _mb2_cub, lambda v, p: v[0] * 2 + v[1], "exact", ("chunk", "multi"), 1))


def _mbnp_fn(p, q):
    return p * 3 + q


def _mbnp_params(draw, st, vals):
    return {"np_first": draw(st.booleans())}


def _mbnp_cub(xp, a, p):
    import cubed

    x = a[0]
    if any(nb != 1 for nb in x.numblocks):
        x = x.rechunk(x.shape)  # a non-cubed argument becomes a one-chunk array; blocks are paired by index
    n = make_data(list(x.shape), str(x.dtype), k=7)
    return cubed.map_blocks(_mbnp_fn, n, x, dtype=x.dtype) if p["np_first"] else cubed.map_blocks(_mbnp_fn, x, n, dtype=x.dtype)


def _mbnp_ref(v, p):
    n = make_data(list(v[0].shape), dn(v[0]), k=7)
    return n * 3 + v[0] if p["np_first"] else v[0] * 3 + n


# map_blocks with a NumPy array among its arguments (coerced to a cubed array under the operands' spec)
reg(Op("map_blocks_np", 1, lambda a: dn(a) in ("int64", "float64") and a.ndim >= 1 and 0 < a.size <= 64, _mbnp_params, _mbnp_cub, _mbnp_ref, "exact", ("chunk", "helper-array"), 1))


def _ov_params(draw, st, vals):
    return {"depth": draw(st.integers(1, 2)), "boundary": draw(st.sampled_from([0, 5]))}


def _window_sum(x):
    import itertools

    out = np.zeros_like(x)
    for offs in itertools.product((-1, 0, 1), repeat=x.ndim):
        out = out + np.roll(x, offs, axis=tuple(range(x.ndim)))
    return out


def _ov_fn(x, d=1):
    # 3^ndim window sum; the block arrives with `d` extra elements on every side, which are trimmed off again
    core = tuple(slice(d, -d) for _ in range(x.ndim))
    return _window_sum(x)[core]


def _ov_cub(xp, a, p):
    import cubed

    return cubed.map_overlap(_ov_fn, a[0], dtype=a[0].dtype, chunks=a[0].chunks, depth=p["depth"], boundary=p["boundary"], d=p["depth"])


def _ov_ref(v, p):
    x = v[0]
    d = p["depth"]
    padded = np.pad(x, d, mode="constant", constant_values=p["boundary"])
    core = tuple(slice(d, -d) for _ in range(x.ndim))
    return _window_sum(padded)[core]


reg(Op("map_overlap", 1, lambda a: 1 <= a.ndim <= 2 and dn(a) == "int64" and a.size > 0, None, _ov_cub, _ov_ref, "exact", ("chunk", "selection"), 1))


def _gu_params(draw, st, vals):
    return {"sig": draw(st.sampled_from(["(i)->()", "()->()", "(i)->(i)"]))}


def _gu_sum(x):
    return np.sum(x, axis=-1)


def _gu_id(x):
    return x + 1


def _gu_cub(xp, a, p):
    import cubed

    x = a[0]
    if p["sig"] == "(i)->()":
        return cubed.apply_gufunc(_gu_sum, "(i)->()", x, output_dtypes=x.dtype)
    if p["sig"] == "()->()":
        return cubed.apply_gufunc(_gu_id, "()->()", x, output_dtypes=x.dtype)
    return cubed.apply_gufunc(_gu_id, "(i)->(i)", x, output_dtypes=x.dtype)


def _gu_ref(v, p):
    if p["sig"] == "(i)->()":
        return np.sum(v[0], axis=-1)
    return v[0] + 1


reg(Op("apply_gufunc", 1, lambda a: a.ndim >= 1 and dn(a) in ("int64", "float64") and a.size > 0, _gu_params, _gu_cub, _gu_ref, "exact", ("chunk", "gufunc"), 1))


def _gu2_add(x, y):
    return x + np.sum(y, axis=-1)


reg(Op("apply_gufunc2", 2, lambda a, b: b.ndim >= 1 and b.shape[:-1] == a.shape and dn(a) == dn(b) == "int64" and b.size > 0, _noparams,
       lambda xp, a, p: __import__("cubed").apply_gufunc(_gu2_add, "(),(j)->()", a[0], a[1], output_dtypes=a[0].dtype), lambda v, p: v[0] + np.sum(v[1], axis=-1), "exact", ("chunk", "gufunc", "multi"), 1))


# like-creation
def _like_params(draw, st, vals):
    v = vals[0]
    p = {}
    c = draw(st.integers(0, 1))
    if c == 0 and v.ndim >= 1:
        # explicit chunks= for the new array
        p["chunks"] = [max(1, min(draw(st.sampled_from([1, 2, 3, max(s, 1)])), max(s, 1))) for s in v.shape]
    if draw(st.integers(0, 4)) == 0:
        p["dtype"] = draw(st.sampled_from(["int64", "float64", "float32", "bool"]))
    return p


for _n in ("ones_like", "zeros_like", "full_like"):

    def _cub(xp, a, p, _n=_n):
        kw = {}
        if p.get("chunks"):
            kw["chunks"] = tuple(p["chunks"])
        if p.get("dtype"):
            kw["dtype"] = getattr(xp, p["dtype"])
        if _n == "full_like":
            return xp.full_like(a[0], 3, **kw)
        return getattr(xp, _n)(a[0], **kw)

    def _ref(v, p, _n=_n):
        kw = {"dtype": p["dtype"]} if p.get("dtype") else {}
        if _n == "full_like":
            return np.full_like(v[0], 3, **kw)
        return getattr(np, _n)(v[0], **kw)

    reg(Op(_n, 1, lambda a: True, _like_params, _cub, _ref, "exact", ("creation", "helper-array"), 1))

reg(Op("empty_like", 1, lambda a: True, _noparams, lambda xp, a, p: xp.empty_like(a[0]), lambda v, p: np.empty_like(v[0]), "shape-only", ("creation",), 0))


# qr / svd: validity predicates
def _qr_pred(a):
    # NumPy's own svd/qr reject or diverge on non-finite input: outside the domain
    return a.ndim == 2 and dn(a) == "float64" and a.shape[0] >= a.shape[1] >= 1 and bool(np.all(np.isfinite(a)))


reg(Op("qr", 1, _qr_pred, _noparams, lambda xp, a, p: tuple(xp.linalg.qr(a[0])), lambda v, p: tuple(np.linalg.qr(v[0])), "qr", ("linalg", "multi-output"), 1))
reg(Op("svdvals", 1, _qr_pred, _noparams, lambda xp, a, p: xp.linalg.svdvals(a[0]), lambda v, p: np.linalg.svd(v[0], compute_uv=False), "svdvals", ("linalg",), 1))
reg(Op("svd", 1, _qr_pred, _noparams, lambda xp, a, p: tuple(xp.linalg.svd(a[0], full_matrices=False)), lambda v, p: tuple(np.linalg.svd(v[0], full_matrices=False)), "svd", ("linalg", "multi-output"), 1))



def _qr_recon(xp, a, p):
    Q, R = xp.linalg.qr(a[0])
    return xp.matmul(Q, R)


def _svd_recon(xp, a, p):
    U, S, Vh = xp.linalg.svd(a[0], full_matrices=False)
    return xp.matmul(U * S, Vh)


reg(Op("qr_recon", 1, _qr_pred, _noparams, _qr_recon, lambda v, p: v[0], "recon", ("linalg",), 1))
reg(Op("svd_recon", 1, _qr_pred, _noparams, _svd_recon, lambda v, p: v[0], "recon", ("linalg",), 1))

for _n in ("nancumsum", "nancumprod"):

    def _cub(xp, a, p, _n=_n):
        import cubed

        return getattr(cubed, _n)(a[0], axis=p["axis"])

    def _ref(v, p, _n=_n):
        if p.get("include_initial"):
            raise ValueError("n/a")
        return getattr(np, _n)(v[0], axis=p["axis"])

    reg(Op(_n, 1, lambda a: dn(a) in REALF and a.ndim >= 1, lambda draw, st, vals: {"axis": draw(st.integers(-vals[0].ndim, vals[0].ndim - 1)) if vals[0].ndim > 1 or draw(st.booleans()) else None}, _cub, _ref, "reassoc" if _n.endswith("sum") else "reassoc-prod", ("scan", "nan"), 1))


def _nanmedian_ref(v, p):
    x = v[0]
    nn = np.sum(~np.isnan(x), axis=p["axis"])
    if np.any(nn < 1):
        raise ValueError("all-NaN slice")
    return np.nanmedian(x, axis=p["axis"], keepdims=p["keepdims"])


reg(Op("nanmedian", 1, lambda a: dn(a) in REALF and a.ndim >= 1 and a.size > 0, lambda draw, st, vals: {"axis": draw(st.integers(-vals[0].ndim, vals[0].ndim - 1)), "keepdims": draw(st.booleans())},
       lambda xp, a, p: __import__("cubed").nanmedian(a[0], axis=p["axis"], keepdims=p["keepdims"]), _nanmedian_ref, "exact", ("reduction", "nan"), 1))

del OPS["sort_input"]

UNCOVERED_OK = {
    # names of cubed.__all__ that are not array-valued functions of arrays or are exercised by dedicated checks
    "Array", "Callback", "Spec", "TaskEndEvent", "__array_api_version__", "__array_namespace_info__", "__version__",
    "bool", "int8", "int16", "int32", "int64", "uint8", "uint16", "uint32", "uint64", "float32", "float64",
    "complex64", "complex128", "e", "inf", "nan", "pi", "newaxis", "config", "linalg", "random",
    "compute", "plan", "visualize", "store", "to_zarr", "measure_reserved_mem", "raise_if_computes",
    "can_cast", "finfo", "iinfo", "isdtype", "result_type", "broadcast_shapes",
    "asarray", "from_array", "from_zarr", "arange", "linspace", "eye", "full", "ones", "zeros", "empty",
}


def api_coverage():
    import cubed

    names = set(cubed.__all__)
    covered = set()
    for n in OPS:
        covered.add(n)
    uncovered = sorted(n for n in names if n not in covered and n not in UNCOVERED_OK)
    return {"ops_in_table": len(OPS), "public_names": len(names), "uncovered": uncovered}
