"""C13 — plan task counts match execution; callbacks see each event exactly once, in order."""
from __future__ import annotations

import shutil
import sys
import warnings

import numpy as np

import vp  # noqa
from vp import c01, core, prog as P, sinks as S
from vp.core import Acc, Failure, Outcome

ID = "C13"
LEVEL = "exploration"
RULE = (
    "Programs from the shared generator (dag and storage-rich profiles: multi-output ops, rechunks, fused chains, array creation) "
    "optionally followed by store/to_zarr sinks (fresh, existing, aligned regions, sharded), computed with a recording Callback on a "
    "drawn executor (single-threaded, threads, processes (sampled), schedule-owning sequential) x optimize_graph x "
    "compute_arrays_in_parallel x batch_size. Oracle over the recorded event sequence and the finalized plan: exactly one "
    "compute_start first and one compute_end last; per operation exactly one operation_start before and one operation_end after "
    "all of its task_end events; sum of task_end.num_tasks per operation == primitive_op.num_tasks == len(list(pipeline.mappable)); "
    "FinalizedPlan.num_tasks == sum over operations; the set of operations in the events == operations of the plan; on the in-process "
    "executors the task bodies actually invoked are counted per operation (pipelines wrapped by a counting function) and must equal the "
    "advertised number, each task input once; a second registered callback sees the same events; in half of the cases the same arrays are computed a second time in the same process and "
    "judged again. "
    "Non-trivial = the plan has an operation whose task list is not the plain chunk grid of a single output (region store, "
    "multi-output, rechunk, fused with other counts) or >= 2 operations in one generation; distinct = canonical JSON."
)
ASSUMPTIONS = ["use_backups stays off (duplicate delivery under backups is C08's business)"]


def case_strategy(opts=None, max_ops=5, executors=None):
    from hypothesis import strategies as st

    ex = executors or ["single-threaded"] * 3 + ["threads"] * 5 + ["schedule"] * 2

    @st.composite
    def cases(draw):
        prog = draw(P.programs(draw(st.sampled_from(["dag", "storage-rich"])), max_ops=max_ops, min_ops=1, opts=opts))
        e = draw(st.sampled_from(ex))
        case = {
            "kind": "program",
            "prog": prog,
            "executor": e,
            "optimize": draw(st.booleans()),
            "sinks": draw(S.sinks_strategy(prog, classes=("fresh", "existing-same", "region-aligned", "region-aligned", "sharded"), max_sinks=2)) if draw(st.integers(0, 2)) == 0 else [],
            # the same arrays are computed a second time in the same process (a re-run, another executor, a retry of the whole call):
            # the advertised counts must hold for every execution, not only the first
            "twice": draw(st.booleans()),
        }
        if e in ("threads", "processes"):
            case["parallel"] = draw(st.booleans())
            case["batch_size"] = draw(st.sampled_from([None, None, 1, 2, 3, 100]))
            case["max_workers"] = draw(st.sampled_from([1, 2, 4]))
        return case

    return cases()


def check_events(events, fp):
    """-> list[(code, msg)]"""
    out = []
    kinds = [e[0] for e in events]
    if kinds.count("compute_start") != 1 or (kinds and kinds[0] != "compute_start"):
        out.append(("compute-start", f"compute_start occurrences={kinds.count('compute_start')}, first event={kinds[0] if kinds else None}"))
    if kinds.count("compute_end") != 1 or (kinds and kinds[-1] != "compute_end"):
        out.append(("compute-end", f"compute_end occurrences={kinds.count('compute_end')}, last event={kinds[-1] if kinds else None}"))
    plan_ops = {}
    for n, d in fp.dag.nodes(data=True):
        if d.get("type") == "op" and "primitive_op" in d:
            plan_ops[n] = d
    seen_ops = {}
    for idx, e in enumerate(events):
        if e[0] in ("operation_start", "operation_end", "task_end"):
            seen_ops.setdefault(e[1], []).append((idx, e))
    if set(seen_ops) != set(plan_ops):
        out.append(("op-set", f"ops in events but not plan: {sorted(set(seen_ops) - set(plan_ops))[:3]}; in plan but no events: {sorted(set(plan_ops) - set(seen_ops))[:3]}"))
    total = 0
    for name, d in plan_ops.items():
        po = d["primitive_op"]
        n_map = len(list(d["pipeline"].mappable))
        total += po.num_tasks
        kind_ = d.get("op_name", "?")
        if po.num_tasks != n_map:
            out.append((f"num_tasks-vs-mappable:{kind_}", f"{name}: primitive_op.num_tasks={po.num_tasks} but the task iterable has {n_map} items"))
        evs = seen_ops.get(name, [])
        starts = [i for i, e in evs if e[0] == "operation_start"]
        ends = [i for i, e in evs if e[0] == "operation_end"]
        tasks = [(i, e) for i, e in evs if e[0] == "task_end"]
        if name in seen_ops:
            if len(starts) != 1:
                out.append((f"operation_start-count:{kind_}", f"{name}: {len(starts)} operation_start events"))
            if len(ends) != 1:
                out.append((f"operation_end-count:{kind_}", f"{name}: {len(ends)} operation_end events"))
            nt = sum((e[2] or 0) for _, e in tasks)
            if nt != po.num_tasks:
                out.append((f"task_end-count:{kind_}", f"{name}: task_end events account for {nt} tasks, plan advertises {po.num_tasks}"))
            if starts and tasks and min(i for i, _ in tasks) < starts[0]:
                out.append((f"task-before-start:{kind_}", f"{name}: a task_end precedes operation_start"))
            if ends and tasks and max(i for i, _ in tasks) > ends[0]:
                out.append((f"task-after-end:{kind_}", f"{name}: a task_end follows operation_end"))
            if starts and ends and ends[0] < starts[0]:
                out.append((f"end-before-start:{kind_}", f"{name}"))
    if fp.num_tasks != total:
        out.append(("plan-total", f"FinalizedPlan.num_tasks={fp.num_tasks} but operations sum to {total}"))
    return out


def check_case(case) -> Outcome:
    import cubed

    from vp import harness as H

    prog = case["prog"]
    ename = case["executor"]
    labels = {f"exec:{ename}", f"optimize:{case['optimize']}", f"parallel:{case.get('parallel')}", f"batch:{case.get('batch_size')}"}
    for s in case.get("sinks") or []:
        labels.add("sink:" + s["cls"])
    spec = c01.make_spec(ename)
    fails = []
    try:
        with warnings.catch_warnings():
            warnings.simplefilter("ignore")
            ctx = None
            sink_ctx = S.SinkCtx()
            if ename == "processes":
                from zarr.storage import LocalStore

                ctx = P.BuildCtx(lambda: LocalStore(c01.Scratch.fresh("in")))
                sink_ctx = S.SinkCtx(local_dir=c01.Scratch.fresh("tg"), traced=False)
            try:
                arrs = P.build_cubed(prog, spec, ctx)
                lazy = S.build_sinks(case.get("sinks") or [], arrs, sink_ctx, spec)
                outs = [arrs[i] for i in prog["outputs"]] + list(lazy)
                fp = cubed.plan(*outs, optimize_graph=case["optimize"])
                fp.validate()
            except Exception as e:
                labels.add(f"declined:{type(e).__name__}")
                return Outcome(labels=tuple(labels))
            if ename == "schedule":
                ex = H.ScheduleExecutor(H.Schedule())
            elif ename in ("threads", "processes"):
                o = {"max_workers": case.get("max_workers", 2)}
                if case.get("batch_size") is not None:
                    o["batch_size"] = case["batch_size"]
                if case.get("parallel") is not None:
                    o["compute_arrays_in_parallel"] = case["parallel"]
                from cubed.runtime.create import create_executor

                ex = create_executor(ename, o)
            else:
                ex = H.make_executor(ename)
            cb = H.RecordingCallback()
            cb2 = H.RecordingCallback()
            counting = None
            if ename in ("threads", "single-threaded"):
                ex = counting = H.CountingExecutor(ex)
            try:
                cubed.compute(*outs, executor=ex, callbacks=[cb, cb2], optimize_graph=case["optimize"], _return_in_memory_array=False)
            except Exception as e:
                labels.add(f"failed:{type(e).__name__}(C17)")
                return Outcome(labels=tuple(labels))
        for code, msg in check_events(cb.events, fp):
            fails.append(Failure(code, msg))
        if case.get("twice") and not fails:
            labels.add("computed-twice")
            with warnings.catch_warnings():
                warnings.simplefilter("ignore")
                cb3 = H.RecordingCallback()
                ex3 = H.CountingExecutor(H.make_executor("single-threaded"))
                try:
                    fp3 = cubed.plan(*outs, optimize_graph=case["optimize"])
                    cubed.compute(*outs, executor=ex3, callbacks=[cb3], optimize_graph=case["optimize"], _return_in_memory_array=False)
                    for code, msg in check_events(cb3.events, fp3):
                        fails.append(Failure("second-run:" + code, msg))
                    for n, d in fp3.dag.nodes(data=True):
                        if d.get("type") == "op" and "primitive_op" in d and len(ex3.calls.get(n, [])) != d["primitive_op"].num_tasks:
                            fails.append(Failure(f"second-run:tasks-run-vs-advertised:{d.get('op_name', '?')}", f"{n}: second execution ran {len(ex3.calls.get(n, []))} task bodies, the plan advertises {d['primitive_op'].num_tasks}"))
                            break
                except Exception as e:
                    labels.add(f"second-run-failed:{type(e).__name__}")
        # every registered callback sees the same events
        strip = lambda evs: sorted((e[0], e[1], e[2] if len(e) > 2 and e[0] == "task_end" else None) for e in evs)  # noqa: E731
        if strip(cb.events) != strip(cb2.events):
            fails.append(Failure("second-callback-sees-different-events", f"first: {len(cb.events)} events, second: {len(cb2.events)}"))
        # tasks actually run, counted at the task body (in-process executors; the schedule-owning executor keeps its own list)
        ran = None
        if counting is not None:
            ran = {n: v for n, v in counting.calls.items()}
        elif ename == "schedule":
            ran = {}
            for (n, m) in ex.tasks_run:
                ran.setdefault(n, []).append(m)
        if ran is not None:
            labels.add("task-bodies-counted")
            for n, d in fp.dag.nodes(data=True):
                if d.get("type") == "op" and "primitive_op" in d:
                    got = ran.get(n, [])
                    if len(got) != d["primitive_op"].num_tasks:
                        fails.append(Failure(f"tasks-run-vs-advertised:{d.get('op_name', '?')}", f"{n}: the executor ran {len(got)} task bodies, the plan advertises {d['primitive_op'].num_tasks}"))
                        break
                    # block keys (tuples of names / integers) identify a task input; other inputs (lazy arrays of create-arrays,
                    # rechunk copy specs) have no reliable identity in their repr and are only counted
                    if n != "create-arrays" and all(g.startswith("('") or g.startswith("(\"") for g in got) and len(set(got)) != len(got):
                        fails.append(Failure(f"task-run-twice:{d.get('op_name', '?')}", f"{n}: some task input was run more than once without retries or backups"))
                        break
            extra = set(ran) - {n for n, d in fp.dag.nodes(data=True) if d.get("type") == "op" and "primitive_op" in d}
            if extra:
                fails.append(Failure("tasks-run-for-unknown-op", f"{sorted(extra)[:3]}"))
        # non-triviality classes
        kinds = [d.get("op_name") for n, d in fp.dag.nodes(data=True) if d.get("type") == "op" and "primitive_op" in d]
        special = False
        for n, d in fp.dag.nodes(data=True):
            if d.get("type") == "op" and "primitive_op" in d and n != "create-arrays":
                po = d["primitive_op"]
                outs_n = list(fp.dag.successors(n))
                if len(outs_n) > 1:
                    labels.add("multi-output-op")
                    special = True
                if d.get("op_name") == "rechunk":
                    labels.add("rechunk-op")
                    special = True
        if any(s["cls"].startswith("region") for s in case.get("sinks") or []):
            special = True
        if len(kinds) >= 3:
            special = True
        # root-cause refinement: a region store whose source has no elements
        try:
            empty_region = any(s_["cls"].startswith("region") and 0 in tuple(arrs[s_["node"]].shape) for s_ in case.get("sinks") or [])
        except Exception:
            empty_region = False
        if empty_region:
            fails = [Failure(f.bucket + ":region-store-of-empty-source", f.detail) if f.bucket.split(":")[0] in ("num_tasks-vs-mappable", "task_end-count", "tasks-run-vs-advertised") else f for f in fails]
        seen, uniq = set(), []
        for f in fails:
            if f.bucket not in seen:
                seen.add(f.bucket)
                uniq.append(f)
        return Outcome(nontrivial=special, labels=tuple(labels), failures=tuple(uniq))
    finally:
        if ename == "processes":
            shutil.rmtree(getattr(spec, "work_dir", "") or "/nonexistent", ignore_errors=True)


def shards(tier):
    if tier == "quick":
        return [{"kind": "program", "name": f"s{i}", "n": 100, "rotate": 19 + i * 47} for i in range(6)] + [
            {"kind": "program", "name": "proc", "n": 8, "rotate": 4, "executors": ["processes"], "max_ops": 3}]
    return [{"kind": "program", "name": f"s{i}", "n": 1500, "rotate": 19 + i * 47} for i in range(14)] + [
        {"kind": "program", "name": f"proc{i}", "n": 120, "rotate": 4 + i, "executors": ["processes"], "max_ops": 3} for i in range(2)]


def run_shard(spec, seed, tier) -> Acc:
    acc = Acc()
    if spec["kind"] == "__corpus__":
        return core.corpus_shard(sys.modules[__name__], acc)
    is_known, _ = core.known_matcher(ID)
    core.hyp_run(case_strategy({"rotate": spec.get("rotate", 0)}, max_ops=spec.get("max_ops", 5), executors=spec.get("executors")), check_case, seed=seed,
                 max_examples=spec["n"], acc=acc, budget_s=420 if tier == "quick" else 3000, shrink=(tier == "thorough"), is_known=is_known)
    return acc


def replay(case):
    return check_case(case).all_failures()
