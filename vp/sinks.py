"""store / to_zarr call shapes shared by C05, C09, C10, C11: JSON sink specs, a strategy, a builder that creates
(traced) targets pre-filled with a sentinel, and the expected target images."""
from __future__ import annotations

import warnings
from dataclasses import dataclass, field
from typing import Any, Optional

import numpy as np

SENTINEL = 77

VALID = ("fresh", "group", "existing-same", "region-aligned", "sharded")
FOREIGN = ("existing-diff",)
INVALID = ("region-misaligned", "region-wrong-shape", "region-wrong-len")


def sinks_strategy(prog, classes=VALID, max_sinks=3, allow_repeat=True):
    from hypothesis import strategies as st

    from vp.prog import eval_numpy

    vals = eval_numpy(prog)
    ids = [i for i, v in enumerate(vals) if not v.is_tuple and np.asarray(v.v).dtype.names is None]

    @st.composite
    def strat(draw):
        n = draw(st.integers(1, max_sinks))
        out = []
        for k in range(n):
            node = draw(st.sampled_from(ids))
            if allow_repeat and out and draw(st.integers(0, 3)) == 0:
                node = out[-1]["node"]  # the same source stored twice
            v = np.asarray(vals[node].v)
            cls = draw(st.sampled_from(list(classes)))
            if v.ndim == 0 and cls.startswith("region"):
                cls = "fresh"
            if (v.size == 0 or v.ndim == 0) and cls in ("sharded", "existing-diff"):
                cls = "existing-same"
            s = {"node": node, "cls": cls, "api": draw(st.sampled_from(["store", "to_zarr"]))}
            if cls.startswith("region"):
                s["before"] = [draw(st.integers(0, 2)) for _ in range(v.ndim)]
                s["after"] = [draw(st.integers(0, 2)) for _ in range(v.ndim)]
                s["explicit_full"] = draw(st.booleans())
                s["open_ends"] = draw(st.booleans())  # write slice(None, stop) / slice(start, None) where that is equivalent
                s["tmul"] = [draw(st.sampled_from([1, 1, 1, 2, 3, "all"])) for _ in range(v.ndim)]  # target chunk = multiple of the source chunk
                if cls == "region-misaligned":
                    s["shift"] = draw(st.integers(1, 3))
                    s["axis"] = draw(st.integers(0, v.ndim - 1))
                    s["how"] = draw(st.sampled_from(["shift", "stop-only"]))
                    if s["how"] == "stop-only":
                        # slice(None, k) with k neither a multiple of the chunk nor the end of the axis
                        s["before"][s["axis"]] = 0
                        s["open_ends"] = True
            if cls == "existing-diff":
                s["tchunks"] = [draw(st.sampled_from([1, 2, 3, 4, 5, 7, max(1, n_)])) for n_ in v.shape]
            if cls == "sharded":
                s["mult"] = [draw(st.sampled_from([1, 1, 2])) for _ in v.shape]
                s["inner_div"] = draw(st.booleans())
            if cls == "region-aligned" and draw(st.integers(0, 3)) == 0:
                s["full_slices"] = True  # region given as all-slice(None) over an equal-shaped target
            elif cls == "region-aligned" and v.size > 0 and draw(st.integers(0, 3)) == 0:
                s["shard_region"] = True  # the target is sharded; the region is aligned to its shards
            if cls == "region-malformed":
                if v.ndim < 1 or v.size == 0:
                    s["cls"] = cls = "fresh"
                else:
                    s["how"] = draw(st.sampled_from(["short-tuple", "negative-start", "step"])) if v.ndim >= 2 else draw(st.sampled_from(["negative-start", "step"]))
            if cls == "existing-dtype" and (v.dtype.kind == "c" and v.dtype.itemsize == 16):
                s["cls"] = cls = "existing-same"
            if cls == "existing-dtype":
                # a narrower target (float -> int32, values truncated on write): the source itself must keep its own values
                # (only for sources whose values are exact: truncation is a discontinuous function of an inexact value)
                s["lossy"] = bool(getattr(vals[node], "exact", False) and v.dtype.kind == "f" and v.size > 0 and np.isfinite(v).all() and np.abs(v).max() < 2**30 and draw(st.booleans()))
            if cls == "existing-larger":
                # an existing target that is larger than the source along some axes, no region given
                if v.ndim == 0 or v.size == 0:
                    s["cls"] = cls = "existing-same"
                else:
                    g = [draw(st.integers(0, 3)) for _ in v.shape]
                    if not any(g):
                        g[draw(st.integers(0, v.ndim - 1))] = draw(st.integers(1, 3))
                    s["grow"] = g
                    s["grow_unit"] = draw(st.sampled_from(["chunks", "chunks", "elements"]))
            if cls == "existing-smaller":
                if v.ndim == 0 or max(v.shape) < 2:
                    s["cls"] = cls = "existing-same"
                else:
                    s["axis"] = draw(st.sampled_from([i for i, n_ in enumerate(v.shape) if n_ >= 2]))
                    s["cut"] = draw(st.integers(1, 2))
            out.append(s)
        return out

    return strat()


class _State:
    log = ()

    def clear(self):
        pass


class _Plain:
    """Untraced stand-in with the attributes the sink builder uses (for out-of-process executors: a tracing store's
    in-memory log cannot follow the task into another process)."""

    def __new__(cls, store):
        store.state = _State()
        store._store = store
        return store


@dataclass
class Target:
    sink: dict
    store: Any
    path: str
    expected: Optional[np.ndarray]  # expected full image after the store (None = must be rejected)
    before: Optional[np.ndarray]  # image before (sentinel-filled) or None when the target does not exist yet
    region: Optional[list] = None
    zarr_array: Any = None


class SinkCtx:
    def __init__(self, trace_state=None, local_dir=None, traced=True):
        self.traced = traced
        self.targets: list[Target] = []
        self.stores = []
        self._n = 0
        self.local_dir = local_dir

    def new_store(self):
        from zarr.storage import LocalStore, MemoryStore

        from vp.harness import TraceStore

        self._n += 1
        if self.local_dir is not None:
            import os

            p = os.path.join(self.local_dir, f"target{self._n}")
            ts = TraceStore(LocalStore(p)) if self.traced else _Plain(LocalStore(p))
        else:
            ts = TraceStore(MemoryStore())
        self.stores.append(ts)
        return ts

    def region_of(self):
        return {t.path: t.region for t in self.targets if t.region is not None}

    def target_paths(self):
        return [t.path for t in self.targets]


def _sentinel(shape, dtype):
    dt = np.dtype(dtype)
    if dt.kind == "b":
        return np.ones(shape, dtype=dt)
    return np.full(shape, SENTINEL, dtype=dt)


def build_sinks(sinks, arrs, ctx: SinkCtx, spec, vals=None, compute=False, executor=None, one_call=True):
    """Create targets and call store()/to_zarr() lazily (compute=False). Returns the list of lazy arrays.
    `vals` (NumPy values per node) enables expected images."""
    import cubed
    import zarr

    lazy = []
    store_srcs, store_tgts, store_regs = [], [], []
    for k, s in enumerate(sinks):
        src = arrs[s["node"]]
        ref = None if vals is None else np.asarray(vals[s["node"]].v)
        cls = s["cls"]
        ts = ctx.new_store()
        cs = tuple(int(c) for c in src.chunksize)
        shape = tuple(src.shape)
        region = None
        tgt_obj = None
        path = ""
        before = None
        expected = ref
        if cls in ("fresh", "group"):
            if s["api"] == "to_zarr":
                path = f"g{k}/arr" if cls == "group" else f"arr{k}"
            tgt_obj = ts
        else:
            tshape = shape
            tchunks = cs
            kw = {}
            if cls == "existing-diff":
                tchunks = tuple(max(1, min(int(c), max(n, 1))) for c, n in zip(s["tchunks"], shape))
            if cls == "existing-smaller":
                tshape = tuple(max(1, n - s["cut"]) if i == s["axis"] else n for i, n in enumerate(shape))
            if cls == "existing-larger":
                tshape = tuple(n + g * (c if s["grow_unit"] == "chunks" else 1) for n, g, c in zip(shape, s["grow"], cs))
                # the source goes into the leading region; that is safe only if no target chunk is written partially
                if all(n % c == 0 or n == t for n, c, t in zip(shape, cs, tshape)):
                    region = [[0, n] for n in shape]
                else:
                    cls = "existing-larger-unaligned"
            if cls.startswith("region-malformed"):
                # a region tuple with fewer slices than the source has dimensions (never drawn by the strategy: corpus probe of a
                # recorded known finding): the target is twice as long along axis 0, the region names its second half along axis 0 only
                tshape = (shape[0] * 2,) + tuple(shape[1:])
                region = [[shape[0], 2 * shape[0]]] + [[0, n] for n in shape[1:]]
                cls = "region-malformed:" + s.get("how", "short-tuple")
            if cls == "sharded":
                shards = tuple(max(1, c * m) for c, m in zip(cs, s["mult"]))
                inner = tuple(max(1, sh // 2) if (s.get("inner_div") and sh % 2 == 0) else sh for sh in shards)
                kw["shards"] = shards
                tchunks = inner
            if cls.startswith("region") and not cls.startswith("region-malformed"):
                starts, stops, tsh, tch = [], [], [], []
                tmul = s.get("tmul") or [1] * len(shape)
                for ax, (n, c) in enumerate(zip(shape, cs)):
                    b = s["before"][ax]
                    a = s["after"][ax]
                    m = tmul[ax]
                    if m == "all":
                        # one target chunk spans the whole target axis: the region may sit anywhere inside it only if it
                        # starts at 0 (chunk-aligned start) and ends at the end of the axis
                        tc, b, a = None, 0, 0
                    else:
                        tc = c * int(m)
                    start = b * (tc or 1)
                    stop = start + n
                    if tc is not None and n % tc != 0:
                        a = 0
                    starts.append(start)
                    stops.append(stop)
                    tsh.append(stop + a * (tc or 1))
                    tch.append(tc if tc is not None else max(stop, 1))
                if s.get("full_slices"):
                    tsh = list(shape)
                    tch = list(cs)
                    region = [[0, n] for n in shape]
                else:
                    region = [[a_, b_] for a_, b_ in zip(starts, stops)]
                tshape = tuple(tsh)
                tchunks = tuple(tch)
                if cls == "region-misaligned":
                    ax = s["axis"]
                    if s.get("how") == "stop-only":
                        # start stays aligned (and may be written as None when it is 0); only the stop is mis-aligned:
                        # the source is one element longer than a whole number of chunks and the target goes on after it
                        tshape = tuple(t + (tchunks[ax] + 1 if i == ax else 0) for i, t in enumerate(tshape))
                        stop = region[ax][1]
                        if stop % tchunks[ax] == 0 or stop == tshape[ax]:
                            cls = "region-aligned-after-shift"
                    else:
                        tshape = tuple(t + (s["shift"] if i == ax else 0) for i, t in enumerate(tshape))
                        region[ax] = [region[ax][0] + s["shift"], region[ax][1] + s["shift"]]
                        if region[ax][0] % tchunks[ax] == 0 and (region[ax][1] % tchunks[ax] == 0 or region[ax][1] == tshape[ax]):
                            cls = "region-aligned-after-shift"
                if tuple(tchunks) != tuple(cs) and cls in ("region-aligned", "region-aligned-after-shift"):
                    cls = cls + "+chunks-differ"
                if s.get("shard_region") and cls.startswith("region-aligned") and all(t > 0 for t in tshape):
                    kw["shards"] = tuple(tchunks)
                    tchunks = tuple(max(1, t // 2) if t % 2 == 0 else t for t in tchunks)
                    cls = cls + "+sharded"
            path = f"t{k}"
            tdtype = src.dtype
            if cls == "existing-dtype":
                # an existing target of another (wider) dtype: values are cast on write, the source itself is unaffected
                kd, isz = np.dtype(src.dtype).kind, np.dtype(src.dtype).itemsize
                tdtype = np.dtype("int32") if s.get("lossy") else np.dtype({"b": "int8", "i": "float64" if isz == 8 else "int64", "u": "int64" if isz < 8 else "float64", "f": "float64" if isz < 8 else "complex128", "c": "complex128"}[kd])
            z = zarr.create_array(ts, name=path, shape=tshape, dtype=tdtype, chunks=tuple(max(1, c) for c in tchunks) if tshape else (), **kw)
            before = _sentinel(tshape, tdtype)
            if before.size:
                z[...] = before
            ts.state.clear()
            tgt_obj = z
            if ref is not None:
                expected = before.copy()
                if region is not None:
                    sl = tuple(slice(a_, b_) for a_, b_ in region)
                    try:
                        expected[sl] = ref
                    except Exception:
                        expected = None
                else:
                    expected = ref.astype(tdtype) if ref.shape == tshape else None
            if cls in ("region-misaligned", "existing-smaller", "existing-larger-unaligned") or cls.startswith("region-malformed"):
                expected = None  # must be rejected
        tgt = Target(sink=dict(s, cls=cls), store=ts, path=path, expected=expected, before=before, region=region, zarr_array=tgt_obj if not hasattr(tgt_obj, "state") else None)
        ctx.targets.append(tgt)
        reg = None
        if region is not None and not cls.startswith("existing-larger"):
            if cls == "region-malformed:short-tuple":
                reg = (slice(region[0][0], region[0][1]),)
            elif cls == "region-malformed:negative-start":
                # the same rows named from the end of the axis
                reg = (slice(-shape[0], None),) + tuple(slice(0, n) for n in shape[1:])
            elif cls == "region-malformed:step":
                reg = (slice(region[0][0], region[0][1], 2 if shape[0] > 1 else -1),) + tuple(slice(0, n) for n in shape[1:])
            elif s.get("full_slices"):
                reg = tuple(slice(None) for _ in shape)
            else:
                if s.get("open_ends"):
                    reg = tuple(slice(None if a_ == 0 else a_, None if b_ == t_ else b_) for (a_, b_), t_ in zip(region, tshape))
                else:
                    reg = tuple(slice(a_, b_) for a_, b_ in region)
        if s["api"] == "to_zarr":
            if tgt.zarr_array is not None:
                out = cubed.to_zarr(src, tgt.zarr_array, region=reg, compute=False)
            else:
                out = cubed.to_zarr(src, ts, path=path or None, region=reg, compute=False)
            lazy.append(out)
        else:
            store_srcs.append(src)
            store_tgts.append(tgt.zarr_array if tgt.zarr_array is not None else ts)
            store_regs.append(reg)
            if not one_call:
                outs = cubed.store([src], [store_tgts[-1]], regions=[reg] if reg is not None else None, compute=False)
                lazy.extend(outs)
                store_srcs, store_tgts, store_regs = [], [], []
    if store_srcs:
        regs = store_regs if any(r is not None for r in store_regs) else None
        outs = cubed.store(store_srcs, store_tgts, regions=regs, compute=False)
        lazy.extend(outs)
    return lazy


def read_target(t: Target):
    """Read the target back with plain zarr from the underlying (untraced) store."""
    import zarr

    inner = t.store._store
    try:
        z = zarr.open_array(store=inner, path=t.path or None, mode="r")
    except Exception as e:
        return None, f"{type(e).__name__}: {e}"
    if z.size == 0 or z.ndim == 0:
        return np.asarray(z[...]) if z.ndim else np.asarray(z[()]), None
    return np.asarray(z[...]), None
