"""C10 — a lazy array's value is fixed when built; inputs and earlier outputs stay intact (stateful)."""
from __future__ import annotations

import hashlib
import sys
import warnings

import numpy as np

import vp  # noqa
from vp import c01, core, prog as P, sinks as S
from vp.core import Acc, Failure, Outcome
from vp.ir import OPS, Val

ID = "C10"
LEVEL = "exploration"
RULE = (
    "Hypothesis RuleBasedStateMachine over a pool of related lazy arrays built under one Spec on a tracing store. Rules: new_input "
    "(in-memory, from_array, from_zarr), derive (any operation of the shared op table applied to pool members), compute (any subset; "
    "optimize on/off; resume on/off; executor schedule/single-threaded/threads or the configured default), store / to_zarr of any "
    "member incl. ancestors of other members and members stored before (eager or lazy; fresh path, group, existing array, aligned "
    "region), a derived member computed alone and then again together with some of its ancestors with resume on, compute of earlier "
    "lazy store results, set the default executor via cubed.config, plan / visualize. Every step is "
    "recorded as JSON and applied through one interpreter, so a failing history replays without Hypothesis. After EVERY step: a drawn "
    "pool member computes to its NumPy shadow (fixed when the member was built); all in-memory inputs and input Zarr arrays are "
    "byte-identical to their initial state; every earlier store target still holds its expected image. Non-trivial = the history has "
    "a store or compute followed by a check of a member built before that step; distinct = canonical JSON of the step list."
)
ASSUMPTIONS = [
    "histories are bounded (<= 14 steps quick, <= 25 thorough); no external deletion of stores, single process",
    "members without an exact NumPy oracle are compared with the C01 tolerances; random arrays are excluded",
]

EXECS = ["schedule", "single-threaded", "threads", "default"]


class World:
    """Interpreter state shared by the state machine and by replay."""

    def __init__(self):
        import cubed
        from zarr.storage import MemoryStore

        from vp import harness as H

        self.H = H
        self.ts = H.TraceStore(MemoryStore())
        self.spec = cubed.Spec(intermediate_store=self.ts, allowed_mem=2_000_000_000, reserved_mem=0)
        self.ctx = P.BuildCtx()
        self.sink_ctx = S.SinkCtx()
        self.pool = []  # cubed arrays
        self.vals = []  # Val shadows
        self.born = []  # step index at which the member was created
        self.inmem = []  # (array object passed to cubed, pristine copy)
        self.lazy = []  # lazy store results not yet computed: (array, target index list)
        self.pending_targets = set()  # indices of targets whose store has not been computed yet
        self.failures = []
        self.steps = []
        self.config_ctx = None
        self.default_exec = None
        self.mutating_steps = []  # indices of steps that computed or stored something
        self.nontrivial = False
        self.labels = set()

    def close(self):
        import cubed

        if self.default_exec is not None:
            try:
                cubed.config.set({"executor_name": None})
                cubed.config.pop("executor_name", None)
            except Exception:
                pass

    def executor(self, name, seed=0):
        H = self.H
        if name == "schedule":
            return H.ScheduleExecutor(H.Schedule(perm_seed=seed))
        if name == "default":
            return None
        return H.make_executor(name, max_workers=2)

    # -- steps -------------------------------------------------------------------------------------------------
    def apply(self, step):
        import cubed
        import cubed.array_api as xp

        idx = len(self.steps)
        self.steps.append(step)
        op = step["op"]
        self.labels.add("step:" + op)
        with warnings.catch_warnings():
            warnings.simplefilter("ignore")
            try:
                if op == "input":
                    inp = step["inp"]
                    data = P.input_value(inp)
                    if inp["kind"] == "asarray":
                        a = xp.asarray(data, chunks=tuple(inp["chunks"]), spec=self.spec)
                        self.inmem.append((data, data.copy()))
                    elif inp["kind"] == "from_array":
                        a = cubed.from_array(data, chunks=tuple(inp["chunks"]), spec=self.spec)
                        self.inmem.append((data, data.copy()))
                    else:
                        a = P.build_input(inp, self.spec, self.ctx)
                    self._add(a, P.input_val(inp), idx)
                elif op == "derive":
                    o = OPS[step["name"]]
                    args = [self.pool[i] for i in step["args"]]
                    argv = [self.vals[i] for i in step["args"]]
                    v = o.ref([x.v for x in argv], step["params"])
                    if isinstance(v, tuple):
                        raise ValueError("tuple-valued ops are not used in histories")
                    v = np.asarray(v)
                    a = o.cub(xp, args, step["params"])
                    self._add(a, P.derive_meta(o, step["name"], argv, step["params"], v), idx)
                elif op == "compute":
                    ids = [i % len(self.pool) for i in step["ids"]]
                    arrs = [self.pool[i] for i in ids]
                    kw = dict(optimize_graph=step["optimize"])
                    if step.get("resume"):
                        kw["resume"] = True
                    ex = self.executor(step["executor"], step.get("seed", 0))
                    if ex is not None:
                        kw["executor"] = ex
                    res = cubed.compute(*arrs, **kw)
                    self.mutating_steps.append(idx)
                    for i, r in zip(ids, res):
                        self._compare(i, np.asarray(r), f"step {idx} compute")
                elif op == "store":
                    i = step["id"] % len(self.pool)
                    sink = dict(step["sink"], node=i)
                    n0 = len(self.sink_ctx.targets)
                    try:
                        lz = S.build_sinks([sink], self.pool, self.sink_ctx, self.spec, vals=self.vals)
                        new_t = list(range(n0, len(self.sink_ctx.targets)))
                        if step["eager"]:
                            ex = self.executor(step["executor"], step.get("seed", 0))
                            kw = {"executor": ex} if ex is not None else {}
                            cubed.compute(*lz, _return_in_memory_array=False, **kw)
                        else:
                            self.lazy.append((lz, new_t))
                            self.pending_targets |= set(new_t)
                    except Exception:
                        # a store call that raised promises nothing about its target: forget the targets of this step
                        for t in self.sink_ctx.targets[n0:]:
                            t.expected = None
                        raise
                    self.mutating_steps.append(idx)
                elif op == "compute_lazy":
                    if self.lazy:
                        lz, tids = self.lazy.pop(step["which"] % len(self.lazy))
                        ex = self.executor(step["executor"], step.get("seed", 0))
                        kw = {"executor": ex} if ex is not None else {}
                        cubed.compute(*lz, _return_in_memory_array=False, **kw)
                        self.pending_targets -= set(tids)
                        self.mutating_steps.append(idx)
                elif op == "config":
                    cubed.config.set({"executor_name": step["name"]})
                    self.default_exec = step["name"]
                elif op == "plan":
                    a = self.pool[step["id"] % len(self.pool)]
                    a.plan(optimize_graph=step.get("optimize", True))
                elif op == "visualize":
                    import os

                    a = self.pool[step["id"] % len(self.pool)]
                    d = c01.Scratch.fresh("viz")
                    a.visualize(filename=os.path.join(d, "g"), format="dot")
            except (ValueError, TypeError, NotImplementedError, IndexError) as e:
                self.labels.add(f"step-declined:{op}")
            except Exception as e:
                # failures of a step itself are C17's business; the history goes on
                self.labels.add(f"step-failed:{op}:{type(e).__name__}")
                if op == "compute" and len(step.get("ids", [])) > 1:
                    # ... unless every requested member computes on its own with the same settings: then the failure is an effect
                    # of computing them together at this point of the history
                    inner = self.ts._store._store_dict
                    snap = dict(inner)
                    alone_ok = True
                    try:
                        for i in sorted({i % len(self.pool) for i in step["ids"]}):
                            try:
                                self.pool[i].compute(executor=self.H.make_executor("single-threaded"), optimize_graph=step["optimize"])
                            except Exception:
                                alone_ok = False
                                break
                    finally:
                        inner.clear()
                        inner.update(snap)
                    if alone_ok:
                        self.failures.append(Failure(f"compute-together-failed:{type(e).__name__}", f"step {idx}: compute of members {step['ids']} (optimize={step['optimize']}, resume={step.get('resume')}) raised {e!r} although each member computes on its own"[:300]))
        self.check_invariants(step, idx)

    def _add(self, a, val, idx):
        self.pool.append(a)
        self.vals.append(val)
        self.born.append(idx)

    def _compare(self, i, got, where):
        msg = P.compare(got, self.vals[i])
        if msg is not None:
            why = "after-" + (self.steps[self.mutating_steps[-1]]["op"] if self.mutating_steps else "nothing")
            self.failures.append(Failure(f"member-value-changed:{why}", f"{where}: member {i} (built at step {self.born[i]}): {msg}"))

    def check_invariants(self, step, idx):
        import cubed

        if not self.pool:
            return
        with warnings.catch_warnings():
            warnings.simplefilter("ignore")
            # 1. a drawn member computes to its shadow
            i = step.get("probe", 0) % len(self.pool)
            # the probe must not leave materialized intermediates behind (they would mask a later mis-wiring by serving
            # stale but correct data): snapshot the intermediate store and restore it afterwards
            inner = self.ts._store._store_dict
            snap = dict(inner)
            try:
                try:
                    got = self.pool[i].compute(executor=self.H.make_executor("single-threaded"), optimize_graph=step.get("probe_opt", True))
                finally:
                    inner.clear()
                    inner.update(snap)
                self._compare(i, np.asarray(got), f"after step {idx} ({step['op']})")
                if self.mutating_steps and self.born[i] < self.mutating_steps[-1]:
                    self.nontrivial = True
            except Exception as e:
                prior = [s for s in self.mutating_steps]
                if prior:
                    # the member computed fine when it was built?  An exception that appears only after a store/compute is a history effect
                    self.failures.append(Failure(f"member-compute-failed:{type(e).__name__}", f"after step {idx} ({step['op']}): member {i} built at step {self.born[i]} no longer computes: {e!r}"[:300]))
            # 2. inputs untouched
            for k, (obj, pristine) in enumerate(self.inmem):
                if not np.array_equal(obj, pristine, equal_nan=True):
                    self.failures.append(Failure("in-memory-input-modified", f"after step {idx}: in-memory input #{k} changed"))
            for (store, path, data) in self.ctx.inputs_written:
                import zarr

                z = zarr.open_array(store=store, path=path, mode="r")
                cur = np.asarray(z[...]) if z.ndim else np.asarray(z[()])
                if cur.shape != data.shape or not np.array_equal(cur, data, equal_nan=True):
                    self.failures.append(Failure("zarr-input-modified", f"after step {idx}: input zarr array {path} changed"))
            # 3. earlier targets keep their image
            for k, t in enumerate(self.sink_ctx.targets):
                if k in self.pending_targets or t.expected is None:
                    continue
                got, err = S.read_target(t)
                if got is None:
                    self.failures.append(Failure("target-lost", f"after step {idx}: target {k} ({t.sink['cls']}) unreadable: {err}"))
                    continue
                v = self.vals[t.sink["node"]]
                exp = t.expected
                if got.shape != exp.shape:
                    self.failures.append(Failure("target-shape-changed", f"after step {idx}: target {k}"))
                    continue
                if t.region is not None:
                    sl = tuple(slice(a, b) for a, b in t.region)
                    mask = np.ones(got.shape, dtype=bool)
                    mask[sl] = False
                    ok = (not mask.any() or np.array_equal(got[mask], t.before[mask])) and P.compare(got[sl], v) is None
                elif t.sink["cls"] == "existing-dtype":
                    ok = got.shape == exp.shape and np.array_equal(got, exp, equal_nan=got.dtype.kind in "fc")  # values as cast to the target's dtype
                else:
                    ok = P.compare(got, v) is None
                if not ok:
                    self.failures.append(Failure(f"target-image-changed:{t.sink['cls']}", f"after step {idx} ({step['op']}): target {k} no longer holds the stored values"))


def run_history(steps):
    w = World()
    try:
        for s in steps:
            w.apply(s)
            if w.failures:
                break
        return w
    finally:
        w.close()


def make_machine(max_steps, collected, opts):
    from hypothesis import strategies as st
    from hypothesis.stateful import RuleBasedStateMachine, initialize, precondition, rule

    names = [n for n in P.weighted_names("dag") if OPS[n].arity in (1, 2) and n not in ("blocks", "map_blocks", "map_overlap", "unstack", "qr", "svd", "broadcast_arrays", "meshgrid", "empty_like")]
    r = opts.get("rotate", 0) % len(names)
    names = names[r:] + names[:r]

    class Machine(RuleBasedStateMachine):
        def __init__(self):
            super().__init__()
            self.w = World()
            self.dead = False

        def teardown(self):
            try:
                case = {"kind": "history", "steps": self.w.steps}
                out = Outcome(nontrivial=self.w.nontrivial, labels=tuple(self.w.labels), failures=tuple(_uniq(self.w.failures)))
                collected.append((case, out))
            finally:
                self.w.close()

        def _apply(self, step, data):
            if self.dead or len(self.w.steps) >= max_steps:
                return
            step["probe"] = data.draw(st.integers(0, 50))
            step["probe_opt"] = data.draw(st.booleans())
            self.w.apply(step)
            if self.w.failures:
                self.dead = True

        @initialize(data=st.data())
        def first_input(self, data):
            self.new_input(data)

        @rule(data=st.data())
        def new_input(self, data):
            prev = [s["inp"] for s in self.w.steps if s["op"] == "input"]
            inp = P.draw_input(data.draw, st, len(prev), prev, {"input_kinds": ["asarray"] * 3 + ["from_array", "from_zarr", "from_zarr"], "allow_zero": False, "max_dims": 3, "special": False})
            self._apply({"op": "input", "inp": inp}, data)

        @precondition(lambda self: len(self.w.pool) > 0)
        @rule(data=st.data())
        def derive(self, data):
            vals = self.w.vals
            for _ in range(4):
                name = data.draw(st.sampled_from(names))
                op = OPS[name]
                cand = P.candidates(op, vals, recent=6)
                if not cand:
                    continue
                args = data.draw(st.sampled_from(cand))
                params = op.params(data.draw, st, [vals[i].v for i in args])
                if params is None:
                    continue
                try:
                    with np.errstate(all="ignore"):
                        v = op.ref([vals[i].v for i in args], params)
                except Exception:
                    continue
                if isinstance(v, tuple) or np.asarray(v).size > 2000:
                    continue
                self._apply({"op": "derive", "name": name, "args": list(args), "params": params}, data)
                return

        @precondition(lambda self: len(self.w.pool) > 0)
        @rule(data=st.data())
        def derive_again(self, data):
            self.derive(data)

        @precondition(lambda self: len(self.w.pool) > 0)
        @rule(data=st.data())
        def derive_once_more(self, data):
            self.derive(data)

        @precondition(lambda self: len(self.w.pool) > 0)
        @rule(data=st.data())
        def compute_some(self, data):
            self._apply({"op": "compute", "ids": data.draw(st.lists(st.integers(0, 50), min_size=1, max_size=3)), "optimize": data.draw(st.booleans()),
                         "resume": data.draw(st.booleans()), "executor": data.draw(st.sampled_from(EXECS)), "seed": data.draw(st.integers(0, 999))}, data)

        @precondition(lambda self: len(self.w.pool) > 0)
        @rule(data=st.data())
        def store(self, data):
            cls = data.draw(st.sampled_from(["fresh", "fresh", "group", "existing-same", "existing-diff", "region-aligned", "existing-dtype"]))
            i = data.draw(st.integers(0, 50)) % len(self.w.pool)
            v = np.asarray(self.w.vals[i].v)
            sink = {"cls": cls, "api": data.draw(st.sampled_from(["store", "to_zarr"]))}
            if v.ndim == 0 or v.size == 0:
                sink["cls"] = "fresh"
            if sink["cls"] == "region-aligned":
                sink.update(before=[data.draw(st.integers(0, 2)) for _ in range(v.ndim)], after=[data.draw(st.integers(0, 1)) for _ in range(v.ndim)], explicit_full=False)
            if sink["cls"] == "existing-diff":
                sink["tchunks"] = [data.draw(st.sampled_from([1, 2, 3, 5])) for _ in range(v.ndim)]
            if sink["cls"] == "existing-dtype":
                if v.dtype.kind == "c" and v.dtype.itemsize == 16:
                    sink["cls"] = "existing-same"
                else:
                    sink["lossy"] = bool(self.w.vals[i].exact and v.dtype.kind == "f" and v.size > 0 and np.isfinite(v).all() and np.abs(v).max() < 2**30 and data.draw(st.booleans()))
            self._apply({"op": "store", "id": i, "sink": sink, "eager": data.draw(st.booleans()), "executor": data.draw(st.sampled_from(EXECS[:3])), "seed": data.draw(st.integers(0, 999))}, data)

        @precondition(lambda self: any(s["op"] == "store" for s in self.w.steps))
        @rule(data=st.data())
        def store_same_member_again(self, data):
            # the member stored by the latest store step goes to a second target (while the first store may still be pending)
            last = [s for s in self.w.steps if s["op"] == "store"][-1]
            sink = {"cls": data.draw(st.sampled_from(["fresh", "fresh", "group", "existing-same"])), "api": data.draw(st.sampled_from(["store", "to_zarr"]))}
            v = np.asarray(self.w.vals[last["id"] % len(self.w.pool)].v)
            if v.ndim == 0 or v.size == 0:
                sink["cls"] = "fresh"
            self._apply({"op": "store", "id": last["id"], "sink": sink, "eager": data.draw(st.booleans()), "executor": data.draw(st.sampled_from(EXECS[:3])), "seed": data.draw(st.integers(0, 999))}, data)

        @precondition(lambda self: len(self.w.pool) > 0)
        @rule(data=st.data())
        def store_lazily_twice_then_compute(self, data):
            # one member goes to two targets, the first store still pending when the second is issued; then the pending ones run
            nin = sum(1 for s in self.w.steps if s["op"] == "input")
            derived = [k for k in range(len(self.w.pool)) if self.w.born[k] >= 0 and self.w.steps[self.w.born[k]]["op"] == "derive"]
            i = data.draw(st.sampled_from(derived)) if derived and data.draw(st.integers(0, 4)) else data.draw(st.integers(0, len(self.w.pool) - 1))
            v = np.asarray(self.w.vals[i].v)
            for k in range(2):
                cls = "fresh" if (v.ndim == 0 or v.size == 0) else data.draw(st.sampled_from(["fresh", "group", "existing-same"]))
                self._apply({"op": "store", "id": i, "sink": {"cls": cls, "api": data.draw(st.sampled_from(["store", "to_zarr"]))}, "eager": (k == 1 and data.draw(st.booleans())),
                             "executor": data.draw(st.sampled_from(EXECS[:3])), "seed": data.draw(st.integers(0, 999))}, data)
            for k in range(2):
                if self.w.lazy:
                    self._apply({"op": "compute_lazy", "which": data.draw(st.integers(0, 9)), "executor": data.draw(st.sampled_from(EXECS[:3])), "seed": data.draw(st.integers(0, 999))}, data)

        @precondition(lambda self: any(s["op"] == "derive" for s in self.w.steps))
        @rule(data=st.data())
        def descendant_then_resume_with_ancestor(self, data):
            # a derived member is computed on its own (optimized: its ancestors may be fused away and never stored); then it is
            # computed again together with one of its ancestors with resume on - the ancestor must still be computed
            derived = [k for k in range(len(self.w.pool)) if self.w.steps[self.w.born[k]]["op"] == "derive"]
            z = data.draw(st.sampled_from(derived))
            chain = [z]
            a = z
            for _ in range(data.draw(st.integers(1, 3))):
                st_ = self.w.steps[self.w.born[a]]
                if st_["op"] != "derive":
                    break
                a = data.draw(st.sampled_from(st_["args"]))
                chain.append(a)
            ex = data.draw(st.sampled_from(EXECS))
            self._apply({"op": "compute", "ids": [z], "optimize": True, "resume": data.draw(st.booleans()), "executor": ex, "seed": data.draw(st.integers(0, 999))}, data)
            self._apply({"op": "compute", "ids": sorted(set(chain), key=chain.index)[::-1] if data.draw(st.booleans()) else list(dict.fromkeys(chain)), "optimize": data.draw(st.sampled_from([True, True, False])),
                         "resume": True, "executor": data.draw(st.sampled_from(EXECS)), "seed": data.draw(st.integers(0, 999))}, data)

        @precondition(lambda self: len(self.w.lazy) > 0)
        @rule(data=st.data())
        def compute_lazy(self, data):
            self._apply({"op": "compute_lazy", "which": data.draw(st.integers(0, 9)), "executor": data.draw(st.sampled_from(EXECS[:3])), "seed": data.draw(st.integers(0, 999))}, data)

        @rule(data=st.data())
        def set_default_executor(self, data):
            self._apply({"op": "config", "name": data.draw(st.sampled_from(["single-threaded", "threads"]))}, data)

        @precondition(lambda self: len(self.w.pool) > 0)
        @rule(data=st.data())
        def plan_or_visualize(self, data):
            self._apply({"op": data.draw(st.sampled_from(["plan", "plan", "visualize"])), "id": data.draw(st.integers(0, 50)), "optimize": data.draw(st.booleans())}, data)

    return Machine


def _uniq(fails):
    seen, out = set(), []
    for f in fails:
        if f.bucket not in seen:
            seen.add(f.bucket)
            out.append(f)
    return out


def shards(tier):
    if tier == "quick":
        return [{"kind": "machine", "name": f"m{i}", "n": 22, "steps": 14, "rotate": 41 + i * 71} for i in range(8)]
    return [{"kind": "machine", "name": f"m{i}", "n": 260, "steps": 25, "rotate": 41 + i * 71} for i in range(16)]


def run_shard(spec, seed, tier) -> Acc:
    import hypothesis
    from hypothesis import HealthCheck, Phase, settings
    from hypothesis.stateful import run_state_machine_as_test

    acc = Acc()
    if spec["kind"] == "__corpus__":
        return core.corpus_shard(sys.modules[__name__], acc)
    collected = []
    Machine = make_machine(spec["steps"], collected, {"rotate": spec.get("rotate", 0)})
    st_ = settings(max_examples=spec["n"], stateful_step_count=spec["steps"], deadline=None, database=None, phases=[Phase.generate],
                   suppress_health_check=list(HealthCheck), report_multiple_bugs=False, verbosity=hypothesis.Verbosity.quiet)
    try:
        run_state_machine_as_test(hypothesis.seed(seed)(Machine), settings=st_)
    except Exception as e:
        import traceback

        acc.errors.append("state machine raised: " + "".join(traceback.format_exception(e))[-1500:])
    for case, out in collected:
        acc.observe(case, out)
    return acc


def replay(case):
    w = run_history(case["steps"])
    return _uniq(w.failures)
