"""Verification machinery for cubed-dev/cubed (property-based testing / fuzzing).

Importing this package makes sure `cubed` is imported from the tree under test:
/repo by default (development install), or the directory named by VERIF_REPO
(used only for sensitivity experiments on scratch copies).
"""
import os
import sys
import warnings

_repo = os.environ.get("VERIF_REPO")
if _repo:
    sys.path.insert(0, _repo)
    # spawned children must see it too
    pp = os.environ.get("PYTHONPATH", "")
    if _repo not in pp.split(os.pathsep):
        os.environ["PYTHONPATH"] = _repo + (os.pathsep + pp if pp else "")

_here = os.path.dirname(os.path.dirname(os.path.abspath(__file__)))
pp = os.environ.get("PYTHONPATH", "")
if _here not in pp.split(os.pathsep):
    # harness classes (trace stores, executors) must be importable in spawned workers
    os.environ["PYTHONPATH"] = (pp + os.pathsep if pp else "") + _here

os.environ.setdefault("PYTHONHASHSEED", "0")
warnings.filterwarnings("ignore")
