"""Root-cause refinement of failure buckets: named predicates over the failing node and its (cubed) arguments.
A recorded known finding is identified by (phase, exception, site/op, predicate) so that a different failure of the same
operation lands in a different bucket and is reported."""
from __future__ import annotations

import numpy as np

SCANS = {"cumulative_sum", "cumulative_prod", "nancumsum", "nancumprod"}


def node_info(prog, idx):
    nin = len(prog["inputs"])
    if idx is None:
        return None, None
    if idx < nin:
        return "input:" + prog["inputs"][idx]["kind"], None
    return prog["nodes"][idx - nin]["op"], prog["nodes"][idx - nin]


def refine(prog, idx, arrays, phase, exc_type) -> str:
    """-> predicate name ('' if none applies). `arrays` = cubed arrays built so far (may be shorter than the node list)."""
    op, node = node_info(prog, idx)
    if node is None:
        return ""
    args = []
    for i in node["args"]:
        if arrays is not None and i < len(arrays) and hasattr(arrays[i], "numblocks"):
            args.append(arrays[i])
    p = node["params"]
    if op in SCANS and args:
        a = args[0]
        ax = p.get("axis")
        if ax is None:
            nb = int(np.prod(a.numblocks)) if a.ndim != 1 else a.numblocks[0]
            if a.ndim > 1:
                return "scan-flattened"  # chunking after flatten is cubed's choice
        else:
            nb = a.numblocks[ax]
        if nb > 5 and nb % 5 != 0:
            return "@scan:nblocks>5-not-multiple-of-5"
        return f"nblocks={nb}"
    if any(getattr(a, "size", 1) == 0 for a in args):
        if len(args) >= 2:
            z = [a for a in args if getattr(a, "size", 1) == 0]
            if len({tuple(a.chunks) for a in z if hasattr(a, "chunks")}) > 1 or len({tuple(a.chunks) for a in args if hasattr(a, "chunks")}) > 1:
                return "@multi-operand:size0-operands-different-chunks"
            return "@multi-operand:size0-operands"
        return "size0-operand"
    if any(getattr(a, "ndim", 1) == 0 for a in args):
        return "0d-operand"
    return ""


def key(prog, idx, arrays, phase, exc_type):
    """-> (op key, predicate). A predicate starting with '@family:' names an op-independent root cause."""
    op, _ = node_info(prog, idx)
    pred = refine(prog, idx, arrays, phase, exc_type)
    if pred.startswith("@"):
        fam, pred = pred[1:].split(":", 1)
        return fam, pred
    return op, pred
