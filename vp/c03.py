"""C03 — projected memory is a true upper bound on what every task allocates (measured with tracemalloc)."""
from __future__ import annotations

import gc
import os
import shutil
import sys
import time
import warnings

import numpy as np

import vp  # noqa
from vp import c01, core
from vp.core import Acc, Failure, Outcome

ID = "C03"
LEVEL = "exploration"
MARGIN = 700_000  # bytes of non-data allocations tolerated per task (measured interpreter/zarr noise is 40-80 kB)
RULE = (
    "Hypothesis draws an operation template (about 75 public operations, short fused chains, fusions that keep two or three "
    "predecessor outputs alive, widening reductions over a short axis; every template is also visited in every run by sweep shards), "
    "a chunk geometry (square, skinny with 8/4/2-wide chunks, wide, uneven last chunk; chunk memory 2-8 MB for every dtype), an input dtype (float64, float32, int64, int8, bool, complex128 where the operation "
    "allows), a compressor (none / default), a data class (compressible / incompressible) and an optimizer mode (off / default / "
    "fuse-all; the legacy pairwise optimizer for the narrowing chain). Inputs are Zarr arrays written beforehand to a local directory so reads allocate like real reads. The plan is run by "
    "a sequential executor that measures, for EVERY task of EVERY operation, the tracemalloc peak relative to the level before the "
    "task (all threads, NumPy buffers, bytes read from the store, codec buffers). Oracle: peak <= primitive_op.projected_mem + 0.7 MB "
    "(reserved_mem is 0, so projected_mem is the pure array-data model; 0.7 MB covers measured non-data noise of 40-80 kB per task "
    "and is below one chunk, so any extra chunk-sized copy is seen), and projected_mem <= allowed_mem for the accepted plan. A "
    "task above the bound is executed again up to four times and its smallest peak counts (buffers released late by zarr's IO thread on a "
    "saturated machine are not deterministic, an under-projection is); the case must then exceed the bound in three whole measurements. A "
    "violating task is re-measured with compressor=None and unfused to attribute it to a root cause. Non-trivial = largest chunk >= "
    "1 MB and at least one task measured; distinct = (template, geometry, dtype, compressor, data class, optimizer)."
)
ASSUMPTIONS = [
    "tracemalloc sees Python/NumPy allocations in all threads; C-level allocations that bypass the tracked allocators (e.g. inside codecs) are invisible",
    "peaks are those of this NumPy/zarr build; data-dependent peaks are sampled at two compressibility extremes",
    "regions of recorded known findings (KNOWN_FINDINGS.txt) are kept out of the main campaign by construction and probed by corpus cases",
]

F = ("float64", "float32")
REAL = ("float64", "float32", "int64", "int8")
ALLD = ("float64", "float32", "int64", "int8", "bool", "complex128")
NUMD = ("float64", "float32", "int64", "int8", "complex128")


def _T():
    import cubed
    import cubed.array_api as xp

    def small(a, n=10):
        return xp.asarray(np.arange(float(n)).astype(a.dtype) if np.dtype(a.dtype).kind != "b" else np.array([True, False]), spec=a.spec)

    T = {
        # name: (nin, dtypes, builder, min_ndim, tags)
        "negative": (1, NUMD, lambda a: xp.negative(a)),
        "add": (2, NUMD, lambda a, b: xp.add(a, b)),
        "multiply-chain": (2, NUMD, lambda a, b: xp.multiply(xp.add(a, b), a)),
        "exp": (1, F, lambda a: xp.exp(a)),
        "sqrt-abs": (1, F, lambda a: xp.sqrt(xp.abs(a))),
        "greater": (2, REAL, lambda a, b: xp.greater(a, b)),
        "where": (2, REAL, lambda a, b: xp.where(xp.greater(a, b), a, b)),
        "astype-f32": (1, ("float64", "int64"), lambda a: xp.astype(a, xp.float32)),
        "astype-f64": (1, ("float32", "int8", "bool"), lambda a: xp.astype(a, xp.float64)),
        "sum-axis0": (1, NUMD, lambda a: xp.sum(a, axis=0)),
        "sum-axis1": (1, NUMD, lambda a: xp.sum(a, axis=-1)),
        "sum-all": (1, NUMD + ("bool",), lambda a: xp.sum(a)),
        "sum-split2": (1, NUMD, lambda a: xp.sum(a, axis=0, split_every=2)),
        "mean-axis0": (1, REAL, lambda a: xp.mean(a, axis=0)),
        "mean-all": (1, REAL, lambda a: xp.mean(a)),
        "max-axis1": (1, REAL, lambda a: xp.max(a, axis=-1)),
        "min-all": (1, REAL, lambda a: xp.min(a)),
        "prod-axis0": (1, ("float64", "int64"), lambda a: xp.prod(a, axis=0)),
        "any": (1, ("bool", "int8", "float64"), lambda a: xp.any(a, axis=0)),
        "all-cmp-fused": (1, REAL, lambda a: xp.all(xp.greater(a, 1), axis=-1)),
        "count_nonzero": (1, REAL + ("bool",), lambda a: xp.count_nonzero(a, axis=0)),
        "var-axis0": (1, REAL, lambda a: xp.var(a, axis=0)),
        "std-all": (1, REAL, lambda a: xp.std(a)),
        "argmax-last": (1, REAL, lambda a: xp.argmax(a, axis=-1)),
        "argmax-first": (1, REAL, lambda a: xp.argmax(a, axis=0)),
        "argmin-all": (1, REAL, lambda a: xp.argmin(a)),
        "nansum": (1, F, lambda a: cubed.nansum(a, axis=0)),
        "nanmean": (1, F, lambda a: cubed.nanmean(a, axis=0)),
        "nanmax": (1, F, lambda a: cubed.nanmax(a, axis=-1)),
        "cumsum-axis0": (1, ("float64", "int64"), lambda a: xp.cumulative_sum(a, axis=0)),
        "cumsum-axis1": (1, ("float64", "int64"), lambda a: xp.cumulative_sum(a, axis=-1)),
        "transpose": (1, ALLD, lambda a: xp.permute_dims(a, tuple(range(a.ndim))[::-1])),
        "transpose-add": (1, NUMD, lambda a: xp.add(xp.matrix_transpose(a), 1)),
        "flip": (1, ALLD, lambda a: xp.flip(a)),
        "flip-axis0": (1, ALLD, lambda a: xp.flip(a, axis=0)),
        "roll": (1, ALLD, lambda a: xp.roll(a, 7, axis=0)),
        "repeat": (1, ALLD, lambda a: xp.repeat(a, 2, axis=0)),
        "tile": (1, REAL, lambda a: xp.tile(a, (2, 1))),
        "reshape-flat": (1, ALLD, lambda a: xp.reshape(a, (-1,))),
        "expand-squeeze": (1, ALLD, lambda a: xp.squeeze(xp.expand_dims(a, axis=0), axis=0)),
        "broadcast_to": (1, REAL, lambda a: xp.broadcast_to(a, (2,) + tuple(a.shape))),
        "concat-axis0": (2, ALLD, lambda a, b: xp.concat([a, b], axis=0)),
        "concat-axis1": (2, ALLD, lambda a, b: xp.concat([a, b], axis=-1)),
        "stack": (2, ALLD, lambda a, b: xp.stack([a, b])),
        "unstack": (1, REAL, lambda a: xp.unstack(a[:3].rechunk((3,) + tuple(a.chunksize[1:])), axis=0)),
        "index-contiguous": (1, ALLD, lambda a: a[: a.shape[0] // 2]),
        "index-int": (1, ALLD, lambda a: a[5]),
        "index-offset": (1, ALLD, lambda a: a[3:-3, 5:]),
        "index-strided": (1, ALLD, lambda a: a[::3, 1:]),
        "take": (1, REAL, lambda a: xp.take(a, np.arange(0, a.shape[0], 3), axis=0)),
        "blocks": (1, ALLD, lambda a: a.blocks[1, 0]),
        "rechunk": (1, ALLD, lambda a: a.rechunk(tuple(max(1, c // 2) if i == 0 else min(n, c * 2) for i, (c, n) in enumerate(zip(a.chunksize, a.shape))))),
        "merge_chunks": (1, REAL, lambda a: __import__("cubed.core.ops", fromlist=["merge_chunks"]).merge_chunks(a, (a.chunksize[0] * 2, a.chunksize[1]))),
        "matmul": (2, ("float64", "float32", "int64"), lambda a, b: xp.matmul(a[:, :256].rechunk((a.chunksize[0], 256)), xp.matrix_transpose(b[:, :256].rechunk((b.chunksize[0], 256))))),
        "tensordot": (2, ("float64",), lambda a, b: xp.tensordot(a[:, :256].rechunk((a.chunksize[0], 256)), xp.matrix_transpose(b[:, :256].rechunk((b.chunksize[0], 256))), axes=1)),
        "vecdot": (2, ("float64", "int64"), lambda a, b: xp.vecdot(a, b)),
        "outer": (1, ("float64",), lambda a: xp.linalg.outer(a[:1500, 0], a[0, :1500] if a.shape[1] >= 1500 else a[:1500, 1])),
        "tril": (1, REAL, lambda a: xp.tril(a)),
        "isin": (1, REAL, lambda a: xp.isin(a, small(a))),
        "searchsorted": (1, ("float64",), lambda a: xp.searchsorted(xp.asarray(np.arange(1000.0), chunks=500, spec=a.spec), a)),
        "pad": (1, REAL, lambda a: cubed.pad(a, ((3, 3), (0, 0)), mode="constant")),
        "diff": (1, ("float64", "int64"), lambda a: xp.diff(a, axis=0)),
        "map_blocks": (1, REAL, lambda a: cubed.map_blocks(_plus_one, a, dtype=a.dtype)),
        "clip": (1, REAL, lambda a: xp.clip(a, 1, 50)),
        "qr": (1, ("float64",), lambda a: xp.linalg.qr(a[:, :64].rechunk((a.chunksize[0], 64)))),
        "svdvals": (1, ("float64",), lambda a: xp.linalg.svdvals(a[:, :64].rechunk((a.chunksize[0], 64)))),
        "full-like-add": (1, REAL, lambda a: xp.add(a, xp.ones_like(a))),
        "to_zarr": (1, ALLD, "STORE"),
        # fusions that keep several predecessor outputs alive (peak_projected_mem): two binary predecessors, same and mixed dtypes
        "two-preds": (2, NUMD, lambda a, b: xp.add(xp.add(a, b), xp.multiply(a, b))),
        "two-preds-mixed": (2, ("float64", "int64"), lambda a, b: xp.add(xp.add(a, b), xp.multiply(b, b)), {"dtype2": "float32"}),
        "three-preds": (2, ("float64", "float32"), lambda a, b: xp.where(xp.greater(a, b), xp.add(a, b), xp.multiply(a, b))),
        "pred-chain-binary": (2, NUMD, lambda a, b: xp.multiply(xp.add(xp.negative(a), b), xp.subtract(a, b))),
        # predecessors whose outputs are narrower than their inputs (recorded known finding: the inputs of ALL predecessors are
        # loaded before the first one runs, the model frees each predecessor's inputs before the next one starts)
        "two-preds-mixed-late": (2, ("float64",), lambda a, b: xp.add(xp.multiply(a, a), xp.add(a, b)), {"dtype2": "float32"}),
        "cmp-and-fused": (2, ("float64", "float32"), lambda a, b: xp.logical_and(xp.less(a, b), xp.less(b, a))),
        "narrowing-preds": (2, ("float64", "int64"), lambda a, b: xp.add(xp.astype(a, xp.int8), xp.astype(b, xp.int8))),
        "widening-preds": (2, ("float32", "int8"), lambda a, b: xp.add(xp.astype(a, xp.float64), xp.astype(b, xp.float64))),
        # widening reductions whose reduced chunk is as large as (or larger than) an input chunk: short reduced axis
        "sum-widen-short": (1, ("int8", "bool", "float32"), lambda a: xp.sum(a, axis=-1, dtype=xp.int64 if np.dtype(a.dtype).kind in "ib" else xp.float64), {"geoms": ("skinny", "skinny4", "skinny2")}),
        "mean-widen-short": (1, ("float32", "int8"), lambda a: xp.mean(a, axis=-1) if np.dtype(a.dtype).kind == "f" else xp.mean(xp.astype(a, xp.float32), axis=-1), {"geoms": ("skinny", "skinny4", "skinny2")}),
        "prod-widen-short": (1, ("int8",), lambda a: xp.prod(a, axis=-1), {"geoms": ("skinny", "skinny4", "skinny2")}),
        # a two-step chain whose first step needs more memory than its second (narrowing): also planned with the legacy pairwise
        # optimizer (simple_optimize_dag), whose fused projection is max(op1, op2)
        "narrowing-chain": (1, ("float64", "int64"), lambda a: xp.negative(xp.astype(a, xp.int8))),
        "max-short": (1, REAL, lambda a: xp.max(a, axis=-1), {"geoms": ("skinny", "skinny4", "skinny2")}),
    }
    return T


def _plus_one(x):
    return x + 1


TEMPLATES = None


def templates():
    global TEMPLATES
    if TEMPLATES is None:
        TEMPLATES = _T()
    return TEMPLATES


GEOMS = {
    # name: (shape, chunks) for float64; scaled so that a chunk has ~0.5M elements (4 MB in float64)
    "square": ((1400, 1400), (700, 700)),
    "skinny": ((240000, 8), (60000, 8)),
    "uneven": ((1300, 1100), (700, 600)),
    "wide": ((16, 120000), (8, 60000)),
    "skinny4": ((240000, 16), (120000, 4)),
    "skinny2": ((480000, 8), (240000, 2)),
}


def geometry(case):
    """shape/chunks of the inputs: the long axis is scaled for narrow dtypes so that an input chunk is never below ~2 MB
    (an extra chunk-sized copy must stand out above MARGIN for every dtype)"""
    shape, chunks = GEOMS[case["geom"]]
    k = {1: 4, 2: 4, 4: 2}.get(np.dtype(case["dtype"]).itemsize, 1)
    ax = int(np.argmax(shape))
    shape = tuple(n * k if i == ax else n for i, n in enumerate(shape))
    chunks = tuple(c * k if i == ax else c for i, c in enumerate(chunks))
    return shape, chunks


def topts(t):
    e = templates()[t]
    return e[3] if len(e) > 3 else {}

# ---- known-finding regions (root causes recorded in KNOWN_FINDINGS.txt); the main campaign stays out of them by construction
# templates whose projection is exactly tight without compression (no slack for the decode buffer of a compressed read)
TIGHT = {"two-preds", "pred-chain-binary", "two-preds-mixed", "three-preds", "widening-preds"}


def known_region(case):
    t, dt, opt = case["template"], case["dtype"], case["optimize"]
    if t.startswith("argm"):
        return "arg-reduction-copies"
    if t in ("var-axis0", "std-all"):
        return "var-std-temporaries"
    if t in ("index-strided", "index-offset", "take", "roll", "diff"):
        return "map-selection-multi-block"
    if t == "all-cmp-fused":
        return "fused-comparison-into-reduction"
    if (t == "clip" and dt == "int8") or (t == "isin" and dt in ("int64", "int8")):
        return "numpy-temporaries-not-modelled"
    if (t in ("two-preds-mixed-late", "cmp-and-fused", "narrowing-preds") and opt != "off") or (t == "three-preds" and opt == "fuse-all"):
        # three-preds: the comparison predecessor (bool output) is only fused with the two arithmetic ones under forced fusion
        return "fused-predecessor-inputs-all-live"
    if t == "vecdot" and case["geom"] == "skinny2" and opt != "off":
        return "binary-predecessor-fused-into-short-axis-reduction"
    if t == "searchsorted" and opt == "fuse-all":
        return "forced-fusion-searchsorted"
    if case["compressor"] == "default" and (case["data"] == "incompressible" or case["geom"] == "uneven" or t in TIGHT):
        # surveyed: with compressible data, whole chunks and templates that have slack the default compressor stays within
        # the bound (1,606 + 492 cells, 0 confirmed excesses outside the uneven geometry); those cells are part of the campaign
        return "compressed-read-third-buffer"
    return None


def case_strategy(include_known=False, only=None):
    from hypothesis import strategies as st

    names = sorted(only or templates())

    @st.composite
    def cases(draw):
        t = draw(st.sampled_from(names))
        nin, dts = templates()[t][:2]
        case = {
            "kind": "memory",
            "template": t,
            "dtype": draw(st.sampled_from(list(dts))),
            "geom": draw(st.sampled_from(sorted(topts(t).get("geoms") or GEOMS))),
            "compressor": draw(st.sampled_from(["none", "none", "default"])),
            "data": draw(st.sampled_from(["compressible", "incompressible"])),
            "optimize": draw(st.sampled_from(["off", "default", "default", "fuse-all"])),
        }
        if t == "narrowing-chain":
            case["optimize"] = draw(st.sampled_from(["legacy", "legacy", "default", "off"]))
        if not include_known:
            # move the case out of recorded known-finding regions by construction (counted as excluded)
            moved = 0
            for _ in range(6):
                kr = known_region(case)
                if kr is None:
                    break
                moved = 1
                if kr == "compressed-read-third-buffer":
                    if case["data"] == "incompressible" and case["geom"] != "uneven" and case["template"] not in TIGHT and draw(st.booleans()):
                        case["data"] = "compressible"
                    else:
                        case["compressor"] = "none"
                elif kr == "arg-reduction-copies":
                    case["template"] = "max-axis1"
                elif kr == "var-std-temporaries":
                    case["template"] = "mean-axis0"
                elif kr == "map-selection-multi-block":
                    case["template"] = "index-contiguous"
                elif kr == "fused-comparison-into-reduction":
                    case["template"] = "greater"
                elif kr == "numpy-temporaries-not-modelled":
                    case["dtype"] = "float64"
                elif kr == "fused-predecessor-inputs-all-live":
                    case["template"] = "two-preds"
                elif kr == "binary-predecessor-fused-into-short-axis-reduction":
                    case["geom"] = "skinny4"
                elif kr == "forced-fusion-searchsorted":
                    case["optimize"] = "default"
                if case["dtype"] not in templates()[case["template"]][1]:
                    case["dtype"] = templates()[case["template"]][1][0]
            case["moved_out_of_known_region"] = moved
        return case

    return cases()


class MemExecutor:
    pass


def measure(case, compressor=None, optimize=None):
    """-> dict(rows=[(op name, func name, peak, projected)], allowed=..., error=...)"""
    import cubed
    import zarr

    from cubed.runtime.pipeline import visit_nodes
    from cubed.runtime.types import DagExecutor

    import tracemalloc

    class MemExec(DagExecutor):
        def __init__(self):
            super().__init__()
            self.rows = []
            self.repeats = 0

        @property
        def name(self):
            return "vp-mem"

        def execute_dag(self, dag, callbacks=None, spec=None, compute_id=None, **kw):
            for name, node in visit_nodes(dag):
                p = node["pipeline"]
                po = node["primitive_op"]
                for m in p.mappable:
                    peak = None
                    # a task whose peak exceeds the projection is executed again (tasks are idempotent) up to four more times and
                    # the smallest peak counts: a genuine under-projection is deterministic, while buffers that zarr's IO thread
                    # releases late on a saturated machine are not
                    for attempt in range(5):
                        gc.collect()
                        if attempt:
                            time.sleep(0.03)
                        tracemalloc.start()
                        base = tracemalloc.get_traced_memory()[0]
                        tracemalloc.reset_peak()
                        try:
                            p.function(m, config=p.config)
                            pk = tracemalloc.get_traced_memory()[1] - base
                        finally:
                            tracemalloc.stop()
                        peak = pk if peak is None else min(peak, pk)
                        if name == "create-arrays" or peak - po.projected_mem <= MARGIN:
                            break
                        self.repeats += 1
                    self.rows.append((name, node.get("func_name") or node.get("op_name"), int(peak), int(po.projected_mem), int(po.allowed_mem)))

    comp = compressor if compressor is not None else case["compressor"]
    optm = optimize if optimize is not None else case["optimize"]
    t = case["template"]
    nin, dts, build = templates()[t][:3]
    shape, chunks = geometry(case)
    dtype0 = np.dtype(case["dtype"])
    wd = c01.Scratch.fresh("c03")
    out = {"rows": [], "error": None}
    try:
        kw = {} if comp == "default" else {"zarr_compressor": None}
        spec = cubed.Spec(os.path.join(wd, "work"), allowed_mem=8_000_000_000, reserved_mem=0, **kw)
        ins = []
        for k in range(nin):
            dtype = np.dtype(topts(t)["dtype2"]) if (k == 1 and topts(t).get("dtype2")) else dtype0
            n = int(np.prod(shape))
            if case["data"] == "incompressible":
                # pseudo-random bits (deterministic): multiplicative hashing of the index
                idx = np.arange(n, dtype=np.uint64)
                h = (idx * np.uint64(0x9E3779B97F4A7C15 + 2 * k)) ^ (idx >> np.uint64(7))
                if dtype.kind == "f":
                    data = ((h >> np.uint64(11)).astype(np.float64) / float(1 << 53) * 100.0).astype(dtype)
                elif dtype.kind == "c":
                    data = ((h >> np.uint64(11)).astype(np.float64) / float(1 << 53) * 100.0).astype(dtype)
                elif dtype.kind == "b":
                    data = (h >> np.uint64(63)).astype(bool)
                else:
                    data = (h >> np.uint64(40)).astype(dtype) if dtype.itemsize > 1 else (h >> np.uint64(57)).astype(dtype)
            else:
                data = ((np.arange(n) // 64 + k) % 7 + 1).astype(dtype)
            data = data.reshape(shape)
            p = os.path.join(wd, f"in{k}.zarr")
            z = zarr.create_array(p, shape=shape, chunks=chunks, dtype=dtype, compressors=None if comp != "default" else "auto")
            z[...] = data
            del data
            ins.append(cubed.from_zarr(p, spec=spec))
        with warnings.catch_warnings():
            warnings.simplefilter("ignore")
            if build == "STORE":
                res = [cubed.to_zarr(ins[0] + 1 if dtype0.kind != "b" else ins[0], os.path.join(wd, "out.zarr"), compute=False)]
            else:
                r = build(*ins)
                res = list(r) if isinstance(r, (tuple, list)) else [r]
            kwc = {"optimize_graph": optm != "off"}
            if optm == "fuse-all":
                from cubed.core.optimization import fuse_all_optimize_dag

                kwc["optimize_function"] = fuse_all_optimize_dag
            if optm == "legacy":
                from cubed.core.optimization import simple_optimize_dag

                kwc["optimize_function"] = simple_optimize_dag
            ex = MemExec()
            cubed.compute(*res, executor=ex, _return_in_memory_array=False, **kwc)
        out["rows"] = ex.rows
        out["chunk_bytes"] = int(np.prod(chunks)) * dtype0.itemsize
    except Exception as e:
        out["error"] = f"{type(e).__name__}: {str(e)[:200]}"
    finally:
        shutil.rmtree(wd, ignore_errors=True)
    return out


def worst(rows):
    w = None
    for (name, fn, peak, proj, allowed) in rows:
        if name == "create-arrays":
            continue
        over = peak - proj
        if w is None or over > w[0]:
            w = (over, name, fn, peak, proj)
    return w


def check_case(case) -> Outcome:
    labels = {f"template:{case['template']}", f"geom:{case['geom']}", f"dtype:{case['dtype']}", f"compressor:{case['compressor']}", f"data:{case['data']}", f"optimize:{case['optimize']}"}
    kr = known_region(case)
    if kr:
        labels.add("known-region:" + kr)
    m = measure(case)
    if m["error"]:
        labels.add("declined-or-failed:" + m["error"].split(":")[0])
        return Outcome(labels=tuple(labels))
    rows = m["rows"]
    fails = []
    for (name, fn, peak, proj, allowed) in rows:
        if proj > allowed:
            fails.append(Failure("accepted-plan-over-allowed", f"{name}: projected {proj} > allowed {allowed}"))
            break
    w = worst(rows)
    ntasks = len([r for r in rows if r[0] != "create-arrays"])
    labels.add(f"tasks={min(ntasks, 40) // 10 * 10}+")
    if w is not None and w[0] > MARGIN:
        # peaks depend on how zarr's IO thread interleaves reads: a violation must reproduce in every one of 3 measurements
        for _ in range(2):
            mr = measure(case)
            wr = worst(mr["rows"]) if not mr["error"] else None
            if wr is None or wr[0] < w[0]:
                w = wr if wr is not None else w
            if wr is None or wr[0] <= MARGIN:
                w = None
                labels.add("excess-not-reproducible")
                break
    if w is not None and w[0] > MARGIN:
        over, name, fn, peak, proj = w
        # attribute: does it fit without compression? unfused?
        cause = f"op:{fn}"
        if case["compressor"] == "default":
            m2 = measure(case, compressor="none")
            w2 = worst(m2["rows"]) if not m2["error"] else None
            if w2 is not None and w2[0] <= MARGIN:
                cause = "compressed-read-third-buffer"
        if cause.startswith("op:") and case["optimize"] != "off":
            m3 = measure(case, optimize="off", compressor="none" if case["compressor"] != "default" else None)
            w3 = worst(m3["rows"]) if not m3["error"] else None
            if w3 is not None and w3[0] <= MARGIN:
                cause = f"fused:{case['template']}"
        # root cause: a recorded region explains the excess unless the excess survives outside it
        if kr == "compressed-read-third-buffer" and cause != "compressed-read-third-buffer":
            bucket = f"under-projected:{cause}"
        elif kr:
            bucket = f"under-projected:{kr}"
        else:
            bucket = f"under-projected:{cause}"
        fails.append(Failure(bucket, f"{case['template']} {case['dtype']} {case['geom']} comp={case['compressor']} data={case['data']} opt={case['optimize']}: task of {name} ({fn}) peaked at {peak/1e6:.2f} MB, projected {proj/1e6:.2f} MB"))
    nt = m.get("chunk_bytes", 0) >= 1_000_000 and ntasks > 0
    if w is not None:
        labels.add("ratio<=0.5" if w[3] <= 0.5 * w[4] else ("ratio<=0.9" if w[3] <= 0.9 * w[4] else "ratio<=1.0+"))
    return Outcome(nontrivial=nt, labels=tuple(labels), failures=tuple(fails), excluded=int(case.get("moved_out_of_known_region", 0)))


def shards(tier):
    if tier == "quick":
        return [{"kind": "memory", "name": f"m{i}", "n": 24} for i in range(8)] + [
            {"kind": "sweep", "name": f"sweep{i}", "part": i, "of": 8, "per": 3} for i in range(8)]
    return [{"kind": "memory", "name": f"m{i}", "n": 220} for i in range(16)] + [
        {"kind": "sweep", "name": f"sweep{i}", "part": i, "of": 16, "per": 40} for i in range(16)]


def run_shard(spec, seed, tier) -> Acc:
    acc = Acc()
    if spec["kind"] == "__corpus__":
        return core.corpus_shard(sys.modules[__name__], acc)
    is_known, _ = core.known_matcher(ID)
    if spec["kind"] == "sweep":
        # every operation template is visited in every run: `per` cases (geometry, dtype, compressor, data, optimizer drawn) each
        for j, t in enumerate(sorted(templates())[spec["part"]::spec["of"]]):
            core.hyp_run(case_strategy(only=[t]), check_case, seed=seed + j, max_examples=spec["per"], acc=acc,
                         budget_s=120 if tier == "quick" else 1500, shrink=False, is_known=is_known)
        return acc
    core.hyp_run(case_strategy(), check_case, seed=seed, max_examples=spec["n"], acc=acc, budget_s=500 if tier == "quick" else 3000, shrink=False, is_known=is_known)
    return acc


def replay(case):
    return check_case(case).all_failures()
