"""C18 — resource specs cannot be mixed silently; memory settings mean what they say.

Three generated parts:
  mix      every multi-array entry point (derived from the op table of vp.ir, the dunders of cubed.Array and a few
           hand-written calls: clip/diff with array arguments, take/__getitem__ with a cubed index, compute, plan,
           visualize, store, to_zarr) x two Specs that differ in one drawn field (or explicit Spec vs config default)
  budget   accepted single-Spec programs: allowed_mem / reserved_mem of every primitive op and of the finalized plan
           are the Spec's values
  literal  memory-size literals through convert_to_bytes / Spec(allowed_mem=) / Spec(reserved_mem=) against exact
           decimal arithmetic
"""
from __future__ import annotations

import inspect
import math
import operator
import os
import re
import shutil
import sys
import tempfile
import unicodedata
import warnings
from fractions import Fraction

import numpy as np

import vp  # noqa
from vp import core, ir
from vp import prog as P
from vp.core import Acc, Failure, Outcome

ID = "C18"
LEVEL = "exploration"
RULE = (
    "mix: an entry point is drawn from the derived list (every vp.ir op-table entry of arity 2, 3 or list, every "
    "cubed.Array dunder taking `other` (forward, reflected, and the in-place operator forms), plus clip with array "
    "bounds, where with one scalar branch, diff with prepend/append arrays, take/__getitem__ with a cubed index, cubed.compute/plan/visualize of "
    "several arrays, cubed.store of several sources (computed and compute=False) and to_zarr of a combination); "
    "arguments are generated so that the call is valid (shapes, dtypes, chunks per entry point; optionally each "
    "argument is first passed through a one-array operation so that plans are not trivial); two Specs are drawn equal "
    "except in ONE field (work_dir, intermediate_store, allowed_mem, reserved_mem, executor, executor_name, "
    "executor_options, storage_options, zarr_compressor) or one is the config default (spec=None) and the other explicit; "
    "which argument carries which Spec is drawn. The call is first made with every array under the same Spec (control; "
    "if that does not build the case is discarded and counted) and then with the mixed Specs under "
    "cubed.raise_if_computes() / a never-executor. Oracle: the mixed call raises ValueError (TypeError/"
    "NotImplementedError also count as refusals), or it returns arrays none of whose plan DAGs contains nodes of "
    "inputs that carry different Specs (meshgrid, broadcast_arrays, store(compute=False), eager index evaluation in "
    "take/__getitem__); compute/plan/visualize/store/to_zarr must not return at all; no execution may be entered and "
    "no store/file may change during the mixed call. Non-trivial = Spec.__eq__ says the two Specs differ and the "
    "control built. budget: programs from the shared program generator built under one Spec whose allowed_mem/"
    "reserved_mem are drawn literals; every primitive_op.allowed_mem/reserved_mem in the finalized DAG (optimized "
    "and not) and FinalizedPlan.allowed_mem equal the exact values; non-trivial = the plan has a primitive op. "
    "literal: ints (small, > 2**53, negative, bool), floats (integral, fractional, inf, nan, -0.0, huge), strings "
    "from the grammar sign? digits (. digits)? (e exp)? ws? unit? with units '',B,kB,MB,GB,TB,PB (mostly <= 15 "
    "significant digits and value < 2**50; a separate class with more digits / larger values), near-miss units and "
    "malformed strings (KB, kb, KiB, 'B' alone, empty, inner whitespace, underscores, non-ASCII digits, hex, inf/nan "
    "words, random text). Oracle (fractions.Fraction): if the call returns, the result is an int equal to value x "
    "1000^k exactly, non-negative and whole; any exception is a rejection. Non-trivial = string with unit, fraction "
    "or exponent, a float, or an int >= 2**53. distinct = distinct canonical JSON of the case."
)
ASSUMPTIONS = [
    "two Specs are 'different' when Spec.__eq__ says so - except that Specs whose work_dir, allowed_mem, reserved_mem, "
    "storage_options or zarr_compressor attributes differ must not compare equal; pairs cubed considers equal (two empty "
    "MemoryStores, '100MB' vs 100000000, executor_options without an executor name) are counted, not judged",
    "an entry point may accept mixed Specs only if no returned array's plan contains inputs of both Specs (checked on "
    "result.plan(optimize_graph=False).dag); the exception type for a refusal is ValueError, TypeError or NotImplementedError",
    "a literal string has the value obtained by removing whitespace, reading Unicode decimal digits and single underscores "
    "between digits as Python does, and multiplying by 1000^k for the exact unit spellings B,kB,MB,GB,TB,PB; near-miss "
    "spellings, if accepted, must still match a decimal (or, for KiB-style, binary) reading; an empty/falsy reserved_mem means 'unset'",
    "executors in Specs are limited to single-threaded and threads; arrays have at most a few hundred elements",
]

ALLOWED_REFUSALS = (ValueError, TypeError, NotImplementedError)
TWO53 = 2**53


# =========================================================================== part 1: entry points
class Entry:
    def __init__(self, name, recipe, call, *, group, accept_ok=False, eager=False, returns_arrays=True, executes=False, prep=None):
        self.name = name
        self.prep = prep  # (env) -> None: harness-side preparation (store targets) done before the stores are snapshotted
        self.recipe = recipe  # (draw, st) -> (args, params, opt) | None
        self.call = call  # (env) -> result ; env: dict(arrs, params, opt, mode, dir, executor)
        self.group = group
        self.accept_ok = accept_ok  # outputs each derive from one argument
        self.eager = eager  # evaluates an (index) argument eagerly on its own
        self.returns_arrays = returns_arrays
        self.executes = executes  # control call executes (compute/store/to_zarr)


_DT_COMMON = {
    "numeric": ["int64", "float64", "float64", "int32", "float32", "uint8", "complex128", "int8", "uint16", "complex64"],
    "floating": ["float64", "float64", "float32", "complex128", "complex64"],
    "realfloat": ["float64", "float64", "float32"],
    "intbool": ["int64", "bool", "int32", "uint8", "int8", "uint32", "int16"],
    "int": ["int64", "int32", "uint8", "int8", "uint16", "int16"],
    "realnum": ["int64", "float64", "float64", "int32", "float32", "uint8", "int16"],
    "bool": ["bool"],
    "all": ["int64", "float64", "bool", "float32", "complex128", "uint8", "int32"],
    "complex": ["complex128", "complex64"],
}
_INPUT_KINDS = ["asarray"] * 6 + ["from_array", "ones", "zeros"]


def _promotable(d1, d2):
    return ir.can_promote(np.zeros((), dtype=d1), np.zeros((), dtype=d2))


def _dt(draw, st, cat):
    return draw(st.sampled_from(_DT_COMMON[cat]))


def _dt2(draw, st, cat, d1):
    if draw(st.integers(0, 9)) < 6:
        return d1
    cands = [d for d in _DT_COMMON[cat] if _promotable(d1, d)]
    return draw(st.sampled_from(cands)) if cands else d1


def _shape(draw, st, min_nd=0, max_nd=3):
    nd = draw(st.integers(min_nd, max_nd))
    return [draw(st.sampled_from([1, 2, 3, 4, 5, 6])) for _ in range(nd)]


def _bshape(draw, st, shape):
    how = draw(st.sampled_from(["same", "same", "same", "ones", "tail", "scalar"]))
    shape = list(shape)
    if how == "ones":
        return [1 if draw(st.booleans()) else s for s in shape]
    if how == "tail" and shape:
        return shape[draw(st.integers(0, len(shape))):]
    if how == "scalar":
        return []
    return shape


def _inp(draw, st, shape, dtype, k, kind=None):
    kd = kind or draw(st.sampled_from(_INPUT_KINDS))
    return {"kind": kd, "shape": [int(s) for s in shape], "dtype": dtype, "chunks": P.draw_chunks(draw, st, shape), "k": k}


def _arange(draw, st, n, dtype, k):
    return {"kind": "arange", "start": 0, "stop": int(n), "step": 1, "shape": [int(n)], "dtype": dtype,
            "chunks": P.draw_chunks(draw, st, [n]), "k": k}


def _table_params(op, draw, st, args):
    vals = [P.input_value(a) for a in args]
    if op.pred is not None and not P._safe(op.pred, *vals):
        return None
    p = op.params(draw, st, vals) if op.params is not None else {}
    return p


def rec_binary(cat):
    def rec(draw, st):
        d1 = _dt(draw, st, cat)
        d2 = _dt2(draw, st, cat, d1)
        s1 = _shape(draw, st)
        s2 = _bshape(draw, st, s1)
        a, b = _inp(draw, st, s1, d1, 0), _inp(draw, st, s2, d2, 1)
        if draw(st.booleans()):
            a, b = b, a
        return [a, b]

    return rec


def rec_where(draw, st):
    s = _shape(draw, st)
    d1 = _dt(draw, st, "all")
    d2 = _dt2(draw, st, "all", d1)
    return [_inp(draw, st, s, "bool", 0), _inp(draw, st, _bshape(draw, st, s), d1, 1), _inp(draw, st, _bshape(draw, st, s), d2, 2)]


def rec_list(min_nd):
    def rec(draw, st):
        n = draw(st.integers(2, 3))
        s = _shape(draw, st, min_nd, 3)
        d1 = _dt(draw, st, "all")
        args = [_inp(draw, st, s, d1 if i == 0 else _dt2(draw, st, "all", d1), i) for i in range(n)]
        for a in args[1:]:
            a["chunks"] = list(args[0]["chunks"])  # concat wants equal chunk sizes along the axis
        return args

    return rec


def rec_any_pair(draw, st):
    s = _shape(draw, st)
    return [_inp(draw, st, s, _dt(draw, st, "all"), 0), _inp(draw, st, _bshape(draw, st, s), _dt(draw, st, "all"), 1)]


def rec_1d_pair(cat, same_dtype=False):
    def rec(draw, st):
        d1 = _dt(draw, st, cat)
        d2 = d1 if same_dtype else _dt2(draw, st, cat, d1)
        return [_inp(draw, st, [draw(st.integers(1, 6))], d1, 0), _inp(draw, st, [draw(st.integers(1, 6))], d2, 1)]

    return rec


def rec_mm(draw, st):
    d1 = _dt(draw, st, "numeric")
    d2 = _dt2(draw, st, "numeric", d1)
    n, k, m, b = (draw(st.integers(1, 5)) for _ in range(4))
    form = draw(st.sampled_from(["2x2", "2x2", "1x1", "3x2", "2x1", "1x2"]))
    sa, sb = {"2x2": ([n, k], [k, m]), "1x1": ([k], [k]), "3x2": ([b, n, k], [k, m]), "2x1": ([n, k], [k]), "1x2": ([k], [k, m])}[form]
    return [_inp(draw, st, sa, d1, 0), _inp(draw, st, sb, d2, 1)]


def rec_tensordot(draw, st):
    d1 = _dt(draw, st, "numeric")
    d2 = _dt2(draw, st, "numeric", d1)
    sa = _shape(draw, st, 1, 3)
    sb = _shape(draw, st, 1, 3)
    sb[draw(st.integers(0, len(sb) - 1))] = sa[draw(st.integers(0, len(sa) - 1))]
    return [_inp(draw, st, sa, d1, 0), _inp(draw, st, sb, d2, 1)]


def rec_vecdot(draw, st):
    d1 = _dt(draw, st, "realnum")
    d2 = _dt2(draw, st, "realnum", d1)
    s = _shape(draw, st, 1, 3)
    return [_inp(draw, st, s, d1, 0), _inp(draw, st, s, d2, 1)]


def rec_searchsorted(draw, st):
    d = draw(st.sampled_from(["int64", "float64", "int32", "float32"]))
    return [_arange(draw, st, draw(st.integers(1, 8)), d, 0), _inp(draw, st, _shape(draw, st, 0, 2), d, 1)]


def rec_isin(draw, st):
    d = draw(st.sampled_from(["int64", "float64", "bool", "int32", "uint8"]))
    return [_inp(draw, st, _shape(draw, st, 0, 3), d, 0), _inp(draw, st, [draw(st.integers(1, 6))], d, 1)]


def rec_same(dtypes, min_nd=0):
    def rec(draw, st):
        d = draw(st.sampled_from(dtypes))
        s = _shape(draw, st, min_nd, 3)
        a = _inp(draw, st, s, d, 0)
        b = _inp(draw, st, s, d, 1)
        b["chunks"] = list(a["chunks"])
        return [a, b]

    return rec


def rec_gufunc2(draw, st):
    s = _shape(draw, st, 0, 2)
    j = draw(st.integers(1, 4))
    a = _inp(draw, st, s, "int64", 0)
    b = _inp(draw, st, s + [j], "int64", 1)
    b["chunks"] = list(a["chunks"]) + [j]
    return [a, b]


def _cat_of_table_op(name):
    if name in ir.BINARY:
        return ir.BINARY[name][0]
    if name in ir.OPERATORS:
        return ir.OPERATORS[name][1]
    return None


TABLE_RECIPES = {
    "where": rec_where,
    "concat": rec_list(1),
    "stack": rec_list(0),
    "broadcast_arrays": rec_any_pair,
    "meshgrid": rec_1d_pair("numeric", same_dtype=True),
    "matmul": rec_mm,
    "tensordot": rec_tensordot,
    "vecdot": rec_vecdot,
    "outer": rec_1d_pair("numeric"),
    "searchsorted": rec_searchsorted,
    "isin": rec_isin,
    "map_blocks2": rec_same(["int64", "float64"]),
    "apply_gufunc2": rec_gufunc2,
}

DUNDER_CAT = {
    "add": "numeric", "sub": "numeric", "mul": "numeric", "pow": "numeric", "truediv": "floating",
    "floordiv": "realnum", "mod": "realnum", "and": "intbool", "or": "intbool", "xor": "intbool",
    "lshift": "int", "rshift": "int", "lt": "realnum", "le": "realnum", "gt": "realnum", "ge": "realnum",
    "eq": "all", "ne": "all", "matmul": "mm",
}
INPLACE = ["iadd", "isub", "imul", "itruediv", "ifloordiv", "imod", "ipow", "imatmul", "iand", "ior", "ixor", "ilshift", "irshift"]


def _table_entry(name, op):
    cat = _cat_of_table_op(name)
    base = TABLE_RECIPES.get(name) or (rec_binary(cat) if cat else rec_same(["float64"]))

    def recipe(draw, st):
        args = base(draw, st)
        p = _table_params(op, draw, st, args)
        if p is None:
            return None
        return args, p, {}

    def call(env):
        import cubed.array_api as xp

        return op.cub(xp, list(env["arrs"]), env["params"])

    accept_ok = "multi-output-single-parent" in op.tags
    return Entry(name, recipe, call, group="table", accept_ok=accept_ok)


def _dunder_entries():
    import cubed

    out = []
    names = []
    for klass in cubed.Array.__mro__:
        for n, f in vars(klass).items():
            if re.fullmatch(r"__[a-z]+__", n) and callable(f) and n not in names:
                try:
                    ps = list(inspect.signature(f).parameters)
                except (TypeError, ValueError):
                    continue
                if ps[:2] == ["self", "other"]:
                    names.append(n)
    for n in sorted(names):
        core_name = n.strip("_")
        refl = core_name.startswith("r") and core_name[1:] in DUNDER_CAT and core_name not in DUNDER_CAT
        base = core_name[1:] if refl else core_name
        if not refl and ("op_" + base) in ir.OPS:
            continue  # forward form is in the op table (through the operator module)
        cat = DUNDER_CAT.get(base, "numeric")
        rec0 = rec_mm if cat == "mm" else rec_binary(cat)

        def recipe(draw, st, _r=rec0, _swap=(refl and cat == "mm")):
            args = _r(draw, st)
            return (args[::-1] if _swap else args), {}, {}

        def call(env, _n=n):
            a, b = env["arrs"]
            r = getattr(a, _n)(b)
            if r is NotImplemented:
                raise TypeError("NotImplemented")
            return r

        out.append(Entry(f"Array.{n}", recipe, call, group="dunder"))
    for n in INPLACE:
        f = getattr(operator, n)
        cat = DUNDER_CAT.get(n[1:], "numeric")
        rec0 = rec_mm if cat == "mm" else rec_binary(cat)

        def recipe(draw, st, _r=rec0):
            return _r(draw, st), {}, {}

        def call(env, _f=f):
            a, b = env["arrs"]
            return _f(a, b)

        out.append(Entry(f"inplace:{n}", recipe, call, group="dunder"))
    return out


# ---- hand-written entry points
def _rec_clip(which):
    def rec(draw, st):
        d = _dt(draw, st, "realnum")
        s = _shape(draw, st)
        args = [_inp(draw, st, s, d, 0)]
        for i in range(2 if which == "both" else 1):
            args.append(_inp(draw, st, _bshape(draw, st, s), d, i + 1))
        other = draw(st.sampled_from([None, None, 3]))
        return args, {"other": other}, {}

    return rec


def _call_clip(which):
    def call(env):
        import cubed.array_api as xp

        a = env["arrs"]
        o = env["params"].get("other")
        if which == "min":
            return xp.clip(a[0], a[1], o)
        if which == "max":
            return xp.clip(a[0], o, a[1])
        return xp.clip(a[0], a[1], a[2])

    return call


def _rec_diff(which):
    def rec(draw, st):
        d = _dt(draw, st, "numeric")
        s = _shape(draw, st, 1, 3)
        ax = draw(st.integers(0, len(s) - 1))
        args = [_inp(draw, st, s, d, 0)]
        extra = 0
        for i in range(2 if which == "both" else 1):
            sh = list(s)
            sh[ax] = draw(st.integers(1, 3))
            extra += sh[ax]
            extra_inp = _inp(draw, st, sh, d, i + 1)
            # cubed's concat wants the same chunk sizes off the concatenation axis
            extra_inp["chunks"] = [c if j != ax else min(c, sh[ax]) for j, c in enumerate(args[0]["chunks"])]
            args.append(extra_inp)
        n = draw(st.integers(1, 2))
        if s[ax] + extra <= n:
            n = 1
        if draw(st.booleans()):
            ax -= len(s)
        return args, {"axis": ax, "n": n}, {}

    return rec


def _call_diff(which):
    def call(env):
        import cubed.array_api as xp

        a = env["arrs"]
        p = env["params"]
        kw = {}
        if which == "prepend":
            kw["prepend"] = a[1]
        elif which == "append":
            kw["append"] = a[1]
        else:
            kw["prepend"], kw["append"] = a[1], a[2]
        return xp.diff(a[0], axis=p["axis"], n=p["n"], **kw)

    return call


def _rec_where_scalar(draw, st):
    s = _shape(draw, st)
    d = _dt(draw, st, "realnum")
    sc = draw(st.sampled_from([0, 1, 2])) if d.startswith(("int", "uint")) else draw(st.sampled_from([0.5, 2.0, 1]))
    return [_inp(draw, st, s, "bool", 0), _inp(draw, st, _bshape(draw, st, s), d, 1)], {"scalar": sc, "first": draw(st.booleans())}, {}


def _call_where_scalar(env):
    import cubed.array_api as xp

    c, a = env["arrs"]
    p = env["params"]
    return xp.where(c, p["scalar"], a) if p["first"] else xp.where(c, a, p["scalar"])


def _rec_index(draw, st):
    s = _shape(draw, st, 1, 3)
    d = _dt(draw, st, "all")
    ax = draw(st.integers(0, len(s) - 1))
    m = draw(st.integers(1, s[ax]))
    return [_inp(draw, st, s, d, 0), _arange(draw, st, m, "int64", 1)], {"axis": ax}, {}


def _call_take(env):
    import cubed.array_api as xp

    a, i = env["arrs"]
    return xp.take(a, i, axis=env["params"]["axis"])


def _call_getitem(env):
    a, i = env["arrs"]
    return a[(slice(None),) * env["params"]["axis"] + (i,)]


def _rec_arrays(min_n, max_n, min_nd=0):
    def rec(draw, st):
        n = draw(st.integers(min_n, max_n))
        args = [_inp(draw, st, _shape(draw, st, min_nd, 2), _dt(draw, st, "all"), i) for i in range(n)]
        opt = {
            "pass_executor": draw(st.booleans()),
            "optimize": draw(st.booleans()),
            "format": draw(st.sampled_from(["dot", "svg", "raw"])),
            "targets": draw(st.sampled_from(["path", "path", "zarr"])),
        }
        return args, {}, opt

    return rec


def _real_executor():
    from cubed.runtime.create import create_executor

    return create_executor("single-threaded")


def _exec_kw(env):
    """Executor for a computing entry point: control really computes; the mixed call must never get that far."""
    if env["mode"] == "control":
        return {"executor": _real_executor()}
    if env["opt"].get("pass_executor"):
        return {"executor": env["never"]}
    return {}  # falls back to config (raise-if-computes is active around the mixed call)


def _call_compute(env):
    import cubed

    return cubed.compute(*env["arrs"], optimize_graph=env["opt"].get("optimize", True), **_exec_kw(env))


def _call_plan(env):
    import cubed

    return cubed.plan(*env["arrs"], optimize_graph=env["opt"].get("optimize", True))


def _call_visualize(env):
    import cubed

    fn = os.path.join(env["dir"], f"viz-{env['mode']}")
    return cubed.visualize(*env["arrs"], filename=fn, format=env["opt"].get("format", "dot"), optimize_graph=env["opt"].get("optimize", True))


def _prep_targets(env):
    arrs = env["arrs"]
    out = []
    if env["opt"].get("targets") == "zarr":
        import zarr
        from zarr.storage import MemoryStore

        for i, a in enumerate(arrs):
            st_ = MemoryStore()
            env["watch_stores"].append(st_)
            out.append(zarr.create_array(st_, shape=a.shape, dtype=a.dtype, chunks=tuple(max(1, c) for c in a.chunksize)))
    else:
        for i, a in enumerate(arrs):
            out.append(os.path.join(env["dir"], f"t-{env['mode']}-{i}.zarr"))
    env["targets"] = out


def _call_store(env):
    import cubed

    return cubed.store(list(env["arrs"]), env["targets"], **_exec_kw(env))


def _call_store_lazy(env):
    import cubed

    return cubed.store(list(env["arrs"]), env["targets"], compute=False)


def _rec_to_zarr(draw, st):
    args = rec_same(["int64", "float64", "float32", "uint8"], 1)(draw, st)
    return args, {}, {"pass_executor": draw(st.booleans()), "targets": "path"}


def _call_to_zarr(env):
    import cubed
    import cubed.array_api as xp

    a, b = env["arrs"]
    return cubed.to_zarr(xp.add(a, b), os.path.join(env["dir"], f"tz-{env['mode']}.zarr"), **_exec_kw(env))


_ENTRIES = None


def entries():
    """The derived list of multi-array entry points (name -> Entry), in a deterministic order."""
    global _ENTRIES
    if _ENTRIES is not None:
        return _ENTRIES
    out = {}
    for name, op in ir.OPS.items():
        if op.arity in (2, 3, "list") and op.cub is not None:
            out[name] = _table_entry(name, op)
    for e in _dunder_entries():
        out[e.name] = e
    hand = [
        Entry("clip(min=array)", _rec_clip("min"), _call_clip("min"), group="hand"),
        Entry("clip(max=array)", _rec_clip("max"), _call_clip("max"), group="hand"),
        Entry("clip(min=array,max=array)", _rec_clip("both"), _call_clip("both"), group="hand"),
        Entry("where(cond,array,scalar)", _rec_where_scalar, _call_where_scalar, group="hand"),
        Entry("diff(prepend=array)", _rec_diff("prepend"), _call_diff("prepend"), group="hand"),
        Entry("diff(append=array)", _rec_diff("append"), _call_diff("append"), group="hand"),
        Entry("diff(prepend=array,append=array)", _rec_diff("both"), _call_diff("both"), group="hand"),
        Entry("take(cubed index)", _rec_index, _call_take, group="hand", eager=True),
        Entry("getitem(cubed index)", _rec_index, _call_getitem, group="hand", eager=True),
        Entry("compute", _rec_arrays(2, 3), _call_compute, group="plan", returns_arrays=False, executes=True),
        Entry("plan", _rec_arrays(2, 3), _call_plan, group="plan", returns_arrays=False),
        Entry("visualize", _rec_arrays(2, 3), _call_visualize, group="plan", returns_arrays=False),
        Entry("store", _rec_arrays(2, 3, 1), _call_store, group="plan", returns_arrays=False, executes=True, prep=_prep_targets),
        Entry("store(compute=False)", _rec_arrays(2, 3, 1), _call_store_lazy, group="plan", accept_ok=True, prep=_prep_targets),
        Entry("to_zarr(add(a,b))", _rec_to_zarr, _call_to_zarr, group="plan", returns_arrays=False, executes=True),
    ]
    for e in hand:
        out[e.name] = e
    _ENTRIES = out
    return out


# ---- spec pairs
FIELDS = ["work_dir", "intermediate_store", "allowed_mem", "reserved_mem", "executor", "executor_name", "executor_options", "storage_options", "zarr_compressor"]
_BLOSC = {"name": "blosc", "configuration": {"cname": "lz4", "clevel": 2, "shuffle": "shuffle"}}
_BLOSC5 = {"name": "blosc", "configuration": {"cname": "lz4", "clevel": 5, "shuffle": "shuffle"}}
FIELD_VALUES = {
    "work_dir": ["wd0", "wdA", "wdB", None],
    "intermediate_store": ["m0", "m1", "mf", "ls", None],
    "allowed_mem": [200_000_000, 100_000_000, "100MB", "0.1GB", 200_000_001, 199_999_999, 2_000_000_000, "2GB", "200MB"],
    "reserved_mem": [0, 1, 1000, "1kB", 1_000_000, "1MB", None],
    "executor": [None, {"n": "single-threaded"}, {"n": "threads"}, {"n": "threads", "o": {"max_workers": 2}}, {"n": "threads", "o": {"max_workers": 3}}],
    "executor_name": [None, "single-threaded", "threads"],
    "executor_options": [None, {"max_workers": 2}, {"max_workers": 3}],
    "storage_options": [None, {}, {"a": 1}, {"a": 2}, {"anon": True}],
    "zarr_compressor": ["auto", None, _BLOSC, _BLOSC5, {"name": "zstd", "configuration": {"level": 3}}],
}


def pair_strategy(draw, st):
    variant = draw(st.sampled_from(["two", "two", "two", "default"]))
    field = draw(st.sampled_from(FIELDS))
    base = {
        "store": draw(st.sampled_from(["m0", None])) if variant == "two" else None,
        "allowed_mem": draw(st.sampled_from([200_000_000, "200MB", 2_000_000_000])),
        "reserved_mem": draw(st.sampled_from([0, 0, 1000])),
        "zarr_compressor": draw(st.sampled_from(["auto", "auto", None])),
        "executor_name": draw(st.sampled_from([None, None, "threads", "single-threaded"])) if field in ("executor_options", "storage_options", "allowed_mem") else None,
    }
    vals = FIELD_VALUES[field]
    if variant == "two":
        ia = draw(st.integers(0, len(vals) - 1))
        ib = draw(st.integers(0, len(vals) - 2))
        if ib >= ia:
            ib += 1
        va, vb = vals[ia], vals[ib]
    else:
        va = None  # the config default: base as is
        vb = draw(st.sampled_from(vals + ["<same>"]))
        if field == "intermediate_store" and vb in ("m0",):
            vb = "m1"
    return {"variant": variant, "field": field, "base": base, "va": va, "vb": vb}


def mix_cases(entry_names):
    from hypothesis import strategies as st

    ents = entries()

    @st.composite
    def cases(draw):
        name = draw(st.sampled_from(entry_names))
        e = ents[name]
        r = None
        for _ in range(3):
            r = e.recipe(draw, st)
            if r is not None:
                break
        pair = pair_strategy(draw, st)
        if r is None:
            return {"kind": "mix", "entry": name, "args": None, "pair": pair}
        args, params, opt = r
        n = len(args)
        if e.eager:
            assign = [0, 1] if draw(st.booleans()) else [1, 0]
        else:
            assign = [draw(st.integers(0, 1)) for _ in range(n)]
            if len(set(assign)) == 1:
                assign[draw(st.integers(0, n - 1))] ^= 1
        derive = [draw(st.integers(0, 3)) == 0 for _ in range(n)]
        return {"kind": "mix", "entry": name, "args": args, "params": params, "opt": opt, "assign": assign, "derive": derive, "pair": pair}

    return cases()


class _Env:
    """Per-case scratch: a directory, the stores created for the Specs, helpers to snapshot them."""

    _n = 0

    def __init__(self, root):
        _Env._n += 1
        self.dir = os.path.join(root, f"case-{_Env._n}")  # created only when an entry point needs files
        self.stores = {}

    def store(self, code):
        from zarr.storage import LocalStore, MemoryStore

        if code is None:
            return None
        if code in self.stores:
            return self.stores[code]
        if code in ("m0", "m1"):
            s = MemoryStore()
        elif code == "mf":
            import zarr

            s = MemoryStore()
            zarr.create_array(s, name="pre", shape=(1,), dtype="int8", chunks=(1,))
        elif code == "ls":
            s = LocalStore(os.path.join(self.dir, "ls"))
        else:
            raise core.HarnessError(f"store code {code}")
        self.stores[code] = s
        return s

    def wd(self, code):
        return None if code is None else os.path.join(self.dir, code)

    def close(self):
        if os.path.isdir(self.dir):
            shutil.rmtree(self.dir, ignore_errors=True)


PLAIN_FIELDS = ["work_dir", "allowed_mem", "reserved_mem", "storage_options", "zarr_compressor"]


def _neq(a, b):
    try:
        return bool(a != b)
    except Exception:
        return a is not b


def _executor_obj(enc):
    if enc is None:
        return None
    from cubed.runtime.create import create_executor

    return create_executor(enc["n"], enc.get("o"))


def _spec_kwargs(env: _Env, base, field=None, value=None):
    kw = {
        "work_dir": env.wd("wd0"),
        "intermediate_store": env.store(base.get("store")),
        "allowed_mem": base["allowed_mem"],
        "reserved_mem": base["reserved_mem"],
        "executor": None,
        "executor_name": base.get("executor_name"),
        "executor_options": None,
        "storage_options": None,
        "zarr_compressor": base["zarr_compressor"],
    }
    if field is None:
        return kw
    if field == "work_dir":
        kw[field] = env.wd(value)
    elif field == "intermediate_store":
        kw[field] = env.store(value)
    elif field == "executor":
        kw[field] = _executor_obj(value)
    else:
        kw[field] = value
    return kw


def _config_spec(kw):
    """The part of Spec kwargs that can live in cubed's config."""
    d = {}
    for k, v in kw.items():
        if k in ("intermediate_store", "executor"):
            continue
        if v is None and k != "zarr_compressor":
            continue
        d[k] = v
    return d


def _flatten_arrays(r):
    import cubed

    if isinstance(r, cubed.Array) or hasattr(r, "_plan"):
        return [r]
    if isinstance(r, (tuple, list)):
        out = []
        for x in r:
            out.extend(_flatten_arrays(x))
        return out
    return []


def _snapshot(env: _Env, extra_stores):
    files = []
    for d, _, fs in os.walk(env.dir):
        for f in fs:
            p = os.path.join(d, f)
            try:
                files.append((os.path.relpath(p, env.dir), os.path.getsize(p)))
            except OSError:
                pass
    mem = []
    for code, s in sorted(env.stores.items()):
        sd = getattr(s, "_store_dict", None)
        if sd is not None:
            mem.append((code, tuple(sorted(sd))))
    for i, s in enumerate(extra_stores):
        sd = getattr(s, "_store_dict", None)
        if sd is not None:
            mem.append((f"x{i}", tuple(sorted(sd))))
    return sorted(files), mem


def _build_args(case, specs):
    """cubed arrays for the case's arguments; specs[i] is the Spec (or None) of argument i."""
    import cubed.array_api as xp

    ctx = P.BuildCtx()
    arrs = []
    for inp, sp, dv in zip(case["args"], specs, case["derive"]):
        a = P.build_input(inp, sp, ctx)
        if dv:
            a = xp.flip(a)
        arrs.append(a)
    return arrs


_ROOT = None


def _root():
    global _ROOT
    if _ROOT is None or not os.path.isdir(_ROOT):
        import atexit

        _ROOT = tempfile.mkdtemp(prefix="vp-c18-")
        atexit.register(shutil.rmtree, _ROOT, ignore_errors=True)  # safety net; shards remove it themselves
    return _ROOT


def _cleanup_root():
    global _ROOT
    if _ROOT is not None:
        shutil.rmtree(_ROOT, ignore_errors=True)
        _ROOT = None


def check_mix(case) -> Outcome:
    env = _Env(_root())
    try:
        with warnings.catch_warnings():
            warnings.simplefilter("ignore")
            return _check_mix(case, env)
    finally:
        env.close()


def _check_mix(case, env: _Env) -> Outcome:
    import contextlib

    import cubed
    from vp.harness import NeverExecutor

    name = case["entry"]
    e = entries().get(name)
    if e is None:
        raise core.HarnessError(f"unknown entry point {name}")
    pair = case["pair"]
    field = pair["field"]
    labels = [f"entry:{name}", f"field:{field}", f"variant:{pair['variant']}", f"group:{e.group}"]
    if case.get("args") is None:
        return Outcome(labels=tuple(labels + ["discard:no-valid-arguments", f"discard:{name}"]))

    base = pair["base"]
    kw_a = _spec_kwargs(env, base) if pair["variant"] == "default" else _spec_kwargs(env, base, field, pair["va"])
    kw_b = _spec_kwargs(env, base) if pair["vb"] == "<same>" else _spec_kwargs(env, base, field, pair["vb"])
    try:
        if pair["variant"] == "default":
            cfg = contextlib.ExitStack()
            cfg.enter_context(cubed.config.set({"spec": _config_spec(kw_a)}))
            spec_a = None
        else:
            cfg = contextlib.ExitStack()
            spec_a = cubed.Spec(**kw_a)
        spec_b = cubed.Spec(**kw_b)
    except Exception as ex:  # a Spec that cannot even be constructed is not a mixed-spec case
        return Outcome(labels=tuple(labels + [f"discard:spec-construction:{type(ex).__name__}"]))

    with cfg:
        n = len(case["args"])
        opt = case.get("opt") or {}
        never = NeverExecutor()
        # ---- control: every argument under the same Spec (A, and B too so that B itself is known to be usable)
        for which, sp in (("A", spec_a), ("B", spec_b)):
            try:
                arrs = _build_args(case, [sp] * n)
                cdir = os.path.join(env.dir, f"control{which}")
                if e.group == "plan":
                    os.makedirs(cdir, exist_ok=True)
                cenv = {"arrs": arrs, "params": case.get("params") or {}, "opt": opt, "mode": "control", "dir": cdir, "never": never, "watch_stores": []}
                if e.prep:
                    e.prep(cenv)
                e.call(cenv)
            except Exception as ex:
                return Outcome(labels=tuple(labels + ["discard:control-failed", f"discard:{name}:{type(ex).__name__}"]))

        # ---- mixed
        specs = [spec_a if s == 0 else spec_b for s in case["assign"]]
        try:
            arrs = _build_args(case, specs)
        except Exception as ex:
            return Outcome(labels=tuple(labels + ["discard:mixed-args-failed", f"discard:{name}:{type(ex).__name__}"]))
        sa = next(a.spec for a, s in zip(arrs, case["assign"]) if s == 0)
        sb = next(a.spec for a, s in zip(arrs, case["assign"]) if s == 1)
        eq_says_equal = bool(sa == sb)
        # fields whose values are plain data are compared directly, so that the check does not inherit a Spec.__eq__
        # that forgets one of them; store and executor objects are compared the way cubed compares them
        plain = [f for f in PLAIN_FIELDS if _neq(getattr(sa, f, None), getattr(sb, f, None))]
        if eq_says_equal and plain:
            return Outcome(
                nontrivial=True,
                labels=tuple(labels + ["spec-eq-wrong"]),
                failure=Failure(f"spec-eq-ignores:{plain[0]}", f"Spec.__eq__ says equal although {plain[0]} differs: {getattr(sa, plain[0])!r} vs {getattr(sb, plain[0])!r}"),
            )
        differ = not eq_says_equal
        watch = []
        mdir = os.path.join(env.dir, "mixed")
        if e.group == "plan":
            os.makedirs(mdir, exist_ok=True)
        menv = {"arrs": arrs, "params": case.get("params") or {}, "opt": opt, "mode": "mixed", "dir": mdir, "never": never, "watch_stores": watch}
        if e.prep:
            e.prep(menv)
        before = _snapshot(env, watch)
        guard = contextlib.nullcontext() if e.eager else cubed.raise_if_computes()
        result, exc = None, None
        try:
            with guard:
                result = e.call(menv)
        except Exception as ex:  # noqa
            exc = ex
        after = _snapshot(env, watch)

        if not differ:
            # cubed considers the two Specs equal: not a mixed-spec case
            labels.append("equal-specs")
            labels.append("equal-specs:accepted" if exc is None else f"equal-specs:{type(exc).__name__}")
            return Outcome(nontrivial=False, labels=tuple(labels))

        fails = []
        detail = f"{name} with Specs differing in {field} ({pair['va']!r} vs {pair['vb']!r}, variant {pair['variant']}), assign={case['assign']}"
        executed = never.entered > 0 or (isinstance(exc, RuntimeError) and "'compute' was called" in str(exc))
        if executed:
            fails.append(Failure(f"mixed-specs-accepted:{name}", f"execution was entered: {detail}"))
            labels.append("executed")
        elif exc is not None:
            if isinstance(exc, ValueError):
                labels.append("mix:rejected:ValueError")
                labels.append("mix:rejected:spec-message" if "spec" in str(exc).lower() else "mix:rejected:other-message")
            elif isinstance(exc, ALLOWED_REFUSALS):
                labels.append(f"mix:rejected:{type(exc).__name__}")
            else:
                fails.append(Failure(f"mixed-specs-odd-exception:{name}:{type(exc).__name__}", f"{detail}: {exc!r}"[:500]))
        else:
            # the call returned
            if not e.returns_arrays:
                fails.append(Failure(f"mixed-specs-accepted:{name}", f"returned {type(result).__name__}: {detail}"))
            else:
                outs = _flatten_arrays(result)
                na = {a.name for a, s in zip(arrs, case["assign"]) if s == 0}
                nb = {a.name for a, s in zip(arrs, case["assign"]) if s == 1}
                mixed_plan = None
                for r in outs:
                    try:
                        nodes = set(r.plan(optimize_graph=False).dag.nodes)
                    except Exception:
                        nodes = set(r._plan.dag.nodes)
                    if nodes & na and nodes & nb:
                        mixed_plan = r
                        break
                if mixed_plan is not None:
                    fails.append(Failure(f"mixed-specs-accepted:{name}", f"returned array {mixed_plan.name} whose plan contains inputs of both Specs: {detail}"))
                elif e.accept_ok or e.eager:
                    labels.append("accepted:single-parent-outputs")
                else:
                    # accepted, but no output depends on inputs of both Specs (not what the property forbids)
                    labels.append("accepted:independent-outputs")
                    labels.append(f"accepted-independent:{name}")
        if before != after and not e.eager:
            fails.append(Failure(f"mixed-call-wrote:{name}", f"stores/files changed during the mixed call: {detail}; new={[x for x in after[0] if x not in before[0]][:4]}"))
        labels.append("mixed-judged")
        labels.append(f"judged:{name}")
        return Outcome(nontrivial=True, labels=tuple(labels), failures=tuple(fails))


# =========================================================================== part 2: budget identity
BUDGET_ALLOWED = [200_000_000, "200MB", "1.5GB", "2GB", "0.5GB", 123_456_789, 2**31 + 7, "1e9", 1e9, "750000kB", "64MB", 10**12, "1TB"]
BUDGET_RESERVED = [0, 1, 1000, "1kB", "10MB", 12_345, "0.5MB", 1e6, None, "100kB"]


def budget_cases(rotate=0):
    from hypothesis import strategies as st

    @st.composite
    def cases(draw):
        prog = draw(P.programs("dag", max_ops=4, min_ops=1, opts={"rotate": rotate, "allow_zero": False}))
        return {
            "kind": "budget",
            "prog": prog,
            "allowed": draw(st.sampled_from(BUDGET_ALLOWED)),
            "reserved": draw(st.sampled_from(BUDGET_RESERVED)),
            "optimize": draw(st.booleans()),
            "how": draw(st.sampled_from(["cubed.plan", "Array.plan"])),
        }

    return cases()


def check_budget(case) -> Outcome:
    import cubed
    from zarr.storage import MemoryStore

    labels = ["budget", "optimized" if case["optimize"] else "unoptimized", case["how"]]
    exp_a = _as_exact_bytes(case["allowed"])
    exp_r = _as_exact_bytes(case["reserved"] if case["reserved"] is not None else 0)
    if exp_a is None or exp_r is None:
        raise core.HarnessError(f"budget literal without exact value: {case['allowed']!r} {case['reserved']!r}")
    with warnings.catch_warnings():
        warnings.simplefilter("ignore")
        try:
            spec = cubed.Spec(intermediate_store=MemoryStore(), allowed_mem=case["allowed"], reserved_mem=case["reserved"])
        except Exception as ex:
            return Outcome(labels=tuple(labels + [f"discard:spec:{type(ex).__name__}"]))
        fails = []
        if spec.allowed_mem != exp_a or spec.reserved_mem != exp_r:
            fails.append(Failure("budget:spec-value", f"Spec(allowed_mem={case['allowed']!r}, reserved_mem={case['reserved']!r}) has {spec.allowed_mem}/{spec.reserved_mem}, exact {exp_a}/{exp_r}"))
        try:
            arrs = P.build_cubed(case["prog"], spec)
            outs = [arrs[i] for i in case["prog"]["outputs"]]
            outs = [o for o in outs if not isinstance(o, tuple)]
            if case["how"] == "Array.plan" or len(outs) == 1:
                plans = [o.plan(optimize_graph=case["optimize"]) for o in outs]
            else:
                plans = [cubed.plan(*outs, optimize_graph=case["optimize"])]
        except Exception as ex:
            return Outcome(labels=tuple(labels + ["discard:build-or-plan-declined", f"discard:{type(ex).__name__}"]), failures=tuple(fails))
        nops = 0
        for fp in plans:
            seen = 0
            for nname, d in fp.dag.nodes(data=True):
                po = d.get("primitive_op")
                if po is None:
                    continue
                seen += 1
                if po.allowed_mem != spec.allowed_mem:
                    fails.append(Failure(f"budget:op-allowed_mem:{d.get('op_name')}", f"{nname} has allowed_mem {po.allowed_mem}, its arrays' Spec says {spec.allowed_mem}"))
                if po.reserved_mem != spec.reserved_mem:
                    fails.append(Failure(f"budget:op-reserved_mem:{d.get('op_name')}", f"{nname} has reserved_mem {po.reserved_mem}, its arrays' Spec says {spec.reserved_mem}"))
                labels.append(f"opkind:{d.get('op_name')}")
            nops += seen
            if seen:
                got = getattr(fp, "allowed_mem", getattr(fp, "_allowed_mem", None))
                if got != spec.allowed_mem:
                    fails.append(Failure("budget:plan-allowed_mem", f"FinalizedPlan.allowed_mem {got}, its arrays' Spec says {spec.allowed_mem}"))
        labels.append("has-primitive-ops" if nops else "no-primitive-ops")
    return Outcome(nontrivial=nops > 0, labels=tuple(sorted(set(labels))), failures=tuple(fails))


# =========================================================================== part 3: literals
UNITS = {"": 0, "B": 0, "kB": 1, "MB": 2, "GB": 3, "TB": 4, "PB": 5}
SI_LETTERS = {"k": 1, "m": 2, "g": 3, "t": 4, "p": 5, "e": 6}
NEAR_UNITS = ["KB", "kb", "Kb", "mb", "Mb", "gb", "tb", "pb", "KiB", "MiB", "GiB", "kiB", "b", "EB", "k", "K", "M", "G", "kBB", "BB", "Bk", "mB", "gB", "MBs", "byte", "bytes", "kBytes", "Ki", "Mi"]

_NUM = r"(?P<sign>[+-]?)(?P<ip>\d+(?:_\d+)*)?(?:(?P<dot>\.)(?P<fp>\d+(?:_\d+)*)?)?(?:[eE](?P<exp>[+-]?\d+(?:_\d+)*))?"
_LIT_RE = re.compile(_NUM + r"(?P<unit>[A-Za-z]*)")
_WORD_RE = re.compile(r"[+-]?(inf|infinity|nan)(?P<unit>[A-Za-z]*)", re.IGNORECASE)


def _unit_factors(unit):
    """Possible byte factors of a unit spelling: exact spellings have one (decimal SI); near-misses may be read as the
    decimal unit of the same letters or, for 'KiB'-style, as the binary unit. None = not a unit at all."""
    if unit in UNITS:
        return [1000 ** UNITS[unit]], True
    u = unit.lower()
    if u in ("b",):
        return [1], False
    m = re.fullmatch(r"([kmgtpe])(i?)b?", u)
    if m:
        k = SI_LETTERS[m.group(1)]
        if m.group(2):
            return [1024**k], False
        return [1000**k], False
    return None, False


def interpret(s: str):
    """-> dict(value=Fraction|None, nonfinite=bool, numstr=str|None, k=int|None, exact_unit=bool, cands=[Fraction])
    value None and not nonfinite: the string has no reading as a memory size."""
    t = "".join(ch for ch in s if not ch.isspace())
    out = {"value": None, "nonfinite": False, "numstr": None, "k": None, "exact_unit": False, "cands": [], "unit": None}
    if not t:
        return out
    mw = _WORD_RE.fullmatch(t)
    if mw:
        f, _ = _unit_factors(mw.group("unit"))
        if f is not None:
            out["nonfinite"] = True
        return out
    m = _LIT_RE.fullmatch(t)
    if not m or (m.group("ip") is None and m.group("fp") is None):
        return out
    unit = m.group("unit")
    facs, exact_unit = _unit_factors(unit)
    if facs is None:
        return out
    try:
        ip = int(m.group("ip")) if m.group("ip") else 0
        fp_s = (m.group("fp") or "").replace("_", "")
        fp = Fraction(int(fp_s), 10 ** len(fp_s)) if fp_s else Fraction(0)
        ex = int(m.group("exp")) if m.group("exp") else 0
    except ValueError:
        return out
    if abs(ex) > 5000:
        return out  # not worth exact arithmetic; such literals are only ever rejected or judged "beyond"
    v = (Fraction(ip) + fp) * (Fraction(10) ** ex)
    if m.group("sign") == "-":
        v = -v
    out["cands"] = [v * f for f in facs]
    out["value"] = out["cands"][0]
    out["exact_unit"] = exact_unit
    out["unit"] = unit
    out["numstr"] = t[: len(t) - len(unit)] if unit else t
    if exact_unit:
        out["k"] = UNITS[unit]
    return out


def _as_exact_bytes(lit):
    """Exact byte count of a well-formed literal (used by the budget part), None if it has none."""
    if isinstance(lit, bool):
        return int(lit)
    if isinstance(lit, int):
        return lit
    if isinstance(lit, float):
        return int(lit) if lit.is_integer() else None
    it = interpret(lit)
    v = it["value"]
    if v is None or v.denominator != 1 or v < 0:
        return None
    return int(v)


def sig_digits(numstr: str) -> int:
    m = re.match(r"[+-]?([\d_]*)\.?([\d_]*)", numstr)
    digs = (m.group(1) + m.group(2)).replace("_", "")
    digs = "".join(str(unicodedata.decimal(c, 0)) for c in digs)
    return len(digs.strip("0"))


def enc_lit(x):
    if isinstance(x, bool):
        return {"t": "bool", "v": x}
    if isinstance(x, int):
        return {"t": "int", "v": str(x)}
    if isinstance(x, float):
        return {"t": "float", "v": repr(x)}
    return {"t": "str", "v": x}


def dec_lit(d):
    t = d["t"]
    if t == "bool":
        return bool(d["v"])
    if t == "int":
        return int(d["v"])
    if t == "float":
        return float(d["v"])
    return d["v"]


def literal_cases():
    from hypothesis import strategies as st

    def dstr(n, lead_nonzero=False):
        # an n-digit string from one integer draw (leading zeros kept unless lead_nonzero)
        lo = 10 ** (n - 1) if lead_nonzero and n > 0 else 0
        return st.integers(lo, 10**n - 1).map(lambda v, _n=n: str(v).zfill(_n))

    @st.composite
    def number(draw, safe=True, max_ip=12):
        """A decimal number string; safe: at most 15 significant digits and at most max_ip integer digits."""
        form = draw(st.sampled_from(["int", "int", "frac", "frac", "dotonly", "trail", "exp", "expfrac", "lead0"]))
        if safe:
            nip = draw(st.sampled_from([n for n in [1, 1, 2, 3, 4, 6, 9, 12] if n <= max(1, max_ip)]))
            nfp = draw(st.integers(1, max(1, 15 - nip))) if draw(st.booleans()) else draw(st.integers(1, 3))
            nfp = min(nfp, 15 - nip) or 1
        else:
            nip = draw(st.sampled_from([1, 3, 16, 17, 18, 20, 25]))
            nfp = draw(st.sampled_from([1, 3, 15, 16, 17, 20]))
        ip = draw(dstr(nip, lead_nonzero=(form != "lead0")))
        fp = draw(dstr(nfp))
        if safe and len((ip + fp).strip("0")) > 15:
            fp = fp[: max(0, 15 - len(ip))]
        e = draw(st.sampled_from(["e", "E"]))
        if form == "int":
            s = ip
        elif form == "frac":
            s = f"{ip}.{fp}" if fp else ip
        elif form == "dotonly":
            s = f".{fp or '5'}"
        elif form == "trail":
            s = f"{ip}."
        elif form == "lead0":
            s = "00" + ip
        elif form == "exp":
            s = f"{ip}{e}{draw(st.integers(-3, max(0, min(6, max_ip - nip))) if safe else st.integers(-30, 320))}"
        else:
            s = f"{ip}.{fp or '0'}{e}{draw(st.sampled_from(['+', '', '-']))}{draw(st.integers(0, max(0, min(4, max_ip - nip))) if safe else st.integers(0, 25))}"
        return s

    @st.composite
    def grammar(draw, safe=True):
        sign = draw(st.sampled_from(["", "", "", "", "+", "-"]))
        unit = draw(st.sampled_from(["", "", "B", "kB", "kB", "MB", "MB", "GB", "GB", "TB", "PB"]))
        # safe: value below 10**15 (< 2**50), where going through a binary float cannot change a whole number
        num = draw(number(safe=safe, max_ip=15 - 3 * UNITS[unit]))
        ws = draw(st.sampled_from(["", "", "", " ", "  "]))
        lead = draw(st.sampled_from(["", "", "", "", " "]))
        trail = draw(st.sampled_from(["", "", "", "", " "]))
        return f"{lead}{sign}{num}{ws}{unit}{trail}"

    @st.composite
    def near_miss(draw):
        k = draw(st.integers(0, 13))
        num = draw(number(safe=True))
        if k == 0:
            return num + draw(st.sampled_from(NEAR_UNITS))
        if k == 1:
            return draw(st.sampled_from(["", " ", "  ", "B", "kB", " MB", "GB ", "\t", "\n", "."]))
        if k == 2:  # inner whitespace
            i = draw(st.integers(0, len(num)))
            return num[:i] + draw(st.sampled_from([" ", "\t", " ", " ", "\n"])) + num[i:] + draw(st.sampled_from(["", "kB", "MB"]))
        if k == 3:  # underscores
            i = draw(st.integers(0, len(num)))
            return num[:i] + draw(st.sampled_from(["_", "__"])) + num[i:] + draw(st.sampled_from(["", "kB", "GB"]))
        if k == 4:  # non-ASCII digits
            base = draw(st.sampled_from([0x0660, 0x06F0, 0x0966, 0xFF10, 0x1D7CE]))
            tr = "".join(chr(base + int(c)) if c.isdigit() and c.isascii() else c for c in num)
            return tr + draw(st.sampled_from(["", "kB", "MB", " GB"]))
        if k == 5:
            return draw(st.sampled_from(["0x10", "0x10kB", "0b11", "0o17", "1e", "e5", "1e+", "--1", "+-1", "1..0", "1.2.3", "1,000", "1,5kB", "1/2", "1kB1", "kB1", "1 kB B", "٣", "½", "²", "1²", "①"]))
        if k == 6:
            w = draw(st.sampled_from(["inf", "-inf", "+inf", "Infinity", "nan", "NaN", "-nan", "INF", "infinity", "iNf"]))
            return w + draw(st.sampled_from(["", "", "B", "kB", "MB", " GB"]))
        if k == 7:
            return draw(st.text(max_size=6))
        if k == 8:
            return draw(st.text(alphabet="0123456789.eE+-_ kMGTPBbi", max_size=10))
        if k == 9:  # unit casing / doubled / reversed
            u = draw(st.sampled_from(["kB", "MB", "GB", "TB", "PB"]))
            return num + draw(st.sampled_from([u.lower(), u.upper(), u[::-1], u + u, u[0], u + " B", " " + u[0] + " " + u[1]]))
        if k == 10:  # huge / tiny magnitudes
            return draw(st.sampled_from(["1e308", "1e309", "1e400", "1e-400", "1e-324kB", "9" * 400, "0." + "0" * 400 + "1PB", "1e22", "1e23", "1e15PB", "1e16PB", "123456789e300"])) + ""
        if k == 11:  # fractional bytes that must not be rounded
            return draw(st.sampled_from(["0.5", "1.5", "0.0005kB", "1.0005kB", "0.1B", "2.5B", "1e-1", "1e-4kB", "0.9999999", "1.0000001kB", "0.3333MB", "1.23456789kB", "999.9995MB"]))
        if k == 12:  # exact powers and boundaries
            return draw(st.sampled_from(["9007199254740992", "9007199254740991", "9.007199254740991PB", "9007199254740.991kB", "4503599627370496", "4503599627370.496kB", "1125899906842624", "0", "0kB", "-0", "-0kB", "+0.0MB", "0.000", "000", "1PB", "1000TB", "1e3TB"]))
        return draw(grammar(safe=True)).replace("B", draw(st.sampled_from(["b", "B ", "iB", "Bs"])))

    ints = st.one_of(
        st.integers(0, 10**6), st.integers(0, 2**40), st.integers(TWO53 - 3, TWO53 + 3), st.integers(TWO53, 2**80),
        st.integers(-(10**6), -1), st.integers(-(2**70), -1), st.sampled_from([0, 1, 2**63 - 1, 2**63, 2**64, 10**18, 10**30]),
    )
    floats = st.one_of(
        st.integers(0, 10**9).map(float), st.integers(0, 2**60).map(float), st.floats(allow_nan=True, allow_infinity=True),
        st.sampled_from([0.0, -0.0, 0.5, 1.5, 1e15, 1e16, 1e22, 1e23, 1e300, 5e-324, float("inf"), -float("inf"), float("nan"), -1.0, -0.5, 2.0**53, 2.0**53 + 2, 1e3 + 1e-10, 999.9999999999999]),
        st.floats(min_value=0, max_value=1e6),
    )

    @st.composite
    def cases(draw):
        c = draw(st.integers(0, 19))
        if c < 2:
            lit, cls = draw(ints), "int"
        elif c < 3:
            lit, cls = draw(st.booleans()), "bool"
        elif c < 5:
            lit, cls = draw(floats), "float"
        elif c < 12:
            lit, cls = draw(grammar(safe=True)), "str-grammar"
        elif c < 14:
            lit, cls = draw(grammar(safe=False)), "str-grammar-long"
        else:
            lit, cls = draw(near_miss()), "str-near-miss"
        return {"kind": "literal", "class": cls, "lit": enc_lit(lit)}

    return cases()


def _call_targets(lit):
    import cubed
    from cubed.utils import convert_to_bytes

    def run(f):
        try:
            return ("ok", f())
        except Exception as ex:  # any exception is a rejection
            return ("rejected", type(ex).__name__)

    return {
        "convert_to_bytes": run(lambda: convert_to_bytes(lit)),
        "Spec.allowed_mem": run(lambda: cubed.Spec(allowed_mem=lit).allowed_mem),
        "Spec.reserved_mem": run(lambda: cubed.Spec(reserved_mem=lit).reserved_mem),
        "Spec.allowed_mem(default=reserved)": run(lambda: cubed.Spec(reserved_mem=lit).allowed_mem),
    }


def _judge_literal(lit, r):
    """Failure bucket (or None) for an accepted literal with result r."""
    if isinstance(lit, str):
        it = interpret(lit)
        cands, nonfinite, value = it["cands"], it["nonfinite"], it["value"]
    elif isinstance(lit, float) and not math.isfinite(lit):
        it = None
        cands, nonfinite, value = [], True, None
    else:
        it = None
        value = Fraction(int(lit)) if isinstance(lit, bool) else Fraction(lit)
        cands, nonfinite = [value], False
    what = f"{lit!r} -> {r!r}" if len(repr(lit)) <= 80 else f"{lit[:30]!r}...({len(lit)} chars) -> {r!r}"
    if isinstance(r, bool) and not isinstance(lit, bool):
        return Failure("literal:non-int-result", f"{what} (bool)")
    if not isinstance(r, int):
        return Failure("literal:non-int-result", f"{what} ({type(r).__name__})")
    if nonfinite:
        return Failure("literal:nonfinite-accepted", what)
    if value is None:
        return Failure("literal:malformed-accepted", f"{what}: the string has no reading as a memory size")
    for v in cands:
        if v == r and v >= 0:
            return None
    for v in cands:
        if v == r and v < 0:
            return Failure("literal:negative-accepted", what)
    if r < 0:
        return Failure("literal:negative-result", f"{what}, exact {_fr(value)}")
    # inexact
    if isinstance(lit, str) and it["k"] is not None and it["numstr"]:
        try:
            via = float(it["numstr"]) * (1000 ** it["k"])
            if math.isfinite(via) and via == r:
                return Failure("literal:inexact-via-float", f"{what}, exact {_fr(value)} (explained by float(<number>) * 1000**{it['k']})")
        except (ValueError, OverflowError):
            pass
    if isinstance(lit, str) and it["k"] is not None:
        base = value / (1000 ** it["k"])
        for j in range(0, 7):
            if base * 1024**j == r and j == it["k"] and j > 0:
                return Failure("literal:wrong-unit-factor", f"{what}, exact {_fr(value)} (result is the 1024-based reading)")
        for j in range(0, 7):
            if j != it["k"] and base * 1000**j == r:
                return Failure("literal:wrong-unit-factor", f"{what}, exact {_fr(value)} (result is value x 1000^{j})")
        try:
            if float(it["numstr"]) * (1024 ** it["k"]) == r and it["k"] > 0:
                return Failure("literal:wrong-unit-factor", f"{what}, exact {_fr(value)} (result is the 1024-based reading through float)")
        except (ValueError, OverflowError):
            pass
    if value.denominator != 1 and r in (math.floor(value), math.ceil(value)):
        return Failure("literal:fraction-truncated", f"{what}, exact {_fr(value)} is not a whole number of bytes")
    return Failure("literal:inexact", f"{what}, exact {_fr(value)}")


def _fr(v: Fraction):
    def short(n):
        t = str(n)
        return t if len(t) <= 40 else f"{t[:12]}...({len(t)} digits)"

    if v.denominator == 1:
        return short(v.numerator)
    return f"{short(v.numerator)}/{short(v.denominator)}"


def check_literal(case) -> Outcome:
    lit = dec_lit(case["lit"])
    cls = case.get("class") or case["lit"]["t"]
    labels = [f"lit:{cls}"]
    with warnings.catch_warnings():
        warnings.simplefilter("ignore")
        res = _call_targets(lit)
    fails = []
    it = interpret(lit) if isinstance(lit, str) else None
    falsy = not lit if not isinstance(lit, float) or not math.isnan(lit) else False
    for tgt, (status, r) in res.items():
        if status == "rejected":
            continue
        if tgt.startswith("Spec.") and "reserved" in tgt and falsy:
            # `reserved_mem or 0`: a falsy value means "not set"
            if not (isinstance(r, int) and r == 0):
                fails.append(Failure("literal:unset-reserved-not-zero", f"Spec(reserved_mem={lit!r}) -> {r!r}"))
            continue
        f = _judge_literal(lit, r)
        if f is not None and all(f.bucket != g.bucket for g in fails):
            fails.append(Failure(f.bucket, f"{tgt}: {f.detail}"))
    # the three ways in agree
    st_c = res["convert_to_bytes"]
    for tgt in ("Spec.allowed_mem",) + (() if falsy else ("Spec.reserved_mem", "Spec.allowed_mem(default=reserved)")):
        a = res[tgt]
        if a[0] != st_c[0] or (a[0] == "ok" and (a[1] != st_c[1] or type(a[1]) is not type(st_c[1]))):
            fails.append(Failure("literal:targets-disagree", f"{lit!r}: convert_to_bytes {st_c} but {tgt} {a}"))
            break
    accepted = st_c[0] == "ok"
    labels.append("lit:accepted" if accepted else f"lit:rejected:{st_c[1]}")
    nt = False
    if isinstance(lit, str):
        if it["value"] is not None:
            v = it["value"]
            labels.append("readable")
            sd = sig_digits(it["numstr"]) if it["numstr"] else 0
            if it["exact_unit"]:
                labels.append("unit:" + (it["unit"] or "none"))
            else:
                labels.append("unit:near-miss")
            beyond = sd > 15 or abs(v) >= 2**50 or (v != 0 and abs(v) < Fraction(1, 10**300))
            labels.append("beyond-double(>15 digits, >=2**50 or <1e-300)" if beyond else "double-safe")
            whole = v.denominator == 1 and v >= 0
            labels.append("whole-nonneg" if whole else ("negative" if v < 0 else "fractional-bytes"))
            if whole and not accepted and it["exact_unit"]:
                labels.append("whole-but-rejected")
            if whole and accepted:
                labels.append("whole-accepted")
            nt = bool(it["k"]) or "." in lit or "e" in lit.lower()
        elif it["nonfinite"]:
            labels.append("nonfinite-word")
        else:
            labels.append("unreadable")
            nt = False
    elif isinstance(lit, float):
        nt = True
        labels.append("float:nonfinite" if not math.isfinite(lit) else ("float:integral" if lit.is_integer() else "float:fractional"))
    elif isinstance(lit, bool):
        labels.append("bool")
    else:
        nt = abs(lit) >= TWO53
        labels.append("int:negative" if lit < 0 else ("int:>=2**53" if lit >= TWO53 else "int:small"))
    return Outcome(nontrivial=nt, labels=tuple(labels), failures=tuple(fails))


# =========================================================================== dispatch / shards
def check_case(case) -> Outcome:
    k = case.get("kind")
    if k == "mix":
        return check_mix(case)
    if k == "budget":
        return check_budget(case)
    if k == "literal":
        return check_literal(case)
    raise core.HarnessError(f"unknown kind {k}")


def shards(tier):
    if tier == "quick":
        nm = 5
        out = [{"kind": "mix", "name": f"mix{i}", "part": i, "of": nm, "n": 320} for i in range(nm)]
        out += [{"kind": "budget", "name": "budget0", "n": 120, "rotate": 5}]
        out += [{"kind": "literal", "name": f"literal{i}", "n": 2000} for i in range(2)]
        return out
    nm = 10
    out = [{"kind": "mix", "name": f"mix{i}", "part": i, "of": nm, "n": 15000} for i in range(nm)]
    out += [{"kind": "budget", "name": f"budget{i}", "n": 10000, "rotate": 5 + 17 * i} for i in range(3)]
    out += [{"kind": "literal", "name": f"literal{i}", "n": 80000} for i in range(3)]
    return out


def run_shard(spec, seed, tier) -> Acc:
    acc = Acc()
    if spec["kind"] == "__corpus__":
        try:
            return core.corpus_shard(sys.modules[__name__], acc)
        finally:
            _cleanup_root()
    is_known, _ = core.known_matcher(ID)
    budget = 240 if tier == "quick" else 840
    import time

    t0 = time.monotonic()
    try:
        if spec["kind"] == "mix":
            names = list(entries())
            mine = names[spec["part"]::spec["of"]]
            acc.extra["entry_points_total"] = len(names) if spec["part"] == 0 else 0
            per = max(4, spec["n"] // max(1, len(mine)))
            # one seeded Hypothesis run per entry point: every entry point gets the same number of cases
            for nme in mine:
                left = budget - (time.monotonic() - t0)
                if left <= 0:
                    acc.truncated = True
                    break
                sub = Acc()
                core.hyp_run(mix_cases([nme]), check_case, seed=core.derive_seed(seed, nme), max_examples=per, acc=sub,
                             budget_s=left, shrink=(tier == "thorough"), is_known=is_known)
                acc.merge(sub)
        else:
            if spec["kind"] == "budget":
                strat = budget_cases(spec.get("rotate", 0))
            elif spec["kind"] == "literal":
                strat = literal_cases()
            else:
                raise core.HarnessError(f"unknown shard kind {spec['kind']}")
            core.hyp_run(strat, check_case, seed=seed, max_examples=spec["n"], acc=acc, budget_s=budget,
                         shrink=(tier == "thorough"), is_known=is_known)
    finally:
        _cleanup_root()
    if spec["kind"] == "mix":
        # per-entry-point coverage goes to the evidence as dictionaries (keeps the class histogram readable)
        cases_, judged, disc = {}, {}, {}
        for lab in list(acc.labels):
            if lab.startswith("entry:"):
                cases_[lab[6:]] = acc.labels.pop(lab)
            elif lab.startswith("judged:"):
                judged[lab[7:]] = acc.labels.pop(lab)
            elif lab.startswith("discard:") and lab.count(":") >= 2:
                disc[lab[8:]] = acc.labels.pop(lab)
        for nme in mine:
            judged.setdefault(nme, 0)
        acc.extra["entry_point_cases"] = cases_
        acc.extra["entry_point_judged"] = judged
        acc.extra["entry_point_discards"] = disc
    return acc


def replay(case):
    try:
        return check_case(case).all_failures()
    finally:
        _cleanup_root()
