"""C14 — rechunk plans are well-formed, aligned and memory-bounded for every geometry.

Three levels, all generated:
  planner  pure planner functions (rechunker's irregular planner and cubed's regular one)
  real     x.rechunk(...) on a real array: copy ops of the built plan (no execution needed) are
           checked for chain / memory / alignment against the storage grid actually declared,
           then executed (small arrays): values preserved, chunks as requested, storage grids as declared
  cube     exhaustive enumeration of the small-geometry cube (thorough tier)
"""
from __future__ import annotations

import itertools
import math
import warnings

import vp  # noqa
from vp import core
from vp.core import Acc, Failure, Outcome
from vp.grid import aligned, axis_boundaries, divisors, prod

ID = "C14"
LEVEL = "exploration"
RULE = (
    "Hypothesis draws (shape 1-3 dims with sides from small ints/primes/powers of two/up to 1e6, source and target "
    "chunks in [1,side] biased to 1, side, divisors and co-prime pairs, itemsize in {1,2,4,8,16}, max_mem from just below "
    "the larger chunk to 1000x, min_mem in [0,max_mem+1], allow_irregular) for the two planner functions, and the same "
    "geometry on real arrays through Array.rechunk/rechunk_plan (plan invariants on the built copy ops, the stages reported by the public "
    "rechunk_plan() equal the built ones, then executed). "
    "Oracle: explicit rejection (ValueError/NotImplementedError) or I1 chain (first stage reads a consolidation of the "
    "source chunks, each stage reads what the previous wrote, last stage writes a consolidation of the target), "
    "I2 every read/intermediate/write chunk * itemsize <= max_mem, I3 copy grid boundaries are a subset of the "
    "boundaries of the grid written (no storage chunk shared by two tasks), I4 terminates without AssertionError or "
    "other exception and chunk sizes in [1,side], I5 executed: values preserved, .chunks == requested, zarr grids as "
    "declared. A case is non-trivial when a plan was returned and source != target chunking in at least one axis; "
    "distinct = distinct canonical JSON of the case."
)
ASSUMPTIONS = [
    "planner budget is max_mem as passed (through rechunk: (allowed_mem - reserved_mem) // total_copies); the "
    "operation-level projected_mem <= allowed_mem is C04's business and a compute-time memory refusal counts as an explicit rejection",
    "sides bounded by 1e6 (planner level) and 40 (executed level)",
]

SMALL = [1, 2, 3, 4, 5, 6, 7, 8, 9, 10, 11, 12]
PRIMES = [13, 17, 19, 23, 29, 31, 37, 41, 97, 101, 127, 251, 997, 1009, 7919]
POW2 = [16, 32, 64, 128, 256, 512, 1024, 4096, 65536]
BIG = [100, 360, 720, 1000, 1440, 5000, 10000, 43800, 100000, 1000000]
ITEMSIZES = [1, 2, 4, 8, 16]


# --------------------------------------------------------------------------- strategies
def _side_st(st):
    return st.one_of(
        st.sampled_from(SMALL),
        st.sampled_from(SMALL),
        st.sampled_from(PRIMES),
        st.sampled_from(POW2),
        st.sampled_from(BIG),
        st.integers(1, 2000),
    )


def _chunk_st(st, side):
    ds = divisors(side) if side <= 100000 else [1, side]
    return st.one_of(
        st.sampled_from([1, side]),
        st.sampled_from(ds),
        st.integers(1, side),
        st.integers(1, max(1, min(side, 12))),
    )



def _geometry(draw, st, side_st, nd_cap=None, max_elems=None, boost=None):
    """shape, source chunks, target chunks. Patterns make the interesting classes frequent by construction:
    free (independent draws), transpose (long-thin chunks turned, forces multi-stage plans under tight budgets),
    coprime (chunk sizes sharing no factor, forces irregular intermediates), same-but-one (one axis differs)."""
    pattern = draw(st.sampled_from(["free", "free", "transpose", "transpose", "coprime", "same-but-one", "staircase"] + ([boost] * 8 if boost else [])))
    if pattern == "staircase" and (max_elems is None or max_elems >= 20000):
        # a long axis whose source chunk is an odd multiple k*w of a small target chunk w, turned against a short axis:
        # multi-stage plans pass through intermediate chunk lengths that divide neither k*w nor each other's neighbours
        w = draw(st.sampled_from([2, 3, 5, 7]))
        k = draw(st.sampled_from([5, 7, 9, 11, 13]))
        c = draw(st.sampled_from([1, 2, 4]))
        n0 = draw(st.integers(k * w + 1, min(4 * k * w, 260)))
        n1 = draw(st.sampled_from([60, 100, 128, 200, 400]))
        if max_elems is not None:
            while n0 * n1 > 4 * max_elems:
                n1 //= 2
        shape, src, tgt = [n0, n1], [k * w, c], [w, n1]
        if draw(st.booleans()):
            shape, src, tgt = shape[::-1], src[::-1], tgt[::-1]
        return shape, src, tgt
    if pattern == "staircase":
        pattern = "transpose"
    nd = draw(st.integers(2 if pattern == "transpose" else 1, 3))
    if nd_cap is None:
        shape = [draw(side_st) for _ in range(nd)]
    else:
        cap = nd_cap[nd]
        shape = [draw(st.one_of(st.integers(1, min(cap, 12)), st.integers(2, cap))) for _ in range(nd)]
        while prod(shape) > max_elems:
            i = shape.index(max(shape))
            shape[i] = max(1, shape[i] // 2)
    if pattern == "transpose":
        a, b = draw(st.permutations(range(nd)))[:2]
        src = [draw(st.sampled_from([1, 1, 2, 3])) if i != a else shape[i] for i in range(nd)]
        tgt = [draw(st.sampled_from([1, 1, 2, 3])) if i != b else shape[i] for i in range(nd)]
        src = [min(c, s) for c, s in zip(src, shape)]
        tgt = [min(c, s) for c, s in zip(tgt, shape)]
    elif pattern == "coprime":
        pairs = [(2, 3), (3, 2), (3, 5), (5, 3), (4, 7), (7, 4), (5, 7), (2, 5), (5, 2), (3, 4), (4, 3), (6, 7), (7, 9)]
        src, tgt = [], []
        for s_ in shape:
            p, q = draw(st.sampled_from(pairs))
            src.append(max(1, min(p, s_)))
            tgt.append(max(1, min(q, s_)))
    elif pattern == "same-but-one":
        src = [draw(_chunk_st(st, s_)) for s_ in shape]
        tgt = list(src)
        i = draw(st.integers(0, nd - 1))
        tgt[i] = draw(_chunk_st(st, shape[i]))
    else:
        src = [draw(_chunk_st(st, s_)) for s_ in shape]
        tgt = [draw(_chunk_st(st, s_)) for s_ in shape]
    return shape, src, tgt


def planner_cases():
    from hypothesis import strategies as st

    @st.composite
    def cases(draw):
        shape, src, tgt = _geometry(draw, st, _side_st(st))
        itemsize = draw(st.sampled_from(ITEMSIZES))
        base = itemsize * max(prod(src), prod(tgt))
        mult = draw(st.sampled_from(["-1", "0", "+1", "x1.5", "x2", "x3", "x10", "x100", "x1000", "rand"]))
        if mult == "-1":
            max_mem = base - 1
        elif mult == "0":
            max_mem = base
        elif mult == "+1":
            max_mem = base + 1
        elif mult == "rand":
            max_mem = draw(st.integers(base, base * 50))
        else:
            max_mem = int(base * float(mult[1:]))
        mm = draw(st.sampled_from(["0", "1", "/20", "/2", "=", "+1", "rand", "src"]))
        if mm == "0":
            min_mem = 0
        elif mm == "1":
            min_mem = 1
        elif mm == "/20":
            min_mem = max_mem // 20
        elif mm == "/2":
            min_mem = max_mem // 2
        elif mm == "=":
            min_mem = max_mem
        elif mm == "+1":
            min_mem = max_mem + 1
        elif mm == "src":
            min_mem = itemsize * min(prod(src), prod(tgt))
        else:
            min_mem = draw(st.integers(0, max(max_mem, 1)))
        fn = draw(st.sampled_from(["irregular", "regular"]))
        return {
            "kind": "planner",
            "fn": fn,
            "shape": shape,
            "src": src,
            "tgt": tgt,
            "itemsize": itemsize,
            "min_mem": int(min_mem),
            "max_mem": int(max_mem),
        }

    return cases()


DTYPES_BY_ITEMSIZE = {1: "int8", 2: "int16", 4: "float32", 8: "float64", 16: "complex128"}


def real_cases(max_side=40, max_elems=3000, boost=None):
    from hypothesis import strategies as st

    @st.composite
    def cases(draw):
        nd_cap = {1: max_side, 2: max_side, 3: 12}
        shape, src, tgt = _geometry(draw, st, None, nd_cap=nd_cap, max_elems=max_elems, boost=boost)
        itemsize = draw(st.sampled_from(ITEMSIZES))
        base = itemsize * max(prod(src), prod(tgt))
        factor = draw(st.sampled_from([1, 2, 2, 3, 3, 4, 8, 50]))
        slack = draw(st.sampled_from([0, 0, 1, 7, 8, 9, 64]))
        compressor = draw(st.sampled_from(["none", "none", "default"]))
        allow_irregular = draw(st.booleans()) if not boost else draw(st.sampled_from([False, False, True]))
        min_mem = draw(st.sampled_from([None, None, 0, 1, "x", "big", "big"] if not boost else [None, "big", "big", "big"]))
        if min_mem == "x":
            min_mem = draw(st.integers(0, base * factor))
        elif min_mem == "big":
            # a minimum intermediate size close to the budget forces multi-stage plans
            min_mem = (base * factor) // draw(st.sampled_from([2, 3, 4, 8]))
        return {
            "kind": "real",
            "shape": shape,
            "src": src,
            "tgt": tgt,
            "itemsize": itemsize,
            "factor": factor,
            "slack": slack,
            "compressor": compressor,
            "allow_irregular": allow_irregular,
            "min_mem": min_mem,
            "tgt_form": draw(st.sampled_from(["tuple", "dict", "int-if-equal", "none-some"])),
            # the planner budget must come out of what is left after reserved_mem
            "reserved": draw(st.sampled_from([0, 0, 1000, 50_000, 2_000_000])),
        }

    return cases()


# --------------------------------------------------------------------------- oracles
def _plan_fn(name):
    from cubed.core.rechunk import multistage_regular_rechunking_plan
    from cubed.vendor.rechunker.algorithm import multistage_rechunking_plan

    return multistage_rechunking_plan if name == "irregular" else multistage_regular_rechunking_plan


def check_planner(case) -> Outcome:
    fn = case["fn"]
    shape, src, tgt = tuple(case["shape"]), tuple(case["src"]), tuple(case["tgt"])
    itemsize, min_mem, max_mem = case["itemsize"], case["min_mem"], case["max_mem"]
    labels = [f"planner:{fn}", f"nd{len(shape)}"]
    fails = []
    try:
        with warnings.catch_warnings():
            warnings.simplefilter("ignore")
            stages = _plan_fn(fn)(
                shape=shape,
                source_chunks=src,
                target_chunks=tgt,
                itemsize=itemsize,
                min_mem=min_mem,
                max_mem=max_mem,
            )
            stages = list(stages)
    except (ValueError, NotImplementedError):
        labels.append("rejected")
        # rejection must be justified: budgets that fit both chunks and min<=max are plannable
        fits = itemsize * prod(src) <= max_mem and itemsize * prod(tgt) <= max_mem and min_mem <= max_mem
        if fits:
            labels.append("rejected-though-fitting")
        return Outcome(nontrivial=False, labels=tuple(labels))
    except AssertionError as e:
        return Outcome(labels=tuple(labels), failure=Failure(f"planner:{fn}:AssertionError", f"{case} -> {str(e)[:200]}"))
    except Exception as e:
        return Outcome(labels=tuple(labels), failure=Failure(f"planner:{fn}:exception:{type(e).__name__}", f"{case} -> {e!r}"[:400]))

    def bad(code, msg):
        fails.append(Failure(f"planner:{fn}:{code}", f"{msg}; case={case} stages={stages}"[:600]))

    if not stages:
        bad("I4-empty", "no stages returned")
        return Outcome(labels=tuple(labels), failures=tuple(fails))
    if len(stages) > 100:
        bad("I4-too-many-stages", f"{len(stages)} stages")
    nd = len(shape)
    for k, st_ in enumerate(stages):
        if len(st_) != 3 or any(len(c) != nd for c in st_):
            bad("I4-malformed", f"stage {k} malformed")
            return Outcome(labels=tuple(labels), failures=tuple(fails))
        read, inter, write = st_
        for nm, c in (("read", read), ("int", inter), ("write", write)):
            if any((not isinstance(v, (int,)) and not hasattr(v, "__index__")) for v in c):
                bad("I4-nonint", f"stage {k} {nm} chunks not integers")
                continue
            if any(int(v) < 1 or int(v) > n for v, n in zip(c, shape)):
                bad("I4-range", f"stage {k} {nm} chunk outside [1, side]: {c}")
            if itemsize * prod(c) > max_mem:
                bad(f"I2-mem-{nm}", f"stage {k} {nm} chunk {c} needs {itemsize * prod(c)} > max_mem {max_mem}")
        if tuple(int(v) for v in inter) != tuple(min(int(a), int(b)) for a, b in zip(read, write)):
            # the intermediate grid must fit into both the read and the write chunks
            if any(int(i) > min(int(a), int(b)) for i, a, b in zip(inter, read, write)):
                bad("I1-int-not-shared", f"stage {k} intermediate {inter} larger than read/write")
    # chain
    first_read = stages[0][0]
    for ax, (r, s, n) in enumerate(zip(first_read, src, shape)):
        r = int(r)
        if not (r == s or r == n or (r % s == 0)) and fn == "regular":
            # the regular planner may round the read chunk down to a multiple of the next stage; it must still be
            # a union of whole source chunks or the whole axis only if that is what alignment needs (not required by the
            # property) -> not judged
            pass
        if r < 1:
            bad("I1-first-read", f"first read chunk {first_read} invalid")
    for k in range(len(stages) - 1):
        if tuple(map(int, stages[k][2])) != tuple(map(int, stages[k + 1][0])):
            bad("I1-chain", f"stage {k} writes {stages[k][2]} but stage {k+1} reads {stages[k+1][0]}")
    last_write = stages[-1][2]
    for ax, (w, t, n) in enumerate(zip(last_write, tgt, shape)):
        w = int(w)
        if not (w == n or w % t == 0):
            bad("I1-last-write", f"last write chunk {last_write} is not a multiple of target {tgt} (axis {ax})")
    # first read must start from the source: consolidated reads are multiples of source chunks or the whole axis, or
    # (regular planner) rounded to a multiple of the next stage.  What the property requires is that the *copy ops*
    # derived from the plan line up with what they write: emulate _rechunk_plan's translation.
    copies = copies_from_stages(stages, tgt)
    if fn == "regular":
        for (cc, tc) in copies:
            for ax, (c, t, n) in enumerate(zip(cc, tc, shape)):
                c, t = int(c), int(t)
                if not (c >= n or c % t == 0):
                    bad("I3-regular-misaligned", f"copy chunks {cc} do not line up with written chunks {tc} (axis {ax})")
                    break
    # end of chain = requested target chunking
    if tuple(map(int, copies[-1][1])) != tuple(tgt):
        bad("I1-final-target", f"last copy writes {copies[-1][1]} not requested {tgt}")
    nontrivial = any(a != b for a, b in zip(src, tgt))
    if len(stages) > 1:
        labels.append("multi-stage")
    if len(stages) > 2:
        labels.append("3+stages")
    if itemsize * max(prod(src), prod(tgt)) >= max_mem - 1:
        labels.append("budget-at-boundary")
    if any(math.gcd(a, b) == 1 and a > 1 and b > 1 for a, b in zip(src, tgt)):
        labels.append("coprime-axis")
    return Outcome(nontrivial=nontrivial, labels=tuple(labels), failures=tuple(fails))


def copies_from_stages(stages, target_chunks):
    """Independent re-statement of how stages become copy operations (read -> int [, write -> target])."""
    out = []
    for i, (read, inter, write) in enumerate(stages):
        last = i == len(stages) - 1
        tgt_ = tuple(target_chunks) if last else tuple(write)
        if tuple(read) == tuple(write):
            out.append((tuple(read), tgt_))
        else:
            out.append((tuple(read), tuple(inter)))
            if last:
                out.append((tuple(write), tgt_))
    return out


def _mk_spec(case):
    import cubed
    from zarr.storage import MemoryStore

    from cubed.primitive.memory import get_buffer_copies

    comp = None if case["compressor"] == "none" else "auto"
    itemsize = case["itemsize"]
    base = itemsize * max(prod(case["src"]), prod(case["tgt"]))
    probe = cubed.Spec(intermediate_store=MemoryStore(), allowed_mem=10**9, reserved_mem=0, zarr_compressor=comp) if comp is None else cubed.Spec(
        intermediate_store=MemoryStore(), allowed_mem=10**9, reserved_mem=0
    )
    bc = get_buffer_copies(probe)
    total_copies = 1 + bc.read + 1 + 1 + bc.write
    data_budget = total_copies * base * case["factor"] + case["slack"]
    reserved = int(case.get("reserved", 0))
    kw = dict(intermediate_store=MemoryStore(), allowed_mem=data_budget + reserved, reserved_mem=reserved)
    if comp is None:
        kw["zarr_compressor"] = None
    return cubed.Spec(**kw), data_budget // total_copies


def check_real(case, execute=True) -> Outcome:
    import numpy as np
    import networkx as nx

    import cubed
    import cubed.array_api as xp
    from cubed.utils import normalize_chunks

    shape, src, tgt = tuple(case["shape"]), tuple(case["src"]), tuple(case["tgt"])
    dtype = DTYPES_BY_ITEMSIZE[case["itemsize"]]
    labels = ["real", f"nd{len(shape)}", "irregular-allowed" if case["allow_irregular"] else "regular-only"]
    fails = []

    def bad(code, msg):
        fails.append(Failure(f"real:{code}", f"{msg}; case={case}"[:700]))

    spec, budget = _mk_spec(case)
    n = prod(shape)
    data = ((np.arange(n) * 7 + 3) % 251).reshape(shape).astype(dtype)
    x = xp.asarray(data, chunks=src, spec=spec)
    form = case.get("tgt_form", "tuple")
    req = tuple(tgt)
    if form == "dict":
        req = {i: t for i, t in enumerate(tgt)}
    elif form == "none-some":
        req = tuple(None if t == s else t for t, s in zip(tgt, src))
    elif form == "int-if-equal" and len(set(tgt)) == 1:
        req = tgt[0]
    kw = {}
    if case["min_mem"] is not None:
        kw["min_mem"] = case["min_mem"]
    try:
        with warnings.catch_warnings():
            warnings.simplefilter("ignore")
            y = x.rechunk(req, allow_irregular=case["allow_irregular"], **kw)
    except (ValueError, NotImplementedError) as e:
        labels.append("rejected-at-build")
        return Outcome(labels=tuple(labels))
    except AssertionError as e:
        return Outcome(labels=tuple(labels), failure=Failure("real:build:AssertionError", f"{case}: {str(e)[:200]}"))
    except Exception as e:
        return Outcome(labels=tuple(labels), failure=Failure(f"real:build:{type(e).__name__}", f"{case}: {e!r}"[:400]))

    want = normalize_chunks(tuple(tgt), shape, dtype=np.dtype(dtype))
    if tuple(y.chunks) != tuple(want):
        bad("I5-chunks", f"declared chunks {y.chunks} != requested {want}")
    if tuple(y.shape) != shape or np.dtype(y.dtype) != np.dtype(dtype):
        bad("I5-meta", f"declared shape/dtype {y.shape}/{y.dtype}")

    # plan-level invariants on the real copy ops
    dag = y.plan(optimize_graph=False).dag
    ops = []
    for name in nx.topological_sort(dag):
        d = dag.nodes[name]
        if d.get("type") == "op" and d.get("op_name") == "rechunk" and "primitive_op" in d:
            ops.append((name, d["primitive_op"]))
    prev_target = x.name
    for name, po in ops:
        wc = tuple(int(c) for c in po.write_chunks)
        ta = po.target_array
        storage_chunks = getattr(ta, "chunks", None)
        if case["itemsize"] * prod(wc) > budget:
            bad("I2-copy-mem", f"{name}: copy chunk {wc} needs {case['itemsize'] * prod(wc)} > planner budget {budget}")
        sc = tuple(storage_chunks)
        if any(isinstance(c, (tuple, list)) for c in sc):
            labels.append("irregular-intermediate")
            for n_, c in zip(shape, sc):
                if isinstance(c, (tuple, list)) and sum(c) != n_:
                    bad("I3-grid-sum", f"{name}: storage grid {sc} does not cover shape {shape}")
        if not aligned(shape, wc, sc):
            bad("I3-misaligned", f"{name}: copy grid {wc} not aligned with storage grid {sc}")
        srcs = [s for s in po.source_array_names]
        preds = [p for p in dag.predecessors(name) if dag.nodes[p].get("type") == "array" and "target" in dag.nodes[p]]
        if prev_target not in preds:
            bad("I1-chain", f"{name}: reads {preds}, expected {prev_target}")
        succ = [s for s in dag.successors(name)]
        prev_target = succ[0] if succ else None
    if ops:
        if prev_target != y.name:
            bad("I1-chain-end", f"last copy writes {prev_target}, array is {y.name}")
        labels.append(f"copies={min(len(ops), 4)}")
    else:
        labels.append("no-op")

    # the plan reported by the public rechunk_plan(x, chunks, ...) is the plan that is built and executed
    try:
        from cubed.core.rechunk import rechunk_plan as public_rechunk_plan

        with warnings.catch_warnings():
            warnings.simplefilter("ignore")
            rp = public_rechunk_plan(x, req, allow_irregular=case["allow_irregular"], **kw)

        def _norm(c):
            return tuple(tuple(int(v) for v in d) for d in normalize_chunks(tuple(c), shape, dtype=np.dtype(dtype)))

        reported = [(_norm(co.copy_chunks), _norm(co.target_chunks)) for co in rp.copy_ops]
        built = [(_norm(tuple(int(c) for c in po.write_chunks)), _norm(tuple(po.target_array.chunks))) for _, po in ops]
        labels.append("reported-plan-compared")
        if case["allow_irregular"]:
            # with irregular intermediates the built storage grid is the intersection grid, the report names the planner's regular
            # target chunks: only the number of stages and the copy chunks are comparable
            reported = [cc for cc, _ in reported]
            built = [cc for cc, _ in built]
        if reported != built:
            bad("reported-plan-differs-from-built", f"rechunk_plan reports {reported}, Array.rechunk built {built}")
    except (ValueError, NotImplementedError):
        labels.append("reported-plan-rejected")
    except Exception as e:
        bad(f"reported-plan:{type(e).__name__}", f"{e!r}"[:200])

    if execute and not fails:
        try:
            with warnings.catch_warnings():
                warnings.simplefilter("ignore")
                from cubed.runtime.create import create_executor

                got = y.compute(executor=create_executor("single-threaded"), optimize_graph=case.get("optimize", True))
        except ValueError as e:
            if "projected" in str(e).lower() or "memory" in str(e).lower():
                labels.append("refused-at-compute(memory)")
                return Outcome(nontrivial=False, labels=tuple(labels), failures=tuple(fails))
            return Outcome(labels=tuple(labels), failure=Failure("real:compute:ValueError", f"{case}: {str(e)[:300]}"))
        except Exception as e:
            return Outcome(labels=tuple(labels), failure=Failure(f"real:compute:{type(e).__name__}", f"{case}: {e!r}"[:400]))
        got = np.asarray(got)
        if got.shape != data.shape or not np.array_equal(got, data):
            bad("I5-values", f"values changed by rechunk (first diff at {np.argwhere(got != data)[:1].tolist() if got.shape == data.shape else 'shape'})")
        # storage grid of the final array as declared
        try:
            from cubed.storage.zarr import open_if_lazy_zarr_array

            z = open_if_lazy_zarr_array(y._zarray) if hasattr(y, "_zarray") else None
            if z is not None and hasattr(z, "chunks"):
                zc = tuple(z.chunks)
                exp = tuple(c[0] if c else 0 for c in want)
                if all(isinstance(c, int) for c in zc) and tuple(min(a, b) for a, b in zip(zc, shape)) != tuple(min(a, b) for a, b in zip(exp, shape)):
                    bad("I5-storage-chunks", f"zarr chunks {zc} != declared {exp}")
        except Exception:
            pass
        labels.append("executed")
    nontrivial = bool(ops) and any(a != b for a, b in zip(src, tgt))
    return Outcome(nontrivial=nontrivial, labels=tuple(labels), failures=tuple(fails))


def check_case(case) -> Outcome:
    if case["kind"] == "planner":
        return check_planner(case)
    if case["kind"] == "real":
        return check_real(case)
    raise core.HarnessError(f"unknown kind {case.get('kind')}")


# --------------------------------------------------------------------------- shards
def shards(tier):
    if tier == "quick":
        out = [{"kind": "planner", "name": f"planner{i}", "n": 4000} for i in range(5)]
        out += [{"kind": "real", "name": f"real{i}", "n": 220} for i in range(3)]
        return out
    out = [{"kind": "planner", "name": f"planner{i}", "n": 150000} for i in range(10)]
    out += [{"kind": "real", "name": f"real{i}", "n": 2500} for i in range(8)]
    # exhaustive cube: sides <= 8, 1-2 dims
    cube = list(cube_slices())
    out += [{"kind": "cube", "name": f"cube{i}", "slice": s} for i, s in enumerate(cube)]
    return out


def cube_slices():
    # slice the 2-D cube by the first side; the 1-D cube is one slice
    yield {"nd": 1}
    for s0 in range(1, 9):
        yield {"nd": 2, "s0": s0}


def cube_cases(sl):
    if sl["nd"] == 1:
        shapes = [(s,) for s in range(1, 9)]
    else:
        shapes = [(sl["s0"], s1) for s1 in range(1, 9)]
    for shape in shapes:
        ranges = [range(1, s + 1) for s in shape]
        for src in itertools.product(*ranges):
            for tgt in itertools.product(*ranges):
                base = max(prod(src), prod(tgt))
                for itemsize in (1, 8):
                    for max_mem in (itemsize * base, itemsize * base * 2 + 1, itemsize * base * 16):
                        for min_mem in (0, max_mem // 20, max_mem // 2):
                            for fn in ("irregular", "regular"):
                                yield {
                                    "kind": "planner",
                                    "fn": fn,
                                    "shape": list(shape),
                                    "src": list(src),
                                    "tgt": list(tgt),
                                    "itemsize": itemsize,
                                    "min_mem": min_mem,
                                    "max_mem": max_mem,
                                }


def run_shard(spec, seed, tier) -> Acc:
    acc = Acc()
    is_known, _ = core.known_matcher(ID)
    if spec["kind"] == "__corpus__":
        import sys

        return core.corpus_shard(sys.modules[__name__], acc)
    if spec["kind"] == "cube":
        n = 0
        for case in cube_cases(spec["slice"]):
            out = check_planner(case)
            acc.evaluations += 1
            if out.nontrivial:
                acc.nt.add(core.case_hash(case))
                if len(acc.samples) < 1:
                    acc.samples.append(case)
            for lab in out.labels:
                acc.labels[lab] += 1
            for f in out.all_failures():
                acc.add_failure(case, f)
            n += 1
        acc.bump("cube_cases_enumerated", n)
        acc.extra["cube_domain"] = "sides 1..8, 1-2 dims, all source x target chunk pairs, itemsize {1,8}, 3 max_mem x 3 min_mem, both planners (enumerated completely)"
        return acc
    strat = planner_cases() if spec["kind"] == "planner" else real_cases()
    core.hyp_run(
        strat,
        check_case,
        seed=seed,
        max_examples=spec["n"],
        acc=acc,
        budget_s=600 if tier == "quick" else 3000,
        shrink=(tier == "thorough"),
        is_known=is_known,
    )
    return acc


def replay(case):
    out = check_case(case)
    return out.all_failures()
