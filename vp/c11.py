"""C11 — store/to_zarr fill every target completely, and only inside the requested region."""
from __future__ import annotations

import sys
import warnings

import numpy as np

import vp  # noqa
from vp import c01, core, prog as P, sinks as S
from vp.core import Acc, Failure, Outcome

ID = "C11"
LEVEL = "exploration"
RULE = (
    "A program from the shared generator provides sources (virtual in-memory inputs, uncomputed lazy nodes, rechunked and fused "
    "nodes, 0-d and size-0 arrays); 1-4 store/to_zarr sinks are drawn over them: fresh path, path+group, existing array with equal "
    "/ different / non-dividing chunking, existing array larger than the source (leading region; rejected when a target chunk would be "
    "written partially), existing array of another (wider) dtype, sharded array, chunk-aligned regions (offsets, last partial chunk, all-slice(None)), "
    "mis-aligned regions, malformed regions (fewer slices than dimensions, negative start, step), repeated sources; eager (store()/to_zarr() compute immediately) or lazy (returned arrays computed "
    "together or one by one), executor in {schedule-permuting sequential, single-threaded, threads}. Existing targets are "
    "pre-filled with a sentinel. Oracle: every target read back with plain zarr equals the expected image (source values in the "
    "region, sentinel elsewhere; fresh targets have the source's shape/dtype); calls that must be rejected (mis-aligned region) "
    "raise before anything is written and leave every target unchanged. Non-trivial = >= 2 sinks, or a repeated source, or target "
    "chunking != source chunking, or a region; distinct = canonical JSON."
)
ASSUMPTIONS = [
    "sources whose values have no exact NumPy oracle (inexact float reductions) are compared with the C01 tolerances",
    "targets live in in-memory zarr stores wrapped by the tracing store; reading back uses the unwrapped store and plain zarr",
]

ALL_CLASSES = ("fresh", "fresh", "group", "existing-same", "existing-diff", "existing-diff", "region-aligned", "region-aligned", "region-aligned", "sharded", "region-misaligned", "existing-smaller", "existing-larger", "existing-dtype", "region-malformed")
REJECT = ("region-misaligned", "existing-smaller", "existing-larger-unaligned", "region-malformed:short-tuple", "region-malformed:negative-start", "region-malformed:step")


def case_strategy(opts=None, max_ops=4):
    from hypothesis import strategies as st

    fused = bool((opts or {}).get("fused_sources"))

    @st.composite
    def cases(draw):
        prog = draw(P.programs(draw(st.sampled_from(["dag", "storage-rich"])) if not fused else "fusion-rich", max_ops=max_ops, min_ops=1 if fused else 0, opts=opts))
        if fused:
            # sources produced by fusable chains, stored into regions / existing targets / paths, under each fusing optimizer
            return {
                "kind": "program",
                "prog": prog,
                "sinks": draw(S.sinks_strategy(prog, classes=("region-aligned", "region-aligned", "region-aligned", "existing-same", "existing-diff", "fresh", "sharded"), max_sinks=2)),
                "eager": draw(st.booleans()),
                "together": draw(st.booleans()),
                "one_call": draw(st.booleans()),
                "executor": draw(st.sampled_from(["schedule", "single-threaded"])),
                "optimize": True,
                "optimizer": draw(st.sampled_from(["simple", "simple", "fuse-all", "default"])),
                "perm_seed": draw(st.integers(0, 10**6)),
            }
        return {
            "kind": "program",
            "prog": prog,
            "sinks": draw(S.sinks_strategy(prog, classes=ALL_CLASSES, max_sinks=4)),
            "eager": draw(st.booleans()),
            "together": draw(st.booleans()),
            "one_call": draw(st.booleans()),
            "executor": draw(st.sampled_from(["schedule", "schedule", "single-threaded", "threads"])),
            "optimize": draw(st.booleans()),
            # "fused" sources: which optimizer fuses the operations producing the sources into the store operations
            "optimizer": draw(st.sampled_from(["default", "default", "simple", "fuse-all"])),
            "perm_seed": draw(st.integers(0, 10**6)),
        }

    return cases()


def _opt_kw(case):
    kw = {"optimize_graph": case["optimize"]}
    if case["optimize"] and case.get("optimizer", "default") != "default":
        from cubed.core import optimization as opt

        kw["optimize_function"] = opt.simple_optimize_dag if case["optimizer"] == "simple" else opt.fuse_all_optimize_dag
    return kw


def _executor(case):
    from vp import harness as H

    if case["executor"] == "schedule":
        return H.ScheduleExecutor(H.Schedule(perm_seed=case.get("perm_seed")))
    return H.RecordingExecutor(H.make_executor(case["executor"], max_workers=4))


def check_case(case) -> Outcome:
    import cubed

    prog = case["prog"]
    sinks = case["sinks"]
    labels = {f"exec:{case['executor']}", "eager" if case["eager"] else "lazy", f"nsinks={len(sinks)}", f"optimizer:{case.get('optimizer', 'default') if case['optimize'] else 'off'}"}
    for s in sinks:
        labels.add("sink:" + s["cls"])
        labels.add("api:" + s["api"])
    if len({s["node"] for s in sinks}) < len(sinks):
        labels.add("repeated-source")
    vals = P.eval_numpy(prog)
    spec = c01.make_spec("schedule")
    ctx = S.SinkCtx()
    fails = []
    must_reject = any(s["cls"] in REJECT for s in sinks)
    with warnings.catch_warnings():
        warnings.simplefilter("ignore")
        try:
            arrs = P.build_cubed(prog, spec)
        except Exception as e:
            labels.add("declined:program-build")
            return Outcome(labels=tuple(labels))
        ex = _executor(case)
        rejected = None
        entered0 = 0
        try:
            if case["eager"]:
                # eager: one sink at a time, each call computes immediately
                for s in sinks:
                    entered0 = ex.entered
                    lazy = S.build_sinks([s], arrs, ctx, spec, vals=vals)
                    cubed.compute(*lazy, executor=ex, _return_in_memory_array=False, **_opt_kw(case))
            else:
                lazy = S.build_sinks(sinks, arrs, ctx, spec, vals=vals, one_call=case.get("one_call", True))
                if case["together"]:
                    cubed.compute(*lazy, executor=ex, _return_in_memory_array=False, **_opt_kw(case))
                else:
                    for a in lazy:
                        entered0 = ex.entered
                        a.compute(executor=ex, _return_in_memory_array=False, **_opt_kw(case))
        except Exception as e:
            rejected = e
    # the misaligned class may have become aligned after the shift (then it is an ordinary region store)
    must_reject = any(t.sink["cls"] in REJECT for t in ctx.targets)
    if rejected is not None:
        labels.add(f"raised:{type(rejected).__name__}")
        entered = getattr(ex, "entered", None)
        if must_reject and isinstance(rejected, ValueError):
            # nothing may have been written by the rejected call; earlier eager calls are judged normally
            bad_t = [t for t in ctx.targets if t.sink["cls"] in REJECT]
            for t in bad_t:
                if any(r[1] in ("set", "delete", "delete_dir") for r in t.store.state.log):
                    fails.append(Failure("rejected-but-written", f"target {t.path}: writes recorded although the call was rejected"))
                got, err = S.read_target(t)
                if got is not None and t.before is not None and not np.array_equal(got, t.before):
                    fails.append(Failure("rejected-but-changed", f"target {t.path} changed by a rejected call"))
            if not case["eager"]:
                # a lazy multi-sink call rejected as a whole: no target may have been touched
                for t in ctx.targets:
                    if t.before is not None:
                        got, err = S.read_target(t)
                        if got is not None and not np.array_equal(got, t.before):
                            fails.append(Failure("rejected-but-other-target-changed", f"target {t.path}"))
            return Outcome(nontrivial=True, labels=tuple(labels), failures=tuple(fails))
        # any other failure of a valid call shape: was it a legitimate up-front refusal?
        if ex.entered == entered0 and isinstance(rejected, (ValueError, TypeError, NotImplementedError, IndexError)):
            labels.add("declined-up-front")
            return Outcome(labels=tuple(labels))
        # execution started and failed on a call shape that is valid: if the sources themselves compute fine, the store
        # neither wrote the target nor rejected the call up front
        from vp import harness as H

        try:
            srcs = [arrs[s["node"]] for s in sinks]
            cubed.compute(*srcs, executor=H.make_executor("single-threaded"), optimize_graph=False)
            sources_ok = True
        except Exception:
            sources_ok = False
        if sources_ok and ex.entered > entered0:
            cls = "+".join(sorted({t.sink["cls"] for t in ctx.targets}))
            return Outcome(nontrivial=True, labels=tuple(labels), failures=(Failure(f"store-failed-midrun:{type(rejected).__name__}", f"sinks {cls}: {rejected!r}"[:300]),))
        labels.add("sources-fail-too(C17)")
        return Outcome(labels=tuple(labels))
    if must_reject:
        which = sorted({t.sink["cls"] for t in ctx.targets if t.sink["cls"] in REJECT})
        fails.append(Failure("unsafe-store-accepted:" + "+".join(which), "a region that does not align with the target's chunks / a source that does not fit into the target was not rejected"))
    # read back every target
    for t in ctx.targets:
        if t.expected is None:
            continue
        got, err = S.read_target(t)
        cls = t.sink["cls"]
        if got is None:
            fails.append(Failure(f"target-missing:{cls}", f"{t.path or '<root>'}: {err}"))
            continue
        exp = t.expected
        if tuple(got.shape) != tuple(exp.shape):
            fails.append(Failure(f"target-shape:{cls}", f"{t.path}: stored shape {got.shape}, expected {exp.shape}"))
            continue
        v = vals[t.sink["node"]]
        if t.region is not None and t.before is not None:
            sl = tuple(slice(a, b) for a, b in t.region)
            inside = got[sl]
            outside_ok = True
            mask = np.ones(got.shape, dtype=bool)
            mask[sl] = False
            if mask.any() and not np.array_equal(got[mask], t.before[mask]):
                fails.append(Failure(f"outside-region-changed:{cls}", f"{t.path}: elements outside region {t.region} changed"))
            msg = P.compare(inside, v)
            if msg is not None:
                fails.append(Failure(f"region-values:{cls}", f"{t.path}: {msg}"))
        elif cls == "existing-dtype" and t.sink.get("lossy"):
            # narrower target: the image is the source's values as cast to the target's dtype
            if not np.array_equal(got, exp):
                fails.append(Failure(f"target-values:{cls}", f"{t.path}: target does not hold the source's values cast to {exp.dtype}"))
        else:
            msg = P.compare(got, v)
            if msg is not None:
                fails.append(Failure(f"target-values:{cls}", f"{t.path}: {msg}"))
    nt = len(sinks) >= 2 or any(s["cls"] in ("existing-diff", "region-aligned", "sharded") for s in sinks)
    seen, uniq = set(), []
    for f in fails:
        if f.bucket not in seen:
            seen.add(f.bucket)
            uniq.append(f)
    return Outcome(nontrivial=nt, labels=tuple(labels), failures=tuple(uniq))


def _store_related(e):
    import traceback

    tb = traceback.extract_tb(e.__traceback__)
    return False


def shards(tier):
    if tier == "quick":
        return [{"kind": "program", "name": f"s{i}", "n": 90, "rotate": 13 + i * 37} for i in range(7)] + [
            {"kind": "program", "name": f"fused{i}", "n": 90, "rotate": 3 + i * 47, "fused_sources": True} for i in range(2)]
    return [{"kind": "program", "name": f"s{i}", "n": 1400, "rotate": 13 + i * 37} for i in range(16)] + [
        {"kind": "program", "name": f"fused{i}", "n": 1400, "rotate": 3 + i * 47, "fused_sources": True} for i in range(4)]


def run_shard(spec, seed, tier) -> Acc:
    acc = Acc()
    if spec["kind"] == "__corpus__":
        return core.corpus_shard(sys.modules[__name__], acc)
    is_known, _ = core.known_matcher(ID)
    opts = {"rotate": spec.get("rotate", 0), "special": False}
    if spec.get("fused_sources"):
        from vp.ir import OPS

        opts["fused_sources"] = True
        opts["only_ops"] = sorted(n for n, o in OPS.items() if "elementwise" in o.tags and "helper-array" not in o.tags) + ["pick"]
    core.hyp_run(case_strategy(opts), check_case, seed=seed, max_examples=spec["n"], acc=acc,
                 budget_s=420 if tier == "quick" else 3000, shrink=(tier == "thorough"), is_known=is_known)
    return acc


def replay(case):
    return check_case(case).all_failures()
