"""C12 — declared shape/dtype/chunks are truthful; written blocks match their chunk region."""
from __future__ import annotations

import sys
import warnings

import numpy as np

import vp  # noqa
from vp import c01, core, prog as P
from vp.core import Acc, Failure, Outcome

ID = "C12"
LEVEL = "exploration"
RULE = (
    "Programs from the shared generator (see C01; dag shards, operation-family focus shards, and sweep shards that visit every op-table "
    "entry in every run). Run A requests EVERY array node with optimize_graph=False, run B only the "
    "outputs with optimization on; both on the schedule-owning executor whose write proxies compare, for every task of every "
    "operation (intermediate, fused, every output of multi-output ops, structured intermediates), the shape of the value being "
    "written with the shape of the selection it is written into (nothing may be broadcast or truncated by Zarr). For every node "
    "the shape/dtype/chunks declared before compute must equal the computed result's shape/dtype and the shape/dtype/chunk grid "
    "of the Zarr array opened from storage (for the result of a lazy store/to_zarr inside the program - existing targets with the "
    "same, dividing or unrelated chunks, or a path - the target itself), and the declared shape must equal NumPy's. Non-trivial = accepted program with a "
    "multi-block input; distinct = canonical JSON. Blocks with zero elements are exempt from the block-shape clause (counted)."
)
ASSUMPTIONS = [
    "the write path of every task goes through BlockwiseSpec.writes_map proxies (true for all blockwise operations and rechunk copies); create-arrays tasks write no chunks",
    "declared dtype is compared with the computed dtype, not with NumPy's promotion rules",
]


def _declared(a):
    return {"shape": tuple(a.shape), "dtype": np.dtype(a.dtype) if not isinstance(a.dtype, list) else a.dtype, "chunks": tuple(a.chunks)}


def _run(prog, arrs, ids, optimize, perm_seed):
    import cubed
    from vp import harness as H

    ex = H.ScheduleExecutor(H.Schedule(perm_seed=perm_seed, check_block_shapes=True))
    outs = [arrs[i] for i in ids]
    fp = cubed.plan(*outs, optimize_graph=optimize)
    opinfo = {n: (d.get("func_name") or d.get("op_name") or "?") for n, d in fp.dag.nodes(data=True) if d.get("type") == "op"}
    res = cubed.compute(*outs, executor=ex, optimize_graph=optimize)
    return ex, opinfo, [np.asarray(r) for r in res]


def check_case(case) -> Outcome:
    from vp import c17
    from vp import harness as H

    prog = case["prog"]
    labels = set(P.prog_labels(prog))
    vals = P.eval_numpy(prog)
    spec = c01.make_spec("schedule")
    fails = []
    with warnings.catch_warnings():
        warnings.simplefilter("ignore")
        try:
            arrs = P.build_cubed(prog, spec)
        except Exception as e:
            labels.add("declined:build")
            return Outcome(labels=tuple(labels))
        ids = [i for i, v in enumerate(vals) if not v.is_tuple]
        nin = len(prog["inputs"])

        def opname(i):
            return ("input:" + prog["inputs"][i]["kind"]) if i < nin else prog["nodes"][i - nin]["op"]

        decl = {i: _declared(arrs[i]) for i in ids}
        # declared shape vs NumPy
        for i in ids:
            if decl[i]["shape"] != tuple(np.asarray(vals[i].v).shape):
                fails.append(Failure(f"declared-shape-vs-numpy:{opname(i)}", f"node {i}: declared {decl[i]['shape']} numpy {np.asarray(vals[i].v).shape}"))
            ch = decl[i]["chunks"]
            if tuple(sum(c) for c in ch) != decl[i]["shape"]:
                fails.append(Failure(f"declared-chunks-inconsistent:{opname(i)}", f"node {i}: chunks {ch} do not sum to shape {decl[i]['shape']}"))
        for run, (rids, optimize) in enumerate([(ids, False), (list(prog["outputs"]), True)]):
            try:
                ex, opinfo, res = _run(prog, arrs, rids, optimize, case.get("perm_seed", 0))
            except Exception as e:
                labels.add(f"declined-or-failed:{type(e).__name__}")
                break
            for (aname, task, got, exp) in ex.shape_errors:
                fn = opinfo.get(task[0] if task else None, "?")
                fails.append(Failure(f"block-shape:{fn}", f"run {'AB'[run]}: array {aname} task {task}: wrote block of shape {got} into region of shape {exp}"))
            labels.add("run" + "AB"[run])
            for i, got in zip(rids, res):
                d = decl[i]
                if tuple(got.shape) != d["shape"]:
                    fails.append(Failure(f"computed-shape:{opname(i)}", f"node {i}: computed {got.shape} declared {d['shape']}"))
                if np.dtype(got.dtype) != d["dtype"]:
                    fails.append(Failure(f"computed-dtype:{opname(i)}", f"node {i}: computed {got.dtype} declared {d['dtype']}"))
                # backing zarr array
                za = getattr(arrs[i], "_zarray", None)
                try:
                    from cubed.storage.zarr import LazyZarrArray

                    if run == 0 and (isinstance(za, LazyZarrArray) or (opname(i) == "store_lazy" and hasattr(za, "nchunks"))):
                        # the array that backs the node: an intermediate, or the target of a lazy store inside the program
                        z = za.open() if isinstance(za, LazyZarrArray) else za
                        if tuple(z.shape) != d["shape"] or np.dtype(z.dtype) != d["dtype"]:
                            fails.append(Failure(f"storage-meta:{opname(i)}", f"node {i}: zarr {z.shape}/{z.dtype} declared {d['shape']}/{d['dtype']}"))
                        zc = tuple(z.chunks)
                        if all(isinstance(c, int) for c in zc):
                            exp = tuple((c[0] if len(c) else 1) for c in d["chunks"])
                            # zarr stores the chunk length; for an axis of length 0 any chunk length describes the same grid
                            for n_, a_, b_ in zip(d["shape"], zc, exp):
                                if n_ > 0 and min(a_, n_) != min(b_, n_):
                                    fails.append(Failure(f"storage-chunks:{opname(i)}", f"node {i}: zarr chunks {zc} declared {d['chunks']}"))
                                    break
                        acc_checks = True
                except Exception as e:
                    pass
            labels.add(f"shape-checks>0" if ex.shape_checks else "shape-checks=0")
    nt = P.multi_block(prog) and ("runA" in labels)
    # de-duplicate buckets
    seen = set()
    uniq = []
    for f in fails:
        if f.bucket not in seen:
            seen.add(f.bucket)
            uniq.append(f)
    return Outcome(nontrivial=nt, labels=tuple(labels), failures=tuple(uniq))


def case_strategy(opts=None, max_ops=5, min_ops=0):
    from hypothesis import strategies as st

    @st.composite
    def cases(draw):
        return {"kind": "program", "prog": draw(P.programs("dag", max_ops=max_ops, min_ops=min_ops, opts=opts)), "perm_seed": draw(st.integers(0, 10**6))}

    return cases()


def shards(tier):
    fams = list(c01.FOCUS)
    if tier == "quick":
        return [{"kind": "program", "name": f"dag{i}", "n": 90, "rotate": 3 + i * 29, "store_mid": 10 if i % 2 else 4} for i in range(5)] + [
            {"kind": "program", "name": f"focus-{f}", "n": 90, "rotate": 5 + j * 13, "focus": f, "max_ops": 2, "min_ops": 1} for j, f in enumerate(fams)] + [
            {"kind": "sweep", "name": f"sweep{i}", "part": i, "of": 4, "per": 6} for i in range(4)]
    return [{"kind": "sweep", "name": f"sweep{i}", "part": i, "of": 8, "per": 100} for i in range(8)] + [{"kind": "program", "name": f"dag{i}", "n": 1500, "rotate": 3 + i * 29, "store_mid": 10 if i % 2 else 4} for i in range(12)] + [
        {"kind": "program", "name": f"focus-{f}", "n": 1800, "rotate": 5 + j * 13, "focus": f, "max_ops": 2, "min_ops": 1} for j, f in enumerate(fams)]


def run_shard(spec, seed, tier) -> Acc:
    acc = Acc()
    if spec["kind"] == "__corpus__":
        return core.corpus_shard(sys.modules[__name__], acc)
    is_known, _ = core.known_matcher(ID)
    opts = {"rotate": spec.get("rotate", 0)}
    if spec.get("store_mid"):
        opts["store_mid"] = spec["store_mid"]
    if spec.get("focus"):
        opts["only_ops"] = c01.focus_ops(spec["focus"])
    if spec["kind"] == "sweep":
        # every operation of the op table is visited in every run (one- and two-operation programs around that operation)
        names = sorted(set(P.weighted_names("dag")))[spec["part"]::spec["of"]]
        for j, nm in enumerate(names):
            o = dict(opts, only_ops=[nm, "pick"], rotate=0)
            core.hyp_run(case_strategy(o, max_ops=2, min_ops=1), check_case, seed=seed + j, max_examples=spec["per"], acc=acc,
                         budget_s=60 if tier == "quick" else 900, shrink=False, is_known=is_known)
        acc.extra["generation"] = dict(P.GEN_STATS)
        return acc
    core.hyp_run(case_strategy(opts, max_ops=spec.get("max_ops", 5), min_ops=spec.get("min_ops", 0)), check_case, seed=seed, max_examples=spec["n"], acc=acc,
                 budget_s=420 if tier == "quick" else 3000, shrink=(tier == "thorough"), is_known=is_known)
    acc.extra["generation"] = dict(P.GEN_STATS)
    return acc


def replay(case):
    return check_case(case).all_failures()
