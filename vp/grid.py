"""Chunk-grid helpers shared by several checks (independent of cubed's own helpers)."""
from __future__ import annotations

import itertools
import math


def axis_boundaries(n: int, c) -> tuple:
    """Boundaries (0..n) of a chunk grid along one axis. c is an int (regular) or a sequence of sizes."""
    if isinstance(c, (tuple, list)):
        out = [0]
        for s in c:
            out.append(out[-1] + int(s))
        return tuple(out)
    c = int(c)
    if n == 0:
        return (0,)
    c = max(c, 1)
    return tuple(range(0, n, c)) + (n,)


def boundaries(shape, chunks) -> list:
    return [axis_boundaries(n, c) for n, c in zip(shape, chunks)]


def aligned(shape, write_chunks, storage_chunks) -> bool:
    """True iff every boundary of the task-write grid is a boundary of the storage grid
    in reverse: every storage chunk lies inside exactly one write region
    <=> boundaries(write) is a subset of boundaries(storage)."""
    for n, w, s in zip(shape, write_chunks, storage_chunks):
        if not set(axis_boundaries(n, w)) <= set(axis_boundaries(n, s)):
            return False
    return True


def numblocks(shape, chunks):
    return tuple(len(axis_boundaries(n, c)) - 1 for n, c in zip(shape, chunks))


def all_blocks(shape, chunks):
    return itertools.product(*[range(k) for k in numblocks(shape, chunks)])


def block_slices(shape, chunks, coords):
    bs = boundaries(shape, chunks)
    return tuple(slice(b[i], b[i + 1]) for b, i in zip(bs, coords))


def divisors(n: int):
    return [d for d in range(1, n + 1) if n % d == 0]


def prod(xs):
    return math.prod(int(x) for x in xs)
