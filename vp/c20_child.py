"""Sender process for C20: builds a program in a fresh interpreter (its own name counters) and cloudpickles the outputs."""
import json
import sys

import vp  # noqa: F401


def main():
    import warnings

    import cloudpickle
    import cubed

    from vp import c20, prog as P

    req = json.load(open(sys.argv[1]))
    c20.set_counters(req["counter"])
    spec = cubed.Spec(**req["spec"])
    try:
        with warnings.catch_warnings():
            warnings.simplefilter("ignore")
            arrs = P.build_cubed(req["prog"], spec)
    except Exception:
        sys.exit(3)
    if req.get("sender_computes"):
        try:
            cubed.compute(*[arrs[i] for i in req["out_ids"]])
        except Exception:
            pass
    with open(req["resp"], "wb") as f:
        f.write(cloudpickle.dumps([arrs[i] for i in req["out_ids"]]))


if __name__ == "__main__":
    main()
