"""C08 — task failures are retried and surfaced, never dropped; exactly one result per input.

Tier A (deciding): the REAL `cubed.runtime.asyncio.async_map_unordered` driven by the REAL retry wrapper
(`threads_create_futures_func(pool, task_fn, retries)`, tenacity) over a scripted pool on a virtual-time event loop
(vp/vloop.py). A case is a fault/straggle script: per (input, submission in {original, backup}) a completion time
class and the number of leading attempts that fail; plus the options use_backups / batch_size / retries / list-or-
iterator input / return_stats and the order in which tasks finishing in the same `asyncio.wait` round are processed.
The verdict comes from a reference model of the contract, evaluated on the script and on the submissions the code
actually made (observed by the pool).

Tier B: small real computations on the threads executor over a fault-injecting zarr store (vp.harness.TraceStore).
"""
from __future__ import annotations

import itertools
import sys
import threading
import time as _time
from collections import Counter

import vp  # noqa: F401
from vp import core
from vp.core import Acc, Failure, Outcome

ID = "C08"
LEVEL = "fault_enumeration"
RULE = (
    "Tier A: fault/straggle scripts for the real async_map_unordered + real tenacity retry wrapper on a virtual-time event "
    "loop: n in 1..40 inputs; per (input, original|backup) a completion class (fast {0,0.5,1,1.5,2}, 'tie' = completes at "
    "exactly the instant its twin completes, straggler 3x-100x) and k in 0..retries+2 leading failing attempts; use_backups "
    "{off,on} x batch_size {None,<n,=n,>n} x retries {0,1,2} x input {list, one-shot iterator} x return_stats x processing "
    "order of same-round completions {original first, backup first, reversed, native set order} x 6 future-hash permutations "
    "(iteration order of cubed's sets of futures). Thorough additionally "
    "enumerates completely: 10 fast fillers + 1..2 scripted inputs (3 under a reduced option set) over the 3x3 alphabet "
    "{fast,tie,20x} x {0, retries, retries+1 failures} for original and backup, all option combinations. "
    "Non-trivial = at least one attempt really failed or at least one backup was really launched in the run; distinct = "
    "canonical JSON of the case. Tier B: retries r in {0,1,2} given as executor option, as compute() keyword or by default, "
    "f in {0, r, r+1, r+2} injected IO faults on one chunk key (read or write) of a small real computation on the threads "
    "executor, optimize_graph on/off, batch_size none/2; f <= r must succeed with NumPy's values and exactly f faults consumed, "
    "f >= r+1 must raise the injected OSError after exactly r+1 attempts."
)
ASSUMPTIONS = [
    "tier A replaces the worker pool by a scripted pool and the clock by a virtual clock (module attribute "
    "cubed.runtime.asyncio.time, restored afterwards); async_map_unordered, should_launch_backup, batched and the tenacity "
    "retry wrapper are the real ones; all attempts of one submission happen at its scripted completion instant",
    "the processing order of tasks that finish in the same asyncio.wait round is chosen by the harness through a set "
    "subclass returned by a pass-through asyncio.wait (any order is a legal behaviour of the real set); mode 'native' leaves asyncio.wait alone",
    "futures created by the virtual loop hash by creation number (a permutation selected by the case) instead of by memory address, so "
    "the iteration order of cubed's sets of futures (same-round processing, order in which backups are launched) is reproducible",
    "empty input is outside the domain (every cubed operation has >= 1 task); inputs are distinct",
    "nothing requires a backup to be launched: an input whose only submission exhausts its retries must raise; a raise for input i "
    "is judged legitimate iff no submission of i made so far succeeded or is still pending and scripted to succeed",
    "tier B: threads executor only, compute() called plainly or from inside a running event loop, retries 0..2 (option, keyword or default), one faulted chunk key that exactly one task touches; a watchdog expiry is "
    "counted as 'inconclusive', never as a violation",
]

FAST = "fast"
TIE = "tie"
SLOW = "slow"
ORDERS = ("of", "bf", "rof", "rbf", "native")


class TaskError(Exception):
    """The scripted task failure: args = (input, submission number, attempt number)."""


# --------------------------------------------------------------------------- running one script
def _script_map(case):
    m = {}
    for (i, k, cls, dur, nfail) in case.get("scripts", []):
        m[(int(i), int(k))] = (cls, float(dur), int(nfail))
    return m


def _order_key(mode, reg):
    if mode == "native":
        return None
    si = -1 if mode in ("rof", "rbf") else 1
    sk = -1 if mode in ("bf", "rbf") else 1

    def key(fut):
        sub = reg.get(fut)
        if sub is None:
            return (1 << 30, 0)
        return (si * sub.key, sk * sub.subno)

    return key


class Obs:
    __slots__ = ("outcome", "exc", "results", "pool", "pending_at_raise", "t_end", "bad_attempts", "loop_reports", "iters")


def run_script(case) -> Obs:
    """Run the real async_map_unordered on the script; never raises for behaviours of the code under test."""
    from cubed.runtime.asyncio import async_map_unordered
    from cubed.runtime.executors.local import threads_create_futures_func

    from vp.vloop import Hang, ScriptedPool, VirtualTimeLoop, run_to_completion, virtual_time

    n = case["n"]
    retries = case["retries"]
    use_backups = case["use_backups"]
    batch_size = case["batch_size"]
    return_stats = case.get("return_stats", False)
    base = case.get("base")  # optional per-input fast durations
    script = _script_map(case)

    loop = VirtualTimeLoop(max_time=2e4, max_iters=400_000, hash_perm=case.get("hperm", 0))  # worst legal schedule: 43 sequential inputs x (100 + 100)
    obs = Obs()
    obs.results = []
    obs.bad_attempts = []
    obs.pending_at_raise = None
    reg = {}

    def entry(i, k):
        e = script.get((i, k))
        if e is not None:
            return e
        if k == 0 and base is not None and 0 <= i < len(base):
            return (FAST, float(base[i]), 0)
        return (FAST, 1.0, 0)

    def schedule(sub):
        i, k = sub.key, sub.subno
        cls, dur, nfail = entry(i, k)
        sub.data["cls"], sub.data["nfail"] = cls, nfail
        now = loop.time()
        sibs = pool.by_key.get(i, [])
        if k >= 1:
            orig = sibs[0]
            o_pending = not orig.fired and not orig.future.cancelled()
            if cls == TIE and orig.data.get("cls") != TIE and o_pending and orig.fire_time is not None and orig.fire_time > now:
                pool.fire_at(sub, orig.fire_time)
                return None
            if o_pending and orig.data.get("cls") == TIE:
                pool.fire_at(orig, now + dur)
        return dur

    pool = ScriptedPool(loop, schedule)

    def task_fn(i, **kw):
        sub = pool.current
        sub.attempts += 1
        if sub.data.get("succeeded"):
            obs.bad_attempts.append((sub.key, sub.subno, sub.attempts))
        if sub.attempts <= sub.data["nfail"]:
            raise TaskError(i, sub.subno, sub.attempts)
        sub.data["succeeded"] = True
        if return_stats:
            return i, {"vp_sub": sub.subno}
        return i

    real_cff = threads_create_futures_func(pool, task_fn, retries=retries)

    def cff(inputs, **kw):
        before = len(pool.subs)
        out = real_cff(inputs, **kw)
        for j, (_i, fut) in enumerate(out):
            if before + j < len(pool.subs):
                reg[fut] = pool.subs[before + j]
        return out

    inputs = list(range(n))
    src = iter(inputs) if case.get("as_iter") else inputs
    kwargs = {"config": "vp-config"}
    if return_stats:
        kwargs.update(return_stats=True, name="op-vp")

    async def main():
        try:
            async for r in async_map_unordered(cff, src, use_backups=use_backups, batch_size=batch_size, **kwargs):
                obs.results.append((loop.time(), r))
        except BaseException:
            obs.pending_at_raise = {s.seq for s in pool.subs if not s.fired and not s.future.cancelled()}
            raise

    reports = []
    loop.set_exception_handler(lambda lp, ctx: reports.append(str(ctx.get("message")) + " " + repr(ctx.get("exception"))))
    with virtual_time(loop, _order_key(case.get("order", "native"), reg)):
        try:
            run_to_completion(loop, main())
            obs.outcome, obs.exc = "ok", None
        except TaskError as e:
            obs.outcome, obs.exc = "taskerror", e
        except Hang as e:
            obs.outcome, obs.exc = "hang", e
        except BaseException as e:  # noqa
            if isinstance(e, (KeyboardInterrupt, SystemExit)):
                raise
            obs.outcome, obs.exc = "crash", e
    obs.pool = pool
    obs.t_end = loop.time()
    obs.iters = loop.iterations
    obs.loop_reports = [r for r in reports if "never retrieved" not in r and "destroyed but it is pending" not in r]
    return obs


# --------------------------------------------------------------------------- reference model of the contract
def judge(case, obs: Obs):
    """-> (failures, labels, nontrivial)"""
    n, retries, use_backups = case["n"], case["retries"], case["use_backups"]
    pool = obs.pool
    fails = []
    labels = set()

    def scripted_ok(sub):
        return sub.data["nfail"] <= retries

    by_in = pool.by_key
    # (4) submissions and attempts
    for i, subs in by_in.items():
        if not (isinstance(i, int) and 0 <= i < n):
            fails.append(Failure("submissions:unknown-input", f"input {i!r} submitted, inputs are 0..{n - 1}"))
            continue
        if len(subs) > 2:
            fails.append(Failure("submissions:more-than-two", f"input {i} submitted {len(subs)} times (original + at most one backup allowed)"))
        elif len(subs) == 2 and not use_backups:
            fails.append(Failure("submissions:backup-without-use_backups", f"input {i} submitted twice although use_backups=False"))
        for s in subs:
            if not s.fired:
                continue
            exp = min(s.data["nfail"] + 1, retries + 1)
            if s.attempts > retries + 1:
                fails.append(Failure("attempts:more-than-retries+1", f"submission {s.subno} of input {i} made {s.attempts} attempts, retries={retries}"))
            elif s.attempts < exp:
                fails.append(Failure("attempts:budget-not-used", f"submission {s.subno} of input {i} gave up after {s.attempts} attempt(s), retries={retries}, scripted to fail the first {s.data['nfail']}"))
            elif s.attempts > exp:
                fails.append(Failure("attempts:after-success", f"submission {s.subno} of input {i} made {s.attempts} attempts, expected {exp}"))
    if obs.bad_attempts:
        fails.append(Failure("attempts:after-success", f"attempt after a successful attempt: {obs.bad_attempts[:3]}"))

    # deliveries (all outcomes)
    vals = []
    for (t, r) in obs.results:
        if case.get("return_stats"):
            ok_shape = isinstance(r, tuple) and len(r) == 2 and isinstance(r[1], dict)
            if not ok_shape:
                fails.append(Failure("delivery:malformed-result", f"expected (result, stats), got {r!r}"))
                continue
            v = r[0]
            if r[1].get("name") != "op-vp" or "task_create_tstamp" not in r[1]:
                fails.append(Failure("delivery:stats-missing-name-or-tstamp", f"stats={r[1]!r}"))
        else:
            v = r
        vals.append((t, v))
    cnt = Counter(v for _, v in vals)
    dup = sorted(v for v, c in cnt.items() if c > 1)
    if dup:
        i = dup[0]
        subs = by_in.get(i, [])
        same = len(subs) >= 2 and subs[0].fired and subs[1].fired and subs[0].fired_at == subs[1].fired_at
        fails.append(Failure("delivery:duplicate-result" + (":twins-finished-in-same-round" if same else ""),
                             f"input(s) {dup[:5]} delivered more than once ({cnt[i]}x); outcome={obs.outcome}"))
    for (t, v) in vals:
        subs = by_in.get(v)
        if subs is None or not any(s.fired and s.ok and s.fired_at <= t for s in subs):
            fails.append(Failure("delivery:input-without-successful-attempt", f"input {v!r} delivered at t={t} but none of its submissions had succeeded"))
            break

    # outcome
    if obs.outcome == "hang":
        fails.append(Failure("hang", str(obs.exc)))
    elif obs.outcome == "crash":
        e = obs.exc
        fails.append(Failure(f"crash:{type(e).__name__}", f"{type(e).__name__}: {str(e)[:200]} (not the task's error)"))
    elif obs.outcome == "ok":
        missing = [i for i in range(n) if cnt.get(i, 0) == 0]
        if missing:
            i = missing[0]
            subs = by_in.get(i, [])
            if not subs:
                why = "never-submitted"
            elif any(s.fired and s.ok for s in subs):
                why = "succeeded-but-not-delivered"
            elif all(s.fired and not s.ok for s in subs):
                why = "failure-dropped"
            else:
                why = "abandoned-while-pending"
            fails.append(Failure(f"finish:missing-result:{why}", f"finished normally without delivering input(s) {missing[:5]} of {n}"))
        extra = [v for v in cnt if not (isinstance(v, int) and 0 <= v < n)]
        if extra:
            fails.append(Failure("finish:unknown-result", f"delivered {extra[:3]!r}"))
    elif obs.outcome == "taskerror":
        a = obs.exc.args
        i = a[0] if a else None
        subs = by_in.get(i, [])
        pend = obs.pending_at_raise or set()
        if not subs:
            fails.append(Failure("raise:error-of-unsubmitted-input", f"{obs.exc!r}"))
        else:
            done_ok = [s for s in subs if s.fired and s.seq not in pend and scripted_ok(s)]
            pend_ok = [s for s in subs if s.seq in pend and scripted_ok(s)]
            if cnt.get(i, 0) > 0:
                fails.append(Failure("raise:after-input-was-delivered", f"raised {obs.exc!r} although input {i} had already been delivered"))
            elif done_ok:
                s = done_ok[0]
                fails.append(Failure("raise:although-a-submission-succeeds-within-budget",
                                     f"raised {obs.exc!r}; submission {s.subno} of input {i} completed at t={s.fired_at} and is scripted to succeed after {s.data['nfail']} failure(s) (retries={retries}); attempts made={s.attempts}"))
            elif pend_ok:
                s = pend_ok[0]
                fails.append(Failure("raise:while-twin-pending-that-would-succeed",
                                     f"raised {obs.exc!r} while submission {s.subno} of input {i} was still pending (due t={s.fire_time}) and scripted to succeed"))

    # labels / non-triviality (from what really happened)
    any_failed_attempt = any(s.fired and (s.attempts > 1 or not s.ok) for s in pool.subs)
    launched = [subs for subs in by_in.values() if len(subs) >= 2]
    labels.add("outcome=" + obs.outcome)
    bs = case["batch_size"]
    bcls = "none" if bs is None else ("<n" if bs < n else ("=n" if bs == n else ">n"))
    labels.add(f"opts:backups={int(use_backups)},batch={bcls},retries={retries}")
    labels.add("order=" + case.get("order", "native"))
    if case.get("as_iter"):
        labels.add("input=iterator")
    if case.get("return_stats"):
        labels.add("return_stats")
    if launched:
        labels.add("backup-launched")
        if bs is not None and bs >= 10:
            labels.add("backup-launched&batch>=10")
        if bs is not None and any(subs[0].key >= bs for subs in launched):
            labels.add("backup-for-input-of-later-batch")
    for subs in launched:
        o, b = subs[0], subs[1]
        if o.fired and b.fired and o.fired_at == b.fired_at:
            labels.add(f"twins-same-round:orig={'ok' if o.ok else 'fail'},backup={'ok' if b.ok else 'fail'}")
        else:
            def stt(s):
                if s.fired:
                    return "ok" if s.ok else "fail"
                return "cancelled" if s.future.cancelled() else "pending"
            first = "orig" if (o.fired and (not b.fired or o.fired_at < b.fired_at)) else ("backup" if b.fired else "none")
            labels.add(f"twins:first={first},orig={stt(o)},backup={stt(b)}")
    if any_failed_attempt:
        labels.add("failed-attempt")
    if any(s.fired and not s.ok for s in pool.subs):
        labels.add("submission-exhausted-retries")
    return fails, labels, bool(any_failed_attempt or launched)


def check_script(case) -> Outcome:
    obs = run_script(case)
    if obs.loop_reports:
        # an exception inside a raw loop callback can only come from the harness (cubed's code runs inside the task)
        raise core.HarnessError("event loop exception report: " + obs.loop_reports[0][:300])
    fails, labels, nt = judge(case, obs)
    # one Failure per bucket
    seen, uniq = set(), []
    for f in fails:
        if f.bucket not in seen:
            seen.add(f.bucket)
            uniq.append(f)
    return Outcome(nontrivial=nt, labels=tuple(sorted(labels)), failures=tuple(uniq))


# --------------------------------------------------------------------------- generation (tier A)
def script_cases(profile="mixed"):
    from hypothesis import strategies as st

    fast_durs = [0.0, 0.5, 1.0, 1.0, 1.0, 1.5, 2.0]
    slow_mults = [3.0, 4.0, 5.0, 6.0, 8.0, 16.0, 32.0, 100.0]

    @st.composite
    def gen(draw):
        retries = draw(st.sampled_from([0, 1, 2, 2]))
        if profile == "backups":
            use_backups = True
            n = draw(st.integers(10, 40))
        elif profile == "nobackups":
            use_backups = draw(st.sampled_from([False, False, False, True]))
            n = draw(st.integers(1, 40))
        else:
            use_backups = draw(st.sampled_from([True, True, False]))
            n = draw(st.one_of(st.integers(1, 40), st.integers(10, 26)))
        bk = draw(st.sampled_from(["none", "lt", "lt", "eq", "gt"]))
        if bk == "lt" and n == 1:
            bk = "eq"
        if bk == "none":
            batch_size = None
        elif bk == "lt":
            if use_backups and n > 10 and draw(st.booleans()):
                batch_size = draw(st.integers(10, n - 1))
            else:
                batch_size = draw(st.integers(1, n - 1))
        elif bk == "eq":
            batch_size = n
        else:
            batch_size = n + draw(st.integers(1, 5))
        as_iter = draw(st.booleans())
        return_stats = draw(st.sampled_from([False, False, True]))
        order = draw(st.sampled_from(ORDERS))
        case = {"kind": "script", "n": n, "retries": retries, "use_backups": use_backups, "batch_size": batch_size,
                "as_iter": as_iter, "return_stats": return_stats, "order": order, "hperm": draw(st.integers(0, 5))}
        # filler durations: mostly uniform 1.0 (so that 'tie'/'slow' are relative to a known median), sometimes varied
        if draw(st.integers(0, 3)) == 0:
            case["base"] = [draw(st.sampled_from(fast_durs)) for _ in range(n)]
        # scripted inputs; failure counts biased to the boundary (last allowed attempt succeeds / budget just exhausted)
        nfails = st.sampled_from([0, 0, 0, 1, retries, retries, retries + 1, retries + 1, retries + 2])
        m = draw(st.integers(0, min(n, 4)))
        scripts = []
        if m:
            lo = 0
            if batch_size is not None and batch_size < n and draw(st.booleans()):
                lo = batch_size  # stragglers in later batches
            idx = draw(st.lists(st.integers(lo, n - 1), min_size=1, max_size=m, unique=True))
            for i in sorted(idx):
                ocls = draw(st.sampled_from([SLOW, SLOW, SLOW, TIE, TIE, FAST]))
                odur = draw(st.sampled_from(slow_mults)) if ocls != FAST else draw(st.sampled_from(fast_durs))
                if ocls == TIE:
                    odur = draw(st.sampled_from([16.0, 32.0, 100.0]))  # fallback when no backup is launched
                onf = draw(nfails)
                scripts.append([i, 0, ocls, odur, onf])
                if use_backups:
                    bcls = draw(st.sampled_from([FAST, FAST, TIE, TIE, SLOW, SLOW]))
                    bdur = draw(st.sampled_from(slow_mults)) if bcls == SLOW else draw(st.sampled_from(fast_durs))
                    bnf = draw(nfails)
                    scripts.append([i, 1, bcls, bdur, bnf])
        # sprinkle plain failures
        extra = draw(st.integers(0, 2))
        have = {s[0] for s in scripts}
        for _ in range(extra):
            i = draw(st.integers(0, n - 1))
            if i in have:
                continue
            have.add(i)
            scripts.append([i, 0, FAST, draw(st.sampled_from(fast_durs)), draw(st.integers(1, retries + 2))])
        case["scripts"] = scripts
        return case

    return gen()


# --------------------------------------------------------------------------- exhaustive small configurations
N0 = 10  # fast fillers, so that the backup logic is active


def alphabet(retries):
    nf = sorted({0, retries, retries + 1})
    return [(c, k) for c in (FAST, TIE, SLOW) for k in nf]


def _dur(cls):
    return {FAST: 1.0, TIE: 50.0, SLOW: 20.0}[cls]


def enum_cases(m, retries, use_backups, reduced=False):
    """All scripts for m scripted inputs (+N0 fillers) x option combinations."""
    n = N0 + m
    al = alphabet(retries)
    per_input = list(itertools.product(al, al)) if use_backups else [(a, None) for a in al]
    if reduced == "pairs":
        # two (batch_size, same-round order) combinations per script
        combos = [(None, "of", False), (10, "bf", False)]
        positions = ["last"]
    elif reduced:
        combos = [(bs, o, False) for bs in (None, 10) for o in ("of", "bf")]
        positions = ["last"]
    else:
        orders = ["of", "bf", "rof", "rbf"] if use_backups else ["of", "rof"]
        combos = [(bs, o, it) for bs in (None, 5, 10, n, n + 3) for o in orders for it in (False, True)]
        positions = ["last", "first"]
    for combo in itertools.product(per_input, repeat=m):
        for pos in positions:
            idx = list(range(N0, n)) if pos == "last" else list(range(m))
            scripts = []
            for i, (o, b) in zip(idx, combo):
                scripts.append([i, 0, o[0], _dur(o[0]), o[1]])
                if b is not None:
                    scripts.append([i, 1, b[0], _dur(b[0]), b[1]])
            for (bs, order, it) in combos:
                yield {"kind": "script", "n": n, "retries": retries, "use_backups": use_backups, "batch_size": bs,
                       "as_iter": it, "return_stats": False, "order": order, "scripts": scripts}


def enum_slices():
    """Slices of the enumerated domain; big ones are split by the script of the first scripted input's original."""
    out = []
    for m in (1, 2, 3):
        for retries in (0, 1, 2):
            out.append({"m": m, "retries": retries, "use_backups": False, "reduced": False})
    for retries in (0, 1, 2):
        out.append({"m": 1, "retries": retries, "use_backups": True, "reduced": False})
    for retries in (0, 1, 2):
        for part in range(len(alphabet(retries))):
            out.append({"m": 2, "retries": retries, "use_backups": True, "reduced": False, "part": part})
    # m = 3 with backups: reduced option set (retries=1; (batch_size None, original first) and (batch_size 10, backup first))
    for part in range(len(alphabet(1))):
        for part2 in range(3):
            out.append({"m": 3, "retries": 1, "use_backups": True, "reduced": "pairs", "part": part, "part2": part2})
    return out


def enum_slice_cases(sl):
    gen = enum_cases(sl["m"], sl["retries"], sl["use_backups"], sl.get("reduced", False))
    part = sl.get("part")
    if part is None:
        yield from gen
        return
    al = alphabet(sl["retries"])
    want = al[part]
    part2 = sl.get("part2")
    for case in gen:
        s0 = case["scripts"][0]
        if (s0[2], s0[4]) != want:
            continue
        if part2 is not None and al.index((case["scripts"][1][2], case["scripts"][1][4])) % 3 != part2:
            continue
        yield case


# --------------------------------------------------------------------------- tier B: storage faults end to end
PROGS = ("add-sum", "add-mean0", "matmul-ish")


def _build_prog(name, spec):
    import numpy as np

    import cubed.array_api as xp

    an = np.arange(12, dtype=np.int64).reshape(3, 4)
    a = xp.asarray(an, chunks=(1, 2), spec=spec)
    if name == "add-sum":
        return xp.sum(a + 1), np.sum(an + 1)
    if name == "add-mean0":
        af = xp.astype(a, xp.float64)
        return xp.mean(af * 2.0, axis=0), np.mean(an.astype(np.float64) * 2.0, axis=0)
    if name == "matmul-ish":
        b = xp.asarray(an.T.copy(), chunks=(2, 1), spec=spec)
        return xp.matmul(a, b) + 1, an @ an.T + 1
    raise core.HarnessError(f"unknown prog {name}")


def _with_watchdog(fn, seconds):
    box = {}

    def body():
        try:
            box["r"] = fn()
        except BaseException as e:  # noqa
            box["e"] = e

    th = threading.Thread(target=body, daemon=True)
    th.start()
    th.join(seconds)
    if th.is_alive():
        return "timeout", None
    if "e" in box:
        return "exc", box["e"]
    return "ok", box["r"]


class _CountTasks:
    def __init__(self):
        from cubed.runtime.types import Callback

        outer = self

        class CB(Callback):
            def on_compute_start(self, event):
                outer.expected = {name: node["primitive_op"].num_tasks for name, node in event.dag.nodes(data=True) if node.get("primitive_op") is not None} if hasattr(event, "dag") else None

            def on_task_end(self, event):
                with outer.lock:
                    outer.ends[event.name] += event.num_tasks

        self.lock = threading.Lock()
        self.ends = Counter()
        self.expected = None
        self.cb = CB()


def eligible_keys(log):
    """Chunk keys touched exactly once, by a task (a task's read is always followed by a later chunk write)."""
    from vp.harness import is_chunk_key

    last_set = max((r[0] for r in log if r[1] == "set" and is_chunk_key(r[2])), default=-1)
    gets = Counter(r[2] for r in log if r[1] == "get" and is_chunk_key(r[2]))
    sets = Counter(r[2] for r in log if r[1] == "set" and is_chunk_key(r[2]))
    get_keys = sorted({r[2] for r in log if r[1] == "get" and is_chunk_key(r[2]) and r[0] < last_set and gets[r[2]] == 1})
    set_keys = sorted(k for k, c in sets.items() if c == 1)
    return {"get": get_keys, "set": set_keys}


def check_fault(case) -> Outcome:
    import numpy as np

    import cubed
    from cubed.runtime.create import create_executor

    from vp.harness import InjectedIOError, TraceStore

    store = TraceStore()
    spec = cubed.Spec(intermediate_store=store, allowed_mem=10**9, reserved_mem=0)
    arr, expect = _build_prog(case["prog"], spec)
    opts = {"max_workers": 2}
    if case.get("batch_size"):
        opts["batch_size"] = case["batch_size"]
    og = case.get("optimize_graph", True)
    # retries in {0,1,2}, given as executor option, as compute() keyword, or (only for 2) left to the default
    rt = int(case.get("retries", 2))
    via = case.get("retries_via", "default" if rt == 2 else "executor")
    if via == "default" and rt != 2:
        via = "executor"
    ckw = {}
    if via == "executor":
        opts["retries"] = rt
    elif via == "compute":
        ckw["retries"] = rt
    labels = {f"B:prog={case['prog']}", f"B:op={case['op']}", f"B:f={case['f']}", f"B:optimize={int(og)}", f"B:retries={rt}:via={via}"}

    in_loop = bool(case.get("in_loop"))
    labels.add(f"B:in-running-loop={int(in_loop)}")

    def compute(cbs=None):
        ex = create_executor("threads", dict(opts))
        if in_loop:
            # compute() called from code that already runs inside an event loop (a notebook cell, an async application)
            import asyncio

            async def main():
                return arr.compute(executor=ex, optimize_graph=og, callbacks=cbs, **ckw)

            return asyncio.run(main())
        return arr.compute(executor=ex, optimize_graph=og, callbacks=cbs, **ckw)

    # discovery run (fault-free) on the same lazy array => same array names / keys in the faulted run
    st, r0 = _with_watchdog(compute, 600)
    if st == "timeout":
        return Outcome(labels=("B:inconclusive-watchdog",), failures=(), excluded=0)
    if st == "exc":
        raise core.HarnessError(f"fault-free discovery run failed: {r0!r}")
    if not np.array_equal(np.asarray(r0), expect):
        return Outcome(labels=tuple(labels), failure=Failure("B:fault-free-run-wrong-values", f"{r0!r} != {expect!r}"))
    elig = eligible_keys(list(store.state.log))
    op = case["op"]
    if not elig[op]:
        # e.g. a fully fused plan has no chunk that a task reads: fault a write instead
        op = "set" if op == "get" else "get"
        labels.add("B:op-fallback=" + op)
    keys = elig[op]
    if not keys:
        raise core.HarnessError(f"no eligible chunk key for {case['prog']} optimize={og}")
    key = keys[case["key_index"] % len(keys)]
    base_access = sum(1 for r in store.state.log if r[1] == op and r[2] == key)
    store.state.clear()
    f = case["f"]
    store.state.faults[(op, key)] = f
    counter = _CountTasks()
    st, r = _with_watchdog(lambda: compute([counter.cb]), 600)
    store.state.faults.clear()
    if st == "timeout":
        return Outcome(labels=tuple(labels | {"B:inconclusive-watchdog"}))
    injected = store.state.fault_count.get((op, key), 0)
    ok_access = sum(1 for rec in store.state.log if rec[1] == op and rec[2] == key)
    detail = f"prog={case['prog']} optimize_graph={og} retries={rt} (via {via}) key={key} op={op} f={f}: injected={injected} successful accesses={ok_access}"
    fails = []
    if f <= rt:
        labels.add("B:expect-success")
        if st == "exc":
            fails.append(Failure(f"B:retryable-fault-not-survived:{type(r).__name__}", detail + f" raised {r!r}"))
        else:
            if not np.array_equal(np.asarray(r), expect):
                fails.append(Failure("B:wrong-values-after-retry", detail + f" got {np.asarray(r)!r}"))
            if injected != f or ok_access != base_access:
                fails.append(Failure("B:unexpected-access-count", detail + f" (expected {f} injected, {base_access} successful)"))
            # one task-end notification per task of every operation
            exp = counter.expected
            if exp:
                bad = {k: (counter.ends.get(k, 0), v) for k, v in exp.items() if counter.ends.get(k, 0) != v}
                if bad:
                    fails.append(Failure("B:task-end-count-differs-from-plan", detail + f" (got, expected) per op: {bad}"))
                labels.add("B:task-end-counted")
    else:
        labels.add("B:expect-raise")
        if st == "ok":
            fails.append(Failure("B:exhausted-fault-not-surfaced", detail + f" compute returned {np.asarray(r)!r}"))
        elif not isinstance(r, OSError):
            fails.append(Failure(f"B:wrong-error-type:{type(r).__name__}", detail + f" raised {r!r} instead of the injected OSError"))
        else:
            if not isinstance(r, InjectedIOError):
                labels.add("B:oserror-subclass-other")
            if injected != rt + 1:
                fails.append(Failure("B:attempts-not-retries+1", detail + f" (expected exactly {rt + 1} attempt(s) on the key)"))
    return Outcome(nontrivial=f > 0, labels=tuple(sorted(labels)), failures=tuple(fails))


def fault_cases():
    from hypothesis import strategies as st

    @st.composite
    def gen(draw):
        rt = draw(st.sampled_from([0, 0, 1, 2, 2]))
        via = draw(st.sampled_from(["executor", "compute"] + (["default"] if rt == 2 else [])))
        # fault counts around the budget boundary: last allowed attempt succeeds / budget just exhausted
        f = draw(st.sampled_from([0, rt, rt, rt + 1, rt + 1, rt + 2]))
        return {
            "kind": "fault",
            "prog": draw(st.sampled_from(PROGS)),
            "op": draw(st.sampled_from(["get", "set"])),
            "key_index": draw(st.integers(0, 11)),
            "f": f,
            "retries": rt,
            "retries_via": via,
            "optimize_graph": draw(st.booleans()),
            "batch_size": draw(st.sampled_from([None, None, 2])),
            "in_loop": draw(st.sampled_from([False, False, True])),
        }

    return gen()


# --------------------------------------------------------------------------- shards
def check_case(case) -> Outcome:
    k = case.get("kind")
    if k == "script":
        return check_script(case)
    if k == "fault":
        return check_fault(case)
    raise core.HarnessError(f"unknown kind {k}")


def shards(tier):
    if tier == "quick":
        out = [{"kind": "script", "name": f"mixed{i}", "profile": "mixed", "n": 1500} for i in range(3)]
        out += [{"kind": "script", "name": f"backups{i}", "profile": "backups", "n": 1500} for i in range(3)]
        out += [{"kind": "script", "name": "nobackups0", "profile": "nobackups", "n": 1200}]
        out += [{"kind": "fault", "name": "fault0", "n": 24}]
        # seed-independent floor: one scripted input + fillers, all 3x3 x 3x3 scripts, reduced option set
        out += [{"kind": "enum", "name": "enum-quick", "slices": [{"m": 1, "retries": r, "use_backups": True, "reduced": True} for r in (0, 1, 2)]}]
        return out
    out = [{"kind": "script", "name": f"mixed{i}", "profile": "mixed", "n": 40000} for i in range(5)]
    out += [{"kind": "script", "name": f"backups{i}", "profile": "backups", "n": 40000} for i in range(5)]
    out += [{"kind": "script", "name": f"nobackups{i}", "profile": "nobackups", "n": 25000} for i in range(2)]
    out += [{"kind": "fault", "name": f"fault{i}", "n": 150} for i in range(4)]
    sl = sorted(enumerate(enum_slices()), key=lambda t: (-t[1]["m"] * (2 if t[1]["use_backups"] else 1), t[0]))  # big slices first
    out += [{"kind": "enum", "name": f"enum{i}", "slice": s} for i, s in sl]
    return out


def run_shard(spec, seed, tier) -> Acc:
    acc = Acc()
    if spec["kind"] == "__corpus__":
        return core.corpus_shard(sys.modules[__name__], acc)
    is_known, _ = core.known_matcher(ID)
    if spec["kind"] == "enum":
        n = 0
        slices = spec.get("slices") or [spec["slice"]]
        for case in itertools.chain.from_iterable(enum_slice_cases(sl) for sl in slices):
            try:
                out = check_script(case)
            except Exception as e:  # harness bug, never a violation
                acc.errors.append(f"enum harness exception: {e!r}")
                continue
            acc.evaluations += 1
            if out.nontrivial:
                acc.nt.add(core.case_hash(case))
                if len(acc.samples) < 1:
                    acc.samples.append(case)
            for lab in out.labels:
                acc.labels[lab] += 1
            for f in out.all_failures():
                acc.add_failure(case, f)
            n += 1
        acc.bump("enumerated_scripts", n)
        if tier != "thorough":
            acc.extra["enumerated_domain_quick"] = f"{N0} fast fillers + 1 scripted input (last), 3x3 x 3x3 scripts, retries {{0,1,2}}, backups on, batch_size {{None,10}}, 2 same-round orders"
            return acc
        acc.exhaustive = True
        acc.extra["enumerated_domain"] = (
            f"{N0} fast fillers + m scripted inputs (first or last positions), each with original and backup script over "
            "{fast,tie,20x} x {0,retries,retries+1 failures}; m in {1,2}: retries {0,1,2} x use_backups x batch_size "
            "{None,5,10,n,n+3} x 4 same-round orders x list/iterator, enumerated completely; m=3: without backups completely, "
            "with backups all 9^6 scripts for retries=1 under (batch_size None, original first) and (batch_size 10, backup first)"
        )
        return acc
    if spec["kind"] == "fault":
        def body(case):
            out = check_fault(case)
            if "B:inconclusive-watchdog" in out.labels:
                # a budget hit is inconclusive, never a violation and never a harness error (a loaded machine must not
                # turn the check red): it is only counted
                acc.bump("tierB_watchdog_expired_inconclusive")
            return out

        core.hyp_run(fault_cases(), body, seed=seed, max_examples=spec["n"], acc=acc,
                     budget_s=100 if tier == "quick" else 1800, shrink=False, is_known=is_known)
        return acc
    core.hyp_run(script_cases(spec.get("profile", "mixed")), check_script, seed=seed, max_examples=spec["n"], acc=acc,
                 budget_s=150 if tier == "quick" else 2400, shrink=(tier == "thorough"), is_known=is_known)
    return acc


def replay(case):
    return check_case(case).all_failures()
