"""Runner core: seeds, sharding, accumulation, evidence, known findings, replay files.

A *check module* (vp/cNN.py) exposes

    ID, LEVEL, RULE, ASSUMPTIONS
    shards(tier) -> list[dict]          picklable shard specs (each has "kind")
    run_shard(spec, seed, tier) -> Acc  executed in a worker process
    replay(case) -> Failure | None      re-execute one saved case, no Hypothesis

Failures are never raised out of a test body: they are collected into buckets
(root-cause keys), the smallest case per bucket is kept, and (thorough tier) each
new bucket is shrunk by re-running the same seeded strategy with a body that raises
only for that bucket.
"""
from __future__ import annotations

import concurrent.futures as cf
import hashlib
import importlib
import json
import multiprocessing as mp
import os
import re
import sys
import time
import traceback
from collections import Counter
from dataclasses import dataclass, field
from pathlib import Path
from typing import Any, Callable, Optional

ROOT = Path(__file__).resolve().parent.parent
KNOWN_FILE = ROOT / "KNOWN_FINDINGS.txt"
CORPUS = ROOT / "corpus"
EVIDENCE = ROOT / "evidence"
REPLAYS = ROOT / "replays"


# --------------------------------------------------------------------------- seeds
def verif_seed() -> int:
    try:
        return int(os.environ.get("VERIF_SEED", "1"))
    except ValueError:
        return 1


def derive_seed(*parts) -> int:
    h = hashlib.sha256(repr(parts).encode()).digest()
    return int.from_bytes(h[:8], "big") >> 1


def canon(case) -> str:
    return json.dumps(case, sort_keys=True, default=_json_default, separators=(",", ":"))


def _json_default(o):
    import numpy as np

    if isinstance(o, (np.integer,)):
        return int(o)
    if isinstance(o, (np.floating,)):
        return float(o)
    if isinstance(o, (np.bool_,)):
        return bool(o)
    if isinstance(o, np.ndarray):
        return o.tolist()
    if isinstance(o, (set, frozenset)):
        return sorted(o)
    if isinstance(o, tuple):
        return list(o)
    if isinstance(o, complex):
        return {"complex": [o.real, o.imag]}
    if isinstance(o, bytes):
        return o.hex()
    return repr(o)


def case_hash(case) -> int:
    return int.from_bytes(hashlib.blake2b(canon(case).encode(), digest_size=8).digest(), "big")


# --------------------------------------------------------------------------- results
@dataclass
class Failure:
    bucket: str  # root-cause key (stable string)
    detail: str = ""


@dataclass
class Outcome:
    nontrivial: bool = False
    labels: tuple = ()
    failure: Optional[Failure] = None
    failures: tuple = ()  # additional failures (several invariants broken by one case)
    excluded: int = 0  # sub-steps skipped because they sit in a known-finding region

    def all_failures(self):
        out = []
        if self.failure is not None:
            out.append(self.failure)
        out.extend(self.failures)
        return out


class HarnessError(Exception):
    pass


@dataclass
class Acc:
    """Accumulator for one shard; merged in the parent."""

    evaluations: int = 0
    nt: set = field(default_factory=set)
    labels: Counter = field(default_factory=Counter)
    samples: list = field(default_factory=list)
    buckets: dict = field(default_factory=dict)  # bucket -> {"case","detail","count","size"}
    excluded: int = 0
    truncated: bool = False
    errors: list = field(default_factory=list)  # harness errors (strings)
    extra: dict = field(default_factory=dict)  # free-form counters (summed when ints)
    exhaustive: Optional[bool] = None
    max_samples: int = 6

    def observe(self, case, out: Outcome):
        self.evaluations += 1
        if out.nontrivial:
            self.nt.add(case_hash(case))
            if len(self.samples) < self.max_samples and (
                len(self.samples) < 2 or self.evaluations % 37 == 0
            ):
                self.samples.append(case)
        elif not self.samples and self.evaluations >= 3:
            self.samples.append(case)  # never leave the evidence without an example of what was explored
        for lab in out.labels:
            self.labels[lab] += 1
        self.excluded += out.excluded
        for f in out.all_failures():
            self.add_failure(case, f)

    def add_failure(self, case, f: Failure):
        size = len(canon(case))
        b = self.buckets.get(f.bucket)
        if b is None:
            self.buckets[f.bucket] = {"case": case, "detail": f.detail, "count": 1, "size": size}
        else:
            b["count"] += 1
            if size < b["size"]:
                b.update(case=case, detail=f.detail, size=size)

    def bump(self, key, n=1):
        self.extra[key] = self.extra.get(key, 0) + n

    def merge(self, other: "Acc"):
        self.evaluations += other.evaluations
        self.nt |= other.nt
        self.labels.update(other.labels)
        for s in other.samples:
            if len(self.samples) < 10:
                self.samples.append(s)
        for k, b in other.buckets.items():
            mine = self.buckets.get(k)
            if mine is None:
                self.buckets[k] = dict(b)
            else:
                mine["count"] += b["count"]
                if b["size"] < mine["size"]:
                    mine.update(case=b["case"], detail=b["detail"], size=b["size"])
        self.excluded += other.excluded
        self.truncated |= other.truncated
        self.errors.extend(other.errors)
        for k, v in other.extra.items():
            if k == "slowest_case_s":
                if v > self.extra.get(k, 0):
                    self.extra[k] = v
                    self.extra["slowest_case"] = other.extra.get("slowest_case")
            elif k == "slowest_case":
                pass
            elif isinstance(v, (int, float)) and isinstance(self.extra.get(k, 0), (int, float)):
                self.extra[k] = self.extra.get(k, 0) + v
            elif isinstance(v, dict):
                d = self.extra.setdefault(k, {})
                for kk, vv in v.items():
                    d[kk] = d.get(kk, 0) + vv if isinstance(vv, (int, float)) else vv
            else:
                self.extra.setdefault(k, v)
        if other.exhaustive is not None:
            self.exhaustive = other.exhaustive if self.exhaustive is None else (self.exhaustive and other.exhaustive)


# --------------------------------------------------------------------------- hypothesis driver
def hyp_run(
    strategy,
    body: Callable[[Any], Outcome],
    *,
    seed: int,
    max_examples: int,
    acc: Acc,
    budget_s: Optional[float] = None,
    shrink: bool = False,
    known: Optional[set] = None,
    is_known: Optional[Callable[[str], bool]] = None,
):
    """Phase A: collect (never raises). Phase B (shrink=True): per new bucket, re-run the
    same seeded strategy raising only for that bucket, keep the minimal failing case."""
    import hypothesis
    from hypothesis import HealthCheck, Phase, given, settings

    t0 = time.monotonic()
    base = dict(
        max_examples=max_examples,
        database=None,
        deadline=None,
        suppress_health_check=list(HealthCheck),
        report_multiple_bugs=False,
        verbosity=hypothesis.Verbosity.quiet,
    )

    def safe_body(case):
        try:
            return body(case)
        except HarnessError as e:
            acc.errors.append(f"HarnessError: {e}")
            return Outcome()
        except Exception as e:  # an exception escaping a body is a harness bug, never a violation
            acc.errors.append("harness exception: " + "".join(traceback.format_exception(e))[-1500:])
            return Outcome()

    @hypothesis.seed(seed)
    @settings(phases=[Phase.generate], **base)
    @given(strategy)
    def phase_a(case):
        if budget_s is not None and time.monotonic() - t0 > budget_s:
            acc.truncated = True
            return
        t1 = time.monotonic()
        acc.observe(case, safe_body(case))
        dt = time.monotonic() - t1
        if dt > acc.extra.get("slowest_case_s", 0):
            acc.extra["slowest_case_s"] = round(dt, 2)
            acc.extra["slowest_case"] = case

    phase_a()

    if not shrink:
        return
    for bucket in list(acc.buckets):
        if is_known is not None and is_known(bucket):
            continue
        last = {}

        class _Hit(Exception):
            pass

        tb = time.monotonic()

        @hypothesis.seed(seed)
        @settings(phases=[Phase.generate, Phase.shrink], **base)
        @given(strategy)
        def phase_b(case):
            if time.monotonic() - tb > 240:
                return
            out = safe_body(case)
            for f in out.all_failures():
                if f.bucket == bucket:
                    last["case"] = case
                    last["detail"] = f.detail
                    raise _Hit()

        try:
            phase_b()
        except _Hit:
            pass
        except Exception:
            pass
        if "case" in last:
            size = len(canon(last["case"]))
            b = acc.buckets[bucket]
            if size <= b["size"]:
                b.update(case=last["case"], detail=last["detail"], size=size, shrunk=True)


# --------------------------------------------------------------------------- known findings
@dataclass
class KnownEntry:
    status: str  # "known" | "fixed"
    prop: str
    key: str
    replay: str
    text: str


def load_known(prop: str) -> list[KnownEntry]:
    out = []
    if not KNOWN_FILE.exists():
        return out
    for line in KNOWN_FILE.read_text().splitlines():
        line = line.strip()
        if not line or line.startswith("#"):
            continue
        m = re.match(r"known:\s+property=(\S+)\s+key=(\S+)\s+replay=(\S+)\s+::\s+(.*)$", line)
        if m and m.group(1) == prop:
            out.append(KnownEntry("known", m.group(1), m.group(2), m.group(3), m.group(4)))
            continue
        m = re.match(r"fixed:\s+property=(\S+)\s+(\S+)\s+(.*)$", line)
        if m and m.group(1) == prop:
            out.append(KnownEntry("fixed", m.group(1), "", "", m.group(3)))
    return out


def known_matcher(prop: str):
    ks = [k for k in load_known(prop) if k.status == "known"]
    keys = {k.key for k in ks}

    def is_known(bucket: str) -> bool:
        return bucket in keys

    return is_known, ks


# --------------------------------------------------------------------------- running a check
def _worker(modname, spec, seed, tier):
    try:
        mod = importlib.import_module(modname)
        t0 = time.monotonic()
        acc = mod.run_shard(spec, seed, tier)
        acc.extra.setdefault("shard_wall", {})[spec.get("name", spec.get("kind", "?"))] = round(time.monotonic() - t0, 1)
        return acc
    except BaseException as e:  # noqa
        a = Acc()
        a.errors.append(f"shard {spec} crashed: " + "".join(traceback.format_exception(e))[-3000:])
        return a


def slug(s: str) -> str:
    return re.sub(r"[^A-Za-z0-9_.-]+", "_", s)[:80]


def write_replay(prop, bucket, b, seed, tier) -> str:
    d = REPLAYS / prop
    d.mkdir(parents=True, exist_ok=True)
    h = hashlib.sha1(canon(b["case"]).encode()).hexdigest()[:10]
    p = d / f"{slug(bucket)}-{h}.json"
    p.write_text(
        json.dumps(
            {
                "property": prop,
                "bucket": bucket,
                "detail": b.get("detail", ""),
                "count": b.get("count", 1),
                "shrunk": bool(b.get("shrunk")),
                "seed": seed,
                "tier": tier,
                "case": b["case"],
            },
            indent=1,
            default=_json_default,
        )
    )
    return str(p.relative_to(ROOT))


def run_check(mod, tier: str, workers: Optional[int] = None) -> int:
    prop = mod.ID
    seed = verif_seed()
    t0 = time.monotonic()
    is_known, known_entries = known_matcher(prop)
    specs = list(mod.shards(tier))
    # corpus replay is shard 0 (runs in a worker so the parent never touches zarr/asyncio)
    specs.insert(0, {"kind": "__corpus__", "name": "corpus"})
    if workers is None:
        workers = int(os.environ.get("VERIF_WORKERS", "0")) or (min(16, os.cpu_count() or 4) if tier == "thorough" else min(8, os.cpu_count() or 4))
    total = Acc()
    ctx = mp.get_context("spawn")
    with cf.ProcessPoolExecutor(max_workers=workers, mp_context=ctx) as pool:
        futs = []
        for i, spec in enumerate(specs):
            s = derive_seed(seed, prop, spec.get("name", spec.get("kind")), i)
            futs.append(pool.submit(_worker, mod.__name__, spec, s, tier))
        for f in futs:
            try:
                total.merge(f.result())
            except BaseException as e:  # worker died
                total.errors.append(f"worker died: {e!r}")

    violations = []
    known_hits = []
    for bucket, b in sorted(total.buckets.items()):
        if is_known(bucket):
            known_hits.append((bucket, b))
        else:
            violations.append((bucket, b))

    for k in known_entries:
        hit = [b for (bk, b) in known_hits if bk == k.key]
        if hit:
            print(f"KNOWN-FINDING: property={prop} {k.text} [key={k.key} occurrences={hit[0]['count']}]")
    for bucket, b in violations:
        path = write_replay(prop, bucket, b, seed, tier)
        print(f"VIOLATION property={prop} replay={path}")
        print(f"  bucket={bucket} count={b['count']} detail={str(b.get('detail',''))[:400]}")

    wall = time.monotonic() - t0
    cov = {
        "evaluations": total.evaluations,
        "distinct_nontrivial": len(total.nt),
        "rule": mod.RULE,
        "samples": total.samples[:10],
        "class_histogram": dict(sorted(total.labels.items(), key=lambda kv: -kv[1])[:120]),
        "excluded_by_known_finding": total.excluded,
        "known_findings_reproduced": [bk for bk, _ in known_hits],
        "truncated": total.truncated,
        "workers": workers,
        "shards": len(specs),
    }
    if total.exhaustive is not None:
        cov["exhaustive"] = bool(total.exhaustive)
    for k, v in total.extra.items():
        cov.setdefault(k, v)
    ev = {
        "property_id": prop,
        "tier": tier,
        "seed": seed,
        "level": mod.LEVEL,
        "coverage": cov,
        "assumptions": list(getattr(mod, "ASSUMPTIONS", [])),
        "wall_s": round(wall, 2),
        "violations": len(violations),
    }
    if total.errors:
        ev["coverage"]["harness_errors"] = total.errors[:5]
    EVIDENCE.mkdir(exist_ok=True)
    (EVIDENCE / f"{prop}.json").write_text(json.dumps(ev, indent=1, default=_json_default))
    print(
        f"{prop} {tier} seed={seed}: evaluations={total.evaluations} distinct_nontrivial={len(total.nt)} "
        f"violations={len(violations)} known={len(known_hits)} excluded={total.excluded} "
        f"truncated={total.truncated} wall={wall:.1f}s"
    )
    if violations:
        return 1
    if total.errors:
        print("HARNESS ERROR(S):", file=sys.stderr)
        for e in total.errors[:5]:
            print(e, file=sys.stderr)
        return 2
    return 0


def corpus_shard(mod, acc: Acc):
    """Replay every committed corpus case of this property."""
    d = CORPUS / mod.ID
    if not d.is_dir():
        return acc
    for p in sorted(d.glob("*.json")):
        try:
            rec = json.loads(p.read_text())
            case = rec["case"] if "case" in rec else rec
            fails = mod.replay(case)
        except Exception as e:
            acc.errors.append(f"corpus {p.name}: " + "".join(traceback.format_exception(e))[-1500:])
            continue
        acc.bump("corpus_replayed")
        if fails is None:
            fails = []
        elif isinstance(fails, Failure):
            fails = [fails]
        for f in fails:
            acc.add_failure(case, f)
    return acc


def replay_file(mod, path: str) -> int:
    rec = json.loads(Path(path).read_text())
    case = rec["case"] if "case" in rec else rec
    fails = mod.replay(case)
    if fails is None:
        fails = []
    elif isinstance(fails, Failure):
        fails = [fails]
    is_known, _ = known_matcher(mod.ID)
    rc = 0
    for f in fails:
        if is_known(f.bucket):
            print(f"KNOWN-FINDING: property={mod.ID} key={f.bucket} {f.detail[:300]}")
        else:
            print(f"VIOLATION property={mod.ID} replay={path}")
            print(f"  bucket={f.bucket} detail={f.detail[:600]}")
            rc = 1
    if not fails:
        print(f"{mod.ID}: replay of {path} holds")
    return rc
