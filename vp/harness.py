"""Observation harness built on cubed's public extension points: a tracing zarr store wrapper, a schedule-owning
DagExecutor, a recording executor wrapper and a recording Callback. No cubed source hooks."""
from __future__ import annotations

import contextvars
import hashlib
import os
import threading
import time
import traceback
from dataclasses import dataclass, field
from typing import Any, Callable, Optional

import numpy as np
from zarr.storage import MemoryStore, WrapperStore

from cubed.runtime.pipeline import visit_nodes
from cubed.runtime.types import Callback, DagExecutor, TaskEndEvent
from cubed.runtime.utils import handle_operation_end_callbacks, handle_operation_start_callbacks

CUR_TASK = contextvars.ContextVar("vp_cur_task", default=None)


class Crash(Exception):
    """Injected crash (C09)."""


class InjectedIOError(OSError):
    """Injected storage fault (C08)."""


def is_chunk_key(key: str) -> bool:
    parts = key.split("/")
    return "c" in parts[1:] or parts[-1] == "c" or (len(parts) >= 2 and parts[-2] == "c")


def split_key(key: str):
    """-> (array path, 'meta' | chunk-coords tuple)."""
    parts = key.split("/")
    if "c" in parts:
        i = len(parts) - 1 - parts[::-1].index("c")
        # zarr v3 default chunk key encoding: <path>/c/<i>/<j>...; 0-d arrays: <path>/c
        coords = tuple(int(p) for p in parts[i + 1:] if p.lstrip("-").isdigit())
        if len(coords) == len(parts) - i - 1:
            return "/".join(parts[:i]), coords
    if parts[-1] == "zarr.json":
        return "/".join(parts[:-1]), "meta"
    return key, "other"


class TraceState:
    def __init__(self):
        self.log = []  # (seq, op, key, task, info)
        self.lock = threading.Lock()
        self.nsets = 0
        self.crash_at_set = None  # raise Crash on the n-th chunk set (1-based)
        self.faults = {}  # (op, key) -> remaining failures
        self.fault_count = {}
        self.latency = None  # callable(key) -> seconds (set latency)
        self.enabled = True

    def add(self, op, key, info=None):
        if not self.enabled:
            return
        with self.lock:
            self.log.append((len(self.log), op, key, CUR_TASK.get(), info, time.monotonic_ns()))

    def clear(self):
        with self.lock:
            self.log.clear()

    # queries
    def writes(self):
        return [r for r in self.log if r[1] in ("set", "set_if_not_exists", "delete", "delete_dir")]

    def chunk_sets(self):
        return [r for r in self.log if r[1] == "set" and is_chunk_key(r[2])]

    def chunk_gets(self):
        return [r for r in self.log if r[1] == "get" and is_chunk_key(r[2])]


class TraceStore(WrapperStore):
    """zarr Store wrapper recording every access (async paths only)."""

    _supports_sync_io = False

    def __init__(self, store=None, state: Optional[TraceState] = None):
        super().__init__(store if store is not None else MemoryStore())
        self.state = state if state is not None else TraceState()

    def _with_store(self, store):
        return type(self)(store, self.state)

    def with_read_only(self, read_only: bool = False):
        return type(self)(self._store.with_read_only(read_only), self.state)

    def _fault(self, op, key):
        st = self.state
        k = (op, key)
        if k in st.faults and st.faults[k] > 0:
            st.faults[k] -= 1
            st.fault_count[k] = st.fault_count.get(k, 0) + 1
            st.add("fault-" + op, key)
            raise InjectedIOError(f"injected {op} fault on {key}")

    async def get(self, key, prototype, byte_range=None):
        self._fault("get", key)
        r = await self._store.get(key, prototype, byte_range)
        self.state.add("get", key, r is not None)
        return r

    async def get_partial_values(self, prototype, key_ranges):
        key_ranges = list(key_ranges)
        r = await self._store.get_partial_values(prototype, key_ranges)
        for (k, _), v in zip(key_ranges, r):
            self.state.add("get", k, v is not None)
        return r

    async def set(self, key, value):
        st = self.state
        if is_chunk_key(key):
            with st.lock:
                st.nsets += 1
                n = st.nsets
            if st.crash_at_set is not None and n == st.crash_at_set:
                st.add("crash", key)
                raise Crash(f"crash at chunk set #{n} ({key})")
            self._fault("set", key)
            if st.latency is not None:
                import asyncio

                d = st.latency(key)
                if d:
                    st.add("set-start", key)
                    await asyncio.sleep(d)
        h = hashlib.sha1(value.to_bytes()).hexdigest()[:16] if st.enabled else None
        r = await self._store.set(key, value)
        st.add("set", key, h)
        return r

    async def set_if_not_exists(self, key, value):
        r = await self._store.set_if_not_exists(key, value)
        self.state.add("set_if_not_exists", key)
        return r

    async def delete(self, key):
        self.state.add("delete", key)
        return await self._store.delete(key)

    async def delete_dir(self, prefix):
        self.state.add("delete_dir", prefix)
        return await self._store.delete_dir(prefix)

    async def exists(self, key):
        r = await self._store.exists(key)
        self.state.add("exists", key, r)
        return r

    def __eq__(self, other):
        return isinstance(other, TraceStore) and self._store == other._store


class FileTraceStore(WrapperStore):
    """Picklable tracing wrapper for runs whose tasks execute in other processes (the processes executor): every access is
    appended to <logdir>/<pid>.log as one JSON line with CLOCK_MONOTONIC timestamps (system-wide on Linux, so lines of
    different processes are comparable).  A `get` is stamped BEFORE the wrapped store is asked, a `set` AFTER the wrapped
    store has returned, so `get.t < set.t` for one key means the read was issued before the write had completed.
    Chunk writes are delayed by a key-dependent latency (a pure function of lat_seed and key)."""

    _supports_sync_io = False

    def __init__(self, store, logdir, lat_seed=None, lat_ms=5, lat_levels=6):
        super().__init__(store)
        self.logdir = logdir
        self.lat_seed = lat_seed
        self.lat_ms = lat_ms
        self.lat_levels = lat_levels
        os.makedirs(logdir, exist_ok=True)

    def _with_store(self, store):
        return type(self)(store, self.logdir, self.lat_seed, self.lat_ms, self.lat_levels)

    def with_read_only(self, read_only: bool = False):
        return type(self)(self._store.with_read_only(read_only), self.logdir, self.lat_seed, self.lat_ms, self.lat_levels)

    def _log(self, op, key, info=None, t=None):
        import json

        line = json.dumps([t if t is not None else time.monotonic_ns(), os.getpid(), op, key, info])
        try:
            with open(os.path.join(self.logdir, f"{os.getpid()}.log"), "a") as f:
                f.write(line + "\n")
        except OSError:
            pass  # the case is over and its scratch directory is gone (a straggling access of an abandoned task)

    def _latency(self, key):
        if self.lat_seed is None:
            return 0.0
        h = hashlib.blake2b(f"{self.lat_seed}:{key}".encode(), digest_size=2).digest()
        return (h[0] % self.lat_levels) * self.lat_ms / 1000.0

    async def get(self, key, prototype, byte_range=None):
        t = time.monotonic_ns()
        r = await self._store.get(key, prototype, byte_range)
        self._log("get", key, r is not None, t)
        return r

    async def get_partial_values(self, prototype, key_ranges):
        key_ranges = list(key_ranges)
        t = time.monotonic_ns()
        r = await self._store.get_partial_values(prototype, key_ranges)
        for (k, _), v in zip(key_ranges, r):
            self._log("get", k, v is not None, t)
        return r

    async def set(self, key, value):
        if is_chunk_key(key):
            d = self._latency(key)
            if d:
                import asyncio

                self._log("set-start", key)
                await asyncio.sleep(d)
        r = await self._store.set(key, value)
        self._log("set", key)
        return r

    async def set_if_not_exists(self, key, value):
        r = await self._store.set_if_not_exists(key, value)
        self._log("set_if_not_exists", key)
        return r

    async def delete(self, key):
        self._log("delete", key)
        return await self._store.delete(key)

    async def delete_dir(self, prefix):
        self._log("delete_dir", prefix)
        return await self._store.delete_dir(prefix)

    def __eq__(self, other):
        return isinstance(other, FileTraceStore) and self._store == other._store and self.logdir == other.logdir


def read_file_trace(logdir):
    """-> list of (t_ns, pid, op, key, info), merged over all processes and sorted by time."""
    import glob
    import json

    out = []
    for fn in glob.glob(os.path.join(logdir, "*.log")):
        with open(fn) as f:
            for line in f:
                line = line.strip()
                if line:
                    out.append(tuple(json.loads(line)))
    out.sort(key=lambda r: r[0])
    return out


# --------------------------------------------------------------------------- callbacks
class RecordingCallback(Callback):
    def __init__(self):
        self.events = []
        self.lock = threading.Lock()

    def _add(self, *e):
        with self.lock:
            self.events.append(e)

    def on_compute_start(self, event):
        self._add("compute_start", None, getattr(event, "plan", None))

    def on_compute_end(self, event):
        self._add("compute_end", None)

    def on_operation_start(self, event):
        self._add("operation_start", event.name)

    def on_operation_end(self, event):
        self._add("operation_end", event.name)

    def on_task_end(self, event):
        self._add("task_end", event.name, event.num_tasks)


# --------------------------------------------------------------------------- executors
class RecordingExecutor(DagExecutor):
    """Wraps a real executor; records whether (and how often) execution was entered."""

    def __init__(self, inner: DagExecutor):
        super().__init__()
        self.inner = inner
        self.entered = 0

    @property
    def name(self):
        return self.inner.name

    def execute_dag(self, dag, **kwargs):
        self.entered += 1
        return self.inner.execute_dag(dag, **kwargs)


class CountingExecutor(DagExecutor):
    """Wraps a real in-process executor (single-threaded, threads): every pipeline of the DAG handed to it is replaced by a
    copy whose task function counts its invocations per operation, so 'tasks actually run' is observed at the task body,
    independently of the callbacks the executor chooses to deliver."""

    def __init__(self, inner: DagExecutor):
        super().__init__()
        self.inner = inner
        self.entered = 0
        self.calls = {}  # op name -> [repr(task input), ...]
        self.lock = threading.Lock()

    @property
    def name(self):
        return self.inner.name

    def execute_dag(self, dag, **kwargs):
        import dataclasses

        self.entered += 1
        dag = dag.copy()
        for n, d in dag.nodes(data=True):
            pl = d.get("pipeline")
            if pl is None:
                continue

            def counted(m, *a, __f=pl.function, __n=n, **k):
                with self.lock:
                    self.calls.setdefault(__n, []).append(repr(m))
                return __f(m, *a, **k)

            d["pipeline"] = dataclasses.replace(pl, function=counted)
        return self.inner.execute_dag(dag, **kwargs)


class NeverExecutor(DagExecutor):
    def __init__(self):
        super().__init__()
        self.entered = 0

    @property
    def name(self):
        return "vp-never"

    def execute_dag(self, dag, **kwargs):
        self.entered += 1
        raise AssertionError("vp: execution entered although it must not")


@dataclass
class Schedule:
    """What the case decides about one execution."""

    perm_seed: Optional[int] = None  # permute tasks of each op deterministically from this seed
    duplicates: dict = field(default_factory=dict)  # (op_index, task_index) -> "now" | "after-op" | "end"
    dup_list: list = field(default_factory=list)  # [(op selector, task selector, timing)]: selectors are taken modulo the actual counts
    crash_before_task: Optional[int] = None  # global task counter (0-based): raise Crash before running it
    pickle_mode: Optional[str] = None  # None | "roundtrip"
    check_block_shapes: bool = False
    measure_mem: bool = False


def _perm(n, seed):
    # deterministic permutation from a seed without any RNG state: sort by hash
    return sorted(range(n), key=lambda i: hashlib.blake2b(f"{seed}:{i}".encode(), digest_size=8).digest())


class BlockShapeError(Exception):
    pass


class _CheckingArr:
    def __init__(self, arr, name, owner):
        self._a = arr
        self._name = name
        self._owner = owner

    def __getattr__(self, k):
        return getattr(self._a, k)

    def _sel_shape(self, sel):
        if not isinstance(sel, tuple):
            sel = (sel,)
        shp = []
        for s, n in zip(sel, self._a.shape):
            if isinstance(s, slice):
                start, stop, step = s.indices(n)
                shp.append(max(0, (stop - start + (step - 1)) // step))
            else:
                return None
        if len(sel) != len(self._a.shape):
            return None
        return tuple(shp)

    def _check(self, sel, value, fields=None):
        exp = self._sel_shape(sel)
        if exp is None:
            return
        vs = tuple(np.shape(value))
        if int(np.prod(exp)) == 0 and int(np.prod(vs)) == 0:
            self._owner.shape_checks_exempt += 1
            return
        self._owner.shape_checks += 1
        if vs != exp:
            self._owner.shape_errors.append((self._name, CUR_TASK.get(), vs, exp))

    def __setitem__(self, sel, value):
        self._check(sel, value)
        self._a[sel] = value

    def set_basic_selection(self, sel, value, fields=None):
        self._check(sel, value, fields)
        return self._a.set_basic_selection(sel, value, fields=fields)

    def __getitem__(self, sel):
        return self._a[sel]


class _CheckingProxy:
    """Stands in for a CubedArrayProxy in BlockwiseSpec.writes_map."""

    def __init__(self, proxy, name, owner):
        self._p = proxy
        self._name = name
        self._owner = owner
        self.chunks = proxy.chunks
        self.array = proxy.array

    def open(self):
        return _CheckingArr(self._p.open(), self._name, self._owner)

    def __getattr__(self, k):
        return getattr(self._p, k)


class ScheduleExecutor(DagExecutor):
    """Sequential executor in which the *case* owns the schedule. Task bodies are cubed's own
    (pipeline.function(m, config=pipeline.config)); nothing is re-implemented."""

    def __init__(self, schedule: Optional[Schedule] = None):
        super().__init__()
        self.s = schedule or Schedule()
        self.entered = 0
        self.tasks_run = []  # (op name, repr(task input))
        self.ops_run = []
        self.task_counter = 0
        self.shape_errors = []
        self.shape_checks = 0
        self.shape_checks_exempt = 0
        self.mem = []  # (op, task, peak bytes)
        self.after_hooks = []

    @property
    def name(self):
        return "vp-schedule"

    def _config(self, pipeline):
        cfg = pipeline.config
        if self.s.check_block_shapes and hasattr(cfg, "writes_map"):
            import dataclasses

            cfg = dataclasses.replace(cfg, writes_map={k: _CheckingProxy(v, k, self) for k, v in cfg.writes_map.items()})
        return cfg

    def _call(self, pipeline, m, cfg, name):
        fn = pipeline.function
        ext = getattr(self, "external_call", None)
        if ext is not None:
            # placement independence: the task runs somewhere else from its serialized form
            return ext(fn, m, pipeline.config)
        if self.s.pickle_mode == "roundtrip":
            import cloudpickle

            fn, m2, cfg2 = cloudpickle.loads(cloudpickle.dumps((fn, m, pipeline.config)))
            if self.s.check_block_shapes and hasattr(cfg2, "writes_map"):
                import dataclasses

                cfg2 = dataclasses.replace(cfg2, writes_map={k: _CheckingProxy(v, k, self) for k, v in cfg2.writes_map.items()})
            m, cfg = m2, cfg2
        tok = CUR_TASK.set((name, repr(m)))
        try:
            if self.s.measure_mem:
                import gc
                import tracemalloc

                gc.collect()
                tracemalloc.start()
                base = tracemalloc.get_traced_memory()[0]
                tracemalloc.reset_peak()
                try:
                    r = fn(m, config=cfg)
                finally:
                    peak = tracemalloc.get_traced_memory()[1]
                    tracemalloc.stop()
                self.mem.append((name, repr(m), peak - base))
                return r
            return fn(m, config=cfg)
        finally:
            CUR_TASK.reset(tok)

    def execute_dag(self, dag, callbacks=None, spec=None, compute_id=None, **kwargs):
        self.entered += 1
        end_dups = []
        nodes_list = list(visit_nodes(dag))
        nops = len(nodes_list)
        for op_index, (name, node) in enumerate(nodes_list):
            handle_operation_start_callbacks(callbacks, name)
            pipeline = node["pipeline"]
            tasks = list(pipeline.mappable)
            order = list(range(len(tasks)))
            if self.s.perm_seed is not None:
                order = _perm(len(tasks), f"{self.s.perm_seed}:{op_index}")
            cfg = self._config(pipeline)
            self.ops_run.append(name)
            after_op = []
            dmap = dict()
            for (osel, tsel, timing) in self.s.dup_list:
                if nops and len(tasks) and osel % nops == op_index:
                    dmap[tsel % len(tasks)] = timing
            for ti in order:
                m = tasks[ti]
                if self.s.crash_before_task is not None and self.task_counter == self.s.crash_before_task:
                    raise Crash(f"crash before task #{self.task_counter} ({name}, {m!r})")
                self.task_counter += 1
                result = self._call(pipeline, m, cfg, name)
                self.tasks_run.append((name, repr(m)))
                if callbacks is not None:
                    event = TaskEndEvent(name=name, result=result)
                    for cb in callbacks:
                        cb.on_task_end(event)
                d = self.s.duplicates.get((op_index, ti)) or self.s.duplicates.get(f"{op_index}:{ti}") or dmap.get(ti)
                if d == "now":
                    self._call(pipeline, m, cfg, name)
                    self.tasks_run.append((name, repr(m) + "#dup-now"))
                elif d == "after-op":
                    after_op.append((pipeline, m, cfg, name))
                elif d == "end":
                    end_dups.append((pipeline, m, cfg, name))
            for (p, m, c, n) in after_op:
                self._call(p, m, c, n)
                self.tasks_run.append((n, repr(m) + "#dup-after-op"))
            handle_operation_end_callbacks(callbacks, name)
        for (p, m, c, n) in end_dups:
            self._call(p, m, c, n)
            self.tasks_run.append((n, repr(m) + "#dup-end"))


def make_executor(name: str, **opts):
    from cubed.runtime.create import create_executor

    if name == "schedule":
        return ScheduleExecutor(opts.get("schedule"))
    if name in ("threads", "processes"):
        o = {"max_workers": opts.get("max_workers", 2)}
        for k in ("retries", "use_backups", "batch_size", "compute_arrays_in_parallel"):
            if k in opts:
                o[k] = opts[k]
        return create_executor(name, o)
    return create_executor(name)


# --------------------------------------------------------------------------- running programs
@dataclass
class RunResult:
    phase: Optional[str] = None  # None = success; "build" | "plan" | "execute"
    exc_type: Optional[str] = None
    exc_msg: str = ""
    where: str = ""  # innermost cubed frame
    results: Optional[list] = None  # numpy arrays for the requested outputs
    arrays: Optional[list] = None  # cubed arrays (all nodes)
    plan: Any = None
    entered: int = 0
    node_index: Optional[int] = None  # node at which building failed
    exc: Any = None


def _where(e) -> str:
    tb = traceback.extract_tb(e.__traceback__)
    fr = [f for f in tb if "/cubed/" in f.filename and "/tests/" not in f.filename]
    if not fr:
        return "?"
    f = fr[-1]
    return f"{f.filename.split('/cubed/', 1)[-1]}:{f.name}"


def _is_memory_refusal(e) -> bool:
    return isinstance(e, ValueError) and "exceeds allowed_mem" in str(e)


def run_program(prog, spec, *, executor=None, optimize_graph=True, optimize_function=None, callbacks=None,
                ctx=None, compute_kwargs=None, outputs=None) -> RunResult:
    import warnings

    import cubed
    from vp.prog import build_cubed

    rr = RunResult()
    outs_ids = outputs if outputs is not None else prog["outputs"]
    with warnings.catch_warnings():
        warnings.simplefilter("ignore")
        try:
            arrs = build_cubed(prog, spec, ctx)
        except Exception as e:
            rr.phase, rr.exc_type, rr.exc_msg, rr.where = "build", type(e).__name__, str(e)[:300], _where(e)
            rr.exc = e
            rr.node_index = getattr(e, "vp_node_index", None)
            rr.arrays = getattr(e, "vp_partial", None)
            return rr
        rr.arrays = arrs
        outs = [arrs[i] for i in outs_ids]
        kw = dict(optimize_graph=optimize_graph)
        if optimize_function is not None:
            kw["optimize_function"] = optimize_function
        try:
            fp = cubed.plan(*outs, **kw)
            rr.plan = fp
            fp.validate()
        except Exception as e:
            rr.phase, rr.exc_type, rr.exc_msg, rr.where = "plan", type(e).__name__, str(e)[:300], _where(e)
            rr.exc = e
            return rr
        rec = RecordingExecutor(executor) if executor is not None and not isinstance(executor, (ScheduleExecutor,)) else executor
        try:
            res = cubed.compute(*outs, executor=rec, callbacks=callbacks, **kw, **(compute_kwargs or {}))
            rr.results = [np.asarray(r) for r in res]
        except Exception as e:
            entered = getattr(rec, "entered", 0)
            rr.phase = "execute" if entered else "plan"
            rr.exc_type, rr.exc_msg, rr.where = type(e).__name__, str(e)[:300], _where(e)
            rr.exc = e
        rr.entered = getattr(rec, "entered", 0)
    return rr
