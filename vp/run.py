"""CLI: python -m vp.run <ID> --tier quick|thorough [--replay file] [--workers N]"""
import argparse
import importlib
import os
import sys
import traceback

import vp  # noqa: F401  (path set-up)
from vp import core


def main(argv=None):
    ap = argparse.ArgumentParser()
    ap.add_argument("prop")
    ap.add_argument("--tier", default=os.environ.get("VERIF_TIER", "quick"), choices=["quick", "thorough"])
    ap.add_argument("--replay")
    ap.add_argument("--workers", type=int)
    a = ap.parse_args(argv)
    try:
        mod = importlib.import_module(f"vp.{a.prop.lower()}")
    except Exception:
        traceback.print_exc()
        return 2
    try:
        if a.replay:
            return core.replay_file(mod, a.replay)
        return core.run_check(mod, a.tier, a.workers)
    except SystemExit:
        raise
    except BaseException:
        traceback.print_exc()
        return 2


if __name__ == "__main__":
    sys.exit(main())
