"""C17 — unsupported requests are refused up front; accepted plans do not fail mid-run.

Shares the C01 program stream (every decline and every execution failure there is classified here) plus a
decline-biased stream (degenerate shapes, many one-element chunks, mismatched chunkings, scans over many chunks)."""
from __future__ import annotations

import sys

import numpy as np

import vp  # noqa
from vp import c01, core, prog as P
from vp.core import Acc, Failure, Outcome

ID = "C17"
LEVEL = "exploration"
RULE = (
    "Programs from the C01 generator (NumPy-valid by construction: every step was evaluated by NumPy while generating) plus a "
    "decline-biased profile (0-d and size-0 inputs, up to 12 one-element chunks along an axis, scans/reductions/linalg/reshape/"
    "concat/stack weighted up). Each is built, planned (plan + validate) and executed on a fault-free in-memory store with a "
    "recording executor, so the phase of any exception is known. Allowed: success, or ValueError/TypeError/NotImplementedError/"
    "IndexError (incl. subclasses) raised while building or planning. Violation: any other exception type in build/plan, or any "
    "exception after execution was entered. Non-trivial = the program was declined or failed (the interesting class) or has a "
    "multi-block input; distinct = canonical JSON."
)
ASSUMPTIONS = [
    "storage is a fault-free in-memory zarr store; executors: schedule-permuting sequential, single-threaded, threads",
    "expressions NumPy itself rejects are outside the domain; a memory refusal (ValueError from validate) is a legitimate refusal",
]

ALLOWED = (ValueError, TypeError, NotImplementedError, IndexError)


def classify(case, vals, rr):
    """-> Failure | None for the C17 judgement of one run."""
    from vp import buckets

    if rr.phase is None:
        return None
    prog = case["prog"]
    e = getattr(rr, "exc", None)
    if rr.phase in ("build", "plan"):
        if isinstance(e, ALLOWED):
            return None
        idx = rr.node_index
        op, pred = buckets.key(prog, idx, rr.arrays, rr.phase, rr.exc_type)
        return Failure(f"{rr.phase}:{rr.exc_type}:{rr.where}:{op}:{pred}", f"{rr.exc_type}: {rr.exc_msg}")
    # execute phase: anything is a violation; find the earliest failing node for the bucket key
    idx = failing_node(case, vals)
    op, pred = buckets.key(prog, idx, rr.arrays, rr.phase, rr.exc_type)
    if pred == "size0-operands-different-chunks":
        # one root cause (rechunking is skipped for empty arrays), whatever exception the mismatched blocks end in
        return Failure("execute:multi-operand:size0-operands-different-chunks", f"{rr.exc_type} at {rr.where}: {rr.exc_msg}")
    return Failure(f"execute:{rr.exc_type}:{op}:{pred}", f"{rr.exc_type} at {rr.where}: {rr.exc_msg}")


def failing_node(case, vals):
    from vp import harness as H

    prog = case["prog"]
    ids = [i for i, v in enumerate(vals) if not v.is_tuple]
    for i in ids:
        try:
            spec = c01.make_spec("single-threaded")
            rr = H.run_program(prog, spec, executor=H.make_executor("single-threaded"), optimize_graph=False, outputs=[i])
        except Exception:
            return None
        if rr.phase is not None:
            # a pick of a multi-output op: blame the producing op
            nin = len(prog["inputs"])
            if i >= nin and prog["nodes"][i - nin]["op"] == "pick":
                return prog["nodes"][i - nin]["args"][0]
            return i
    return None


def check_case(case) -> Outcome:
    prog = case["prog"]
    labels = set(P.prog_labels(prog))
    vals, rr = c01.run_case(case)
    f = classify(case, vals, rr)
    if rr.phase is None:
        labels.add("accepted")
    else:
        labels.add(f"{rr.phase}:{rr.exc_type}")
        nin = len(prog["inputs"])
    nt = rr.phase is not None or P.multi_block(prog)
    return Outcome(nontrivial=nt, labels=tuple(labels), failure=f)


DECLINE_OPTS = {
    "degenerate": True,
}


def shards(tier):
    if tier == "quick":
        return [{"kind": "program", "name": f"dag{i}", "n": 100, "profile": "dag", "rotate": 7 + i * 19} for i in range(4)] + [
            {"kind": "program", "name": f"decl{i}", "n": 100, "profile": "decline", "rotate": i * 13} for i in range(3)
        ]
    return [{"kind": "program", "name": f"dag{i}", "n": 2500, "profile": "dag", "rotate": 7 + i * 19} for i in range(8)] + [
        {"kind": "program", "name": f"decl{i}", "n": 2500, "profile": "decline", "rotate": i * 13} for i in range(8)
    ]


def run_shard(spec, seed, tier) -> Acc:
    acc = Acc()
    if spec["kind"] == "__corpus__":
        return core.corpus_shard(sys.modules[__name__], acc)
    is_known, _ = core.known_matcher(ID)
    opts = {"rotate": spec.get("rotate", 0)}
    profile = spec.get("profile", "dag")
    if profile == "decline":
        opts.update(many_chunks=True)
    strat = c01.case_strategy(profile, opts=opts, max_ops=spec.get("max_ops", 5), executors=["schedule"] * 4 + ["single-threaded", "threads"])
    core.hyp_run(strat, check_case, seed=seed, max_examples=spec["n"], acc=acc, budget_s=420 if tier == "quick" else 3000,
                 shrink=(tier == "thorough"), is_known=is_known)
    acc.extra["generation"] = dict(P.GEN_STATS)
    return acc


def replay(case):
    return check_case(case).all_failures()
