"""C16 — building, planning and visualizing are lazy and free of side effects."""
from __future__ import annotations

import os
import shutil
import sys
import warnings

import numpy as np

import vp  # noqa
from vp import c01, core, prog as P, sinks as S
from vp.core import Acc, Failure, Outcome

ID = "C16"
LEVEL = "exploration"
RULE = (
    "Programs from the shared generator (every entry of the op table occurs as a node: single-op and dag profiles, and sweep shards that build every entry in every run) are "
    "built under two storage set-ups - intermediate_store = tracing store, and work_dir = a directory that does not exist yet - with a "
    "Spec executor that records entry. After building every node, and after each drawn lazy action (plan() with the default / legacy / "
    "fuse-all optimizer or optimization off, visualize() to a scratch file in dot/svg with show_hidden on/off, repr / _repr_html_, "
    "store/to_zarr(compute=False) into fresh targets, into not-yet-existing region targets and over a path that already holds an "
    "array of the same or another shape, rechunk, cubed.plan over several arrays) the check requires: no set/delete and no chunk read in the "
    "trace, the work directory still absent or empty, the executor never entered, lazy targets not created. Then the documented "
    "execution triggers (compute, eager store/to_zarr, __array__, and for one-element arrays __bool__/__int__/__float__/__index__/"
    "__complex__) are exercised: before the trigger no array of the plan exists in storage, and the trigger enters the executor. "
    "Non-trivial = the program has >= 1 operation node and was accepted; distinct = canonical JSON."
)
ASSUMPTIONS = [
    "metadata reads of input stores by from_zarr are allowed (inputs live in a separate store); visualize writes only the file it was asked to write",
]

ACTIONS = ["region-lazy-path", "lazy-over-existing-path", "lazy-over-existing-path-same-shape", "plan", "plan-noopt", "plan-simple", "plan-fuse-all", "plan-multi", "visualize-dot", "visualize-svg", "visualize-hidden", "repr", "repr-html",
           "store-lazy", "to_zarr-lazy", "rechunk", "arrays-meta"]
TRIGGERS = ["compute", "array", "scalar", "store-eager", "to_zarr-eager", "compute-method"]


def case_strategy(opts=None, max_ops=4, min_ops=0):
    from hypothesis import strategies as st

    @st.composite
    def cases(draw):
        prog = draw(P.programs("dag", max_ops=max_ops, min_ops=min_ops, opts=opts))
        return {
            "kind": "program",
            "prog": prog,
            "setup": draw(st.sampled_from(["trace", "workdir"])),
            "actions": draw(st.lists(st.sampled_from(ACTIONS), min_size=1, max_size=5)),
            "trigger": draw(st.sampled_from(TRIGGERS)),
        }

    return cases()


def _dir_state(path):
    if not os.path.exists(path):
        return "absent"
    n = sum(len(f) + len(d) for _, d, f in os.walk(path))
    return "empty" if n == 0 else f"{n} entries"


def check_rechunk_plan(case) -> Outcome:
    """Multi-stage (possibly irregular) rechunks under tight memory: building, plan(), visualize(), repr must write nothing."""
    import cubed
    import cubed.array_api as xp
    from zarr.storage import MemoryStore

    from vp import c14
    from vp import harness as H
    from vp.grid import prod

    labels = {"rechunk-plan", "irregular-allowed" if case["allow_irregular"] else "regular-only"}
    scratch = c01.Scratch.fresh("c16r")
    fails = []
    try:
        spec0, budget = c14._mk_spec(case)
        work_dir = os.path.join(scratch, "work")
        ts = H.TraceStore(MemoryStore())
        rec = H.RecordingExecutor(H.make_executor("single-threaded"))
        kw = dict(allowed_mem=spec0.allowed_mem, reserved_mem=spec0.reserved_mem, executor=rec)
        if case["compressor"] == "none":
            kw["zarr_compressor"] = None
        use_trace = case.get("factor", 1) % 2 == 1
        spec = cubed.Spec(intermediate_store=ts, **kw) if use_trace else cubed.Spec(work_dir=work_dir, **kw)
        shape = tuple(case["shape"])
        dtype = c14.DTYPES_BY_ITEMSIZE[case["itemsize"]]

        def effects(where):
            if rec.entered:
                fails.append(Failure(f"executed:{where}", f"executor entered during {where}"))
            if use_trace:
                w = ts.state.writes()
                if w:
                    fails.append(Failure(f"store-write:{where}", f"{len(w)} writes during {where}, e.g. {w[0][1]} {w[0][2]}"))
            else:
                st_ = _dir_state(work_dir)
                if st_ not in ("absent", "empty"):
                    fails.append(Failure(f"workdir-touched:{where}", f"work_dir has {st_} after {where}"))

        with warnings.catch_warnings():
            warnings.simplefilter("ignore")
            try:
                x = xp.ones(shape, dtype=getattr(xp, dtype), chunks=tuple(case["src"]), spec=spec)
                k2 = {} if case["min_mem"] is None else {"min_mem": case["min_mem"]}
                y = x.rechunk(tuple(case["tgt"]), allow_irregular=case["allow_irregular"], **k2)
            except Exception as e:
                labels.add(f"declined:{type(e).__name__}")
                return Outcome(labels=tuple(labels))
            effects("rechunk-build")
            try:
                fp = y.plan()
                n = len([1 for _, d in fp.dag.nodes(data=True) if d.get("op_name") == "rechunk"])
                labels.add(f"rechunk-copies={min(n, 4)}")
                if any(isinstance(c, (tuple, list)) for _, d in fp.dag.nodes(data=True) if d.get("type") == "array" and d.get("target") is not None for c in (getattr(d["target"], "chunks", ()) or ())):
                    labels.add("irregular-grid")
                fp.num_tasks, fp.max_projected_mem(), fp.total_nbytes_written
            except Exception as e:
                labels.add(f"plan-raised:{type(e).__name__}")
            effects("rechunk-plan")
            if not fails:
                try:
                    y.visualize(filename=os.path.join(scratch, "viz"), format="dot")
                    repr(y)
                    if hasattr(y, "_repr_html_"):
                        y._repr_html_()
                    (y + 1).plan(optimize_graph=False)
                except Exception as e:
                    labels.add(f"visualize-raised:{type(e).__name__}")
                effects("rechunk-visualize")
        seen, uniq = set(), []
        for f in fails:
            if f.bucket not in seen:
                seen.add(f.bucket)
                uniq.append(f)
        return Outcome(nontrivial=any(l.startswith("rechunk-copies=") and l != "rechunk-copies=0" for l in labels), labels=tuple(labels), failures=tuple(uniq))
    finally:
        shutil.rmtree(scratch, ignore_errors=True)


def check_case(case) -> Outcome:
    if case.get("kind") == "real":
        return check_rechunk_plan(case)
    import cubed
    from zarr.storage import MemoryStore

    from vp import harness as H

    prog = case["prog"]
    labels = {f"setup:{case['setup']}", f"trigger:{case['trigger']}"}
    labels |= {"action:" + a for a in case["actions"]}
    labels |= {l for l in P.prog_labels(prog) if l.startswith("op:")}
    scratch = c01.Scratch.fresh("c16")
    fails = []
    rec = H.RecordingExecutor(H.make_executor("single-threaded"))
    ts = None
    work_dir = os.path.join(scratch, "work-not-yet-there")
    try:
        if case["setup"] == "trace":
            ts = H.TraceStore(MemoryStore())
            spec = cubed.Spec(intermediate_store=ts, allowed_mem=2_000_000_000, reserved_mem=0, executor=rec)
        else:
            spec = cubed.Spec(work_dir=work_dir, allowed_mem=2_000_000_000, reserved_mem=0, executor=rec)
        sink_ctx = S.SinkCtx()

        def side_effects(where):
            out = []
            if rec.entered:
                out.append(("executed", f"{where}: the executor was entered {rec.entered} time(s)"))
            if ts is not None:
                w = ts.state.writes()
                g = ts.state.chunk_gets()
                if w:
                    out.append(("store-write", f"{where}: {len(w)} store writes, e.g. {w[0][1]} {w[0][2]}"))
                if g:
                    out.append(("chunk-read", f"{where}: {len(g)} chunk reads, e.g. {g[0][2]}"))
            else:
                st_ = _dir_state(work_dir)
                if st_ not in ("absent", "empty"):
                    out.append(("workdir-touched", f"{where}: work_dir has {st_}"))
            for t in sink_ctx.targets:
                if t.before is None and any(r[1] in ("set", "set_if_not_exists") for r in t.store.state.log):
                    out.append(("lazy-target-created", f"{where}: a lazy store target was written"))
            return out

        with warnings.catch_warnings():
            warnings.simplefilter("ignore")
            try:
                arrs = P.build_cubed(prog, spec)
            except Exception as e:
                labels.add(f"declined:{type(e).__name__}")
                for code, msg in side_effects("declined build"):
                    fails.append(Failure(f"{code}:build", msg))
                return Outcome(labels=tuple(labels), failures=tuple(fails))
            nin = len(prog["inputs"])
            for code, msg in side_effects("build"):
                last = prog["nodes"][-1]["op"] if prog["nodes"] else "input"
                fails.append(Failure(f"{code}:build", msg + f" (last op {last})"))
            ids = [i for i, a in enumerate(arrs) if not isinstance(a, tuple)]
            outs = [arrs[i] for i in prog["outputs"]]
            from cubed.core import optimization as opt

            for k, act in enumerate(case["actions"]):
                try:
                    if act == "plan":
                        outs[-1].plan()
                    elif act == "plan-noopt":
                        cubed.plan(*outs, optimize_graph=False)
                    elif act == "plan-simple":
                        cubed.plan(*outs, optimize_function=opt.simple_optimize_dag)
                    elif act == "plan-fuse-all":
                        cubed.plan(*outs, optimize_function=opt.fuse_all_optimize_dag)
                    elif act == "plan-multi":
                        fp = cubed.plan(*[arrs[i] for i in ids])
                        fp.num_tasks, fp.max_projected_mem()
                    elif act.startswith("visualize"):
                        fmt = "dot" if act == "visualize-dot" else "svg"
                        cubed.visualize(*outs, filename=os.path.join(scratch, f"viz{k}"), format=fmt, show_hidden=(act == "visualize-hidden"))
                    elif act == "repr":
                        repr(outs[-1])
                        str(outs[-1])
                    elif act == "repr-html":
                        if hasattr(outs[-1], "_repr_html_"):
                            outs[-1]._repr_html_()
                    elif act == "store-lazy":
                        S.build_sinks([{"node": prog["outputs"][-1], "cls": "fresh", "api": "store"}], arrs, sink_ctx, spec)
                    elif act == "to_zarr-lazy":
                        S.build_sinks([{"node": prog["outputs"][-1], "cls": "fresh", "api": "to_zarr"}], arrs, sink_ctx, spec)
                    elif act == "region-lazy-path":
                        # lazy region store (explicit slices over the whole extent) into a path that does not exist yet
                        a = outs[-1]
                        if a.ndim >= 1 and a.size > 0:
                            ts_new = sink_ctx.new_store()
                            reg = tuple(slice(0, n) for n in a.shape)
                            lz = cubed.to_zarr(a, ts_new, path="region-target", region=reg, compute=False)
                            if any(r[1] in ("set", "set_if_not_exists") for r in ts_new.state.log):
                                fails.append(Failure("lazy-target-created:region-lazy-path", "a lazy region store wrote to its not-yet-existing target while being built"))
                            lz.plan()
                            if any(r[1] in ("set", "set_if_not_exists") for r in ts_new.state.log):
                                fails.append(Failure("lazy-target-created:region-lazy-path", "planning a lazy region store wrote to its target"))
                    elif act in ("lazy-over-existing-path", "lazy-over-existing-path-same-shape"):
                        # the target path already holds an array left by an earlier run (other or same shape): building and planning
                        # a lazy store over it must not touch it (no resize, no re-creation, no delete)
                        a = outs[-1]
                        if a.ndim >= 1 and a.size > 0:
                            import zarr

                            ts_new = sink_ctx.new_store()
                            old_shape = tuple(a.shape) if act.endswith("same-shape") else tuple(n + 1 + (k % 2) for k, n in enumerate(a.shape))
                            z = zarr.create_array(store=ts_new, name="prev", shape=old_shape, chunks=tuple(a.chunksize), dtype=a.dtype)
                            z[...] = np.ones(old_shape, dtype=a.dtype)
                            ts_new.state.clear()
                            lz = cubed.to_zarr(a, ts_new, path="prev", compute=False)
                            w = ts_new.state.writes()
                            if w:
                                fails.append(Failure(f"existing-target-touched:{act}", f"building a lazy store over an existing array issued {w[0][1]} {w[0][2]}"))
                            lz.plan()
                            w = ts_new.state.writes()
                            if w and not fails:
                                fails.append(Failure(f"existing-target-touched:{act}", f"planning a lazy store over an existing array issued {w[0][1]} {w[0][2]}"))
                            back = zarr.open_array(store=ts_new, path="prev", mode="r")
                            if tuple(back.shape) != old_shape and not fails:
                                fails.append(Failure(f"existing-target-touched:{act}", f"shape {old_shape} -> {tuple(back.shape)}"))
                    elif act == "rechunk":
                        a = outs[-1]
                        if a.ndim and a.size:
                            a.rechunk(tuple(max(1, (s + 1) // 2) for s in a.shape)).plan()
                    elif act == "arrays-meta":
                        for a in outs:
                            a.shape, a.dtype, a.chunks, a.nbytes, a.numblocks, a.npartitions
                except (ValueError, TypeError, NotImplementedError, IndexError) as e:
                    labels.add(f"action-declined:{act}")
                except Exception as e:
                    labels.add(f"action-error:{act}:{type(e).__name__}")
                for code, msg in side_effects(act):
                    fails.append(Failure(f"{code}:{act}", msg))
                if fails:
                    break
            if not fails:
                # execution triggers
                tr = case["trigger"]
                a = outs[-1]
                before = rec.entered
                expect_enter = True
                try:
                    if tr == "compute":
                        cubed.compute(*outs)
                    elif tr == "compute-method":
                        a.compute()
                    elif tr == "array":
                        np.asarray(a)
                    elif tr == "scalar":
                        if a.size == 1:
                            k = np.dtype(a.dtype).kind
                            if k == "b":
                                bool(a)
                            elif k in "iu":
                                int(a)
                                a.__index__() if a.ndim == 0 else None
                            elif k == "f":
                                float(a)
                            else:
                                complex(a)
                        else:
                            expect_enter = False
                    elif tr == "store-eager":
                        from zarr.storage import MemoryStore as MS

                        cubed.store([a], [MS()])
                    elif tr == "to_zarr-eager":
                        from zarr.storage import MemoryStore as MS

                        cubed.to_zarr(a, MS(), path="x")
                except Exception as e:
                    labels.add(f"trigger-raised:{type(e).__name__}")
                    expect_enter = False
                if expect_enter and rec.entered == before:
                    fails.append(Failure(f"trigger-did-not-execute:{tr}", f"{tr} returned without entering the executor"))
                labels.add("trigger-ran" if rec.entered > before else "trigger-skipped")
        nt = len(prog["nodes"]) >= 1
        seen, uniq = set(), []
        for f in fails:
            if f.bucket not in seen:
                seen.add(f.bucket)
                uniq.append(f)
        return Outcome(nontrivial=nt, labels=tuple(labels), failures=tuple(uniq))
    finally:
        shutil.rmtree(scratch, ignore_errors=True)


def shards(tier):
    if tier == "quick":
        return [{"kind": "program", "name": f"s{i}", "n": 55, "rotate": 23 + i * 53, "max_ops": 1 if i < 3 else 4} for i in range(7)] + [
            {"kind": "rechunk-plan", "name": "rp0", "n": 160}] + [{"kind": "sweep", "name": f"sweep{i}", "part": i, "of": 4, "per": 2} for i in range(4)]
    return [{"kind": "sweep", "name": f"sweep{i}", "part": i, "of": 8, "per": 40} for i in range(8)] + [{"kind": "program", "name": f"s{i}", "n": 900, "rotate": 23 + i * 53, "max_ops": 1 if i < 5 else 4} for i in range(14)] + [
        {"kind": "rechunk-plan", "name": f"rp{i}", "n": 2500} for i in range(2)]


def run_shard(spec, seed, tier) -> Acc:
    acc = Acc()
    if spec["kind"] == "__corpus__":
        return core.corpus_shard(sys.modules[__name__], acc)
    is_known, _ = core.known_matcher(ID)
    if spec["kind"] == "rechunk-plan":
        from vp import c14

        core.hyp_run(c14.real_cases(max_side=160, max_elems=24000), check_case, seed=seed, max_examples=spec["n"], acc=acc,
                     budget_s=420 if tier == "quick" else 3000, shrink=(tier == "thorough"), is_known=is_known)
        return acc
    if spec["kind"] == "sweep":
        # every operation of the op table is built (and then triggered) in every run
        names = sorted(set(P.weighted_names("dag")))[spec["part"]::spec["of"]]
        for j, nm in enumerate(names):
            core.hyp_run(case_strategy({"rotate": 0, "only_ops": [nm, "pick"]}, max_ops=2, min_ops=1), check_case, seed=seed + j, max_examples=spec["per"], acc=acc,
                         budget_s=60 if tier == "quick" else 900, shrink=False, is_known=is_known)
        return acc
    core.hyp_run(case_strategy({"rotate": spec.get("rotate", 0)}, max_ops=spec.get("max_ops", 4)), check_case, seed=seed, max_examples=spec["n"], acc=acc,
                 budget_s=420 if tier == "quick" else 3000, shrink=(tier == "thorough"), is_known=is_known)
    from vp import ir

    acc.extra["api_coverage"] = ir.api_coverage()
    return acc


def replay(case):
    return check_case(case).all_failures()
