"""C04 — over-budget plans are refused before anything runs; fusion stays within budget."""
from __future__ import annotations

import os
import shutil
import sys
import warnings
from functools import partial

import numpy as np

import vp  # noqa
from vp import c01, c02, core, prog as P
from vp.core import Acc, Failure, Outcome

ID = "C04"
LEVEL = "exploration"
RULE = (
    "Programs from the shared generator (dag / fusion-rich / storage-rich). Pass 1 builds the program under a generous allowed_mem and "
    "collects the thresholds T = projected_mem of every operation of the unoptimized and of the optimized plan. Pass 2 rebuilds the "
    "same program with allowed_mem = t-1, t or t+1 for a drawn t in T (and reserved_mem in {0, r}), a drawn optimizer (default, "
    "multiple-input limits, always/never_fuse, legacy, fuse-all, fuse-only, or none), a drawn entry point (compute, Array.compute, "
    "store, to_zarr; with or without resume=True on storage that holds nothing yet) and executor. Oracle: (i) the call raises the memory ValueError iff max projected_mem over the FINAL plan > "
    "allowed_mem (equality is accepted; a rechunk planner refusal at build time also counts as refused-before-running); (ii) on "
    "refusal the executor was never entered, no callback fired, the store trace has no write at all and targets do not exist; "
    "(iii) otherwise the computation runs and agrees with NumPy; (iv) for optimizers that do not force fusion, a plan that fits "
    "unoptimized also fits optimized; (v) every fuse/fuse_multiple call (wrapped in the harness) returns projected_mem >= that of the "
    "operation and of every predecessor it replaced. Non-trivial = allowed_mem within +-1 of a threshold of that plan (always, by "
    "construction) and the plan has >= 2 operations; distinct = canonical JSON."
)
ASSUMPTIONS = [
    "projected_mem values are read from the plan's primitive operations (their truth is C03's subject); this check decides the admission logic and its side effects",
]

OPTS = ["none", "default", "default", "multi", "always-never", "simple", "fuse-all", "fuse-only"]
FORCING = {"always-never", "fuse-all", "fuse-only"}


def case_strategy(opts=None, max_ops=5, min_ops=1):
    from hypothesis import strategies as st

    @st.composite
    def cases(draw):
        prog = draw(P.programs(draw(st.sampled_from(["dag", "fusion-rich", "storage-rich"])), max_ops=max_ops, min_ops=min_ops, opts=opts))
        name = draw(st.sampled_from((opts or {}).get("optimizers") or OPTS))
        o = {"name": name}
        if name == "multi":
            o["msa"] = draw(st.integers(1, 8))
            o["mnib"] = draw(st.one_of(st.none(), st.integers(1, 40)))
        if name in ("always-never", "fuse-only"):
            o["sel_a"] = draw(st.lists(st.integers(0, 30), max_size=6))
            o["sel_n"] = draw(st.lists(st.integers(0, 30), max_size=4))
        return {
            "kind": "program",
            "prog": prog,
            "optimizer": o,
            "tsel": draw(st.one_of(st.just(-1), st.just(-1), st.integers(0, 999))),
            "delta": draw(st.sampled_from([-1, 0, 1])),
            "reserved": draw(st.sampled_from([0, 0, 100, 4096])),
            "entry": draw(st.sampled_from(["compute", "compute", "method", "store", "to_zarr"])),
            "executor": draw(st.sampled_from(["single-threaded", "single-threaded", "threads"])),
            "storage": draw(st.sampled_from(["trace", "trace", "workdir"])),
            # the judged call may ask for resume (on storage that holds nothing yet): admission must not depend on it
            "resume": draw(st.sampled_from([False, False, True])),
        }

    return cases()


def _projected(dag):
    return [d["primitive_op"].projected_mem for n, d in dag.nodes(data=True) if "primitive_op" in d]


class FuseSpy:
    """Wraps the fusion functions as imported into cubed.core.optimization; records (inputs, result) projections."""

    def __init__(self):
        self.bad = []
        self.calls = 0

    def __enter__(self):
        from cubed.core import optimization as opt

        self.opt = opt
        self.orig_multi = opt.fuse_multiple
        self.orig_fuse = opt.fuse

        def fuse_multiple(op, *preds):
            r = self.orig_multi(op, *preds)
            self.calls += 1
            need = max([op.projected_mem] + [p.projected_mem for p in preds if p is not None])
            if r.projected_mem < need:
                self.bad.append(("fuse_multiple", r.projected_mem, need))
            return r

        def fuse(op1, op2):
            r = self.orig_fuse(op1, op2)
            self.calls += 1
            need = max(op1.projected_mem, op2.projected_mem)
            if r.projected_mem < need:
                self.bad.append(("fuse", r.projected_mem, need))
            return r

        opt.fuse_multiple = fuse_multiple
        opt.fuse = fuse
        return self

    def __exit__(self, *a):
        self.opt.fuse_multiple = self.orig_multi
        self.opt.fuse = self.orig_fuse


def _plan_kw(o, dag0):
    if o["name"] == "none":
        return {"optimize_graph": False}
    f = c02.make_optimizer(o, dag0)
    kw = {"optimize_graph": True}
    if f is not None:
        kw["optimize_function"] = f
    return kw


def check_case(case) -> Outcome:
    import cubed
    from zarr.storage import MemoryStore

    from vp import harness as H

    prog = case["prog"]
    o = case["optimizer"]
    labels = {f"opt:{o['name']}", f"entry:{case['entry']}", f"delta:{case['delta']}", f"storage:{case['storage']}"}
    vals = P.eval_numpy(prog)
    fails = []
    out_id = prog["outputs"][-1]
    reserved = case["reserved"]
    with warnings.catch_warnings(), FuseSpy() as spy:
        warnings.simplefilter("ignore")
        # ---- pass 1: thresholds under a generous budget
        try:
            spec1 = cubed.Spec(intermediate_store=MemoryStore(), allowed_mem=2_000_000_000, reserved_mem=reserved)
            arrs1 = P.build_cubed(prog, spec1)
            outs1 = [arrs1[i] for i in prog["outputs"]]
            fp_un = cubed.plan(*outs1, optimize_graph=False)
            kw1 = _plan_kw(o, fp_un.dag)
            fp_op = cubed.plan(*outs1, **kw1)
        except Exception as e:
            labels.add(f"declined-pass1:{type(e).__name__}")
            return Outcome(labels=tuple(labels))
        T = sorted(set(_projected(fp_un.dag) + _projected(fp_op.dag)))
        T = [t for t in T if t > reserved + 1]
        if not T:
            labels.add("no-thresholds")
            return Outcome(labels=tuple(labels))
        t = T[-1] if case["tsel"] < 0 else T[case["tsel"] % len(T)]
        allowed = t + case["delta"]
        if allowed <= reserved:
            allowed = reserved + 1
        labels.add("threshold=max" if t == T[-1] else "threshold=inner")
        # ---- pass 2: the same program at the boundary
        scratch = None
        ts = None
        if case["storage"] == "trace":
            ts = H.TraceStore(MemoryStore())
            kws = dict(intermediate_store=ts)
        else:
            scratch = c01.Scratch.fresh("c04")
            kws = dict(work_dir=os.path.join(scratch, "work"))
        try:
            try:
                spec2 = cubed.Spec(allowed_mem=allowed, reserved_mem=reserved, **kws)
                arrs2 = P.build_cubed(prog, spec2)
                outs2 = [arrs2[i] for i in prog["outputs"]]
                fp_un2 = cubed.plan(*outs2, optimize_graph=False)
                kw2 = _plan_kw(o, fp_un2.dag)
            except (ValueError, NotImplementedError) as e:
                labels.add("refused-at-build")
                # nothing may have been written
                if ts is not None and ts.state.writes():
                    fails.append(Failure("build-refusal-wrote", f"store writes while building a refused program"))
                return Outcome(nontrivial=True, labels=tuple(labels), failures=tuple(fails))
            except Exception as e:
                labels.add(f"build-error:{type(e).__name__}(C17)")
                return Outcome(labels=tuple(labels))
            fp2 = cubed.plan(*outs2, **kw2)
            proj = _projected(fp2.dag)
            Pmax = max(proj) if proj else 0
            should_refuse = Pmax > allowed
            # (iv) optimization must not push a fitting plan over budget (non-forcing optimizers)
            un_max = max(_projected(fp_un2.dag) or [0])
            if o["name"] not in FORCING and o["name"] != "none" and un_max <= allowed < Pmax:
                fails.append(Failure(f"optimizer-exceeds-budget:{o['name']}", f"unoptimized max projected {un_max} <= allowed {allowed} < optimized {Pmax}"))
            ex = H.RecordingExecutor(H.make_executor(case["executor"], max_workers=2))
            cb = H.RecordingCallback()
            tstore = H.TraceStore(MemoryStore())
            raised = None
            kwj = dict(kw2, resume=True) if case.get("resume") else kw2
            labels.add(f"resume:{bool(case.get('resume'))}")
            try:
                if case["entry"] == "compute":
                    res = cubed.compute(*outs2, executor=ex, callbacks=[cb], **kwj)
                    got = np.asarray(res[-1])
                elif case["entry"] == "method":
                    # the plan of this one array (it may fuse differently from the plan of all outputs together): judge the call by it
                    fp2 = arrs2[out_id].plan(**kw2)
                    proj = _projected(fp2.dag)
                    Pmax = max(proj) if proj else 0
                    should_refuse = Pmax > allowed
                    got = np.asarray(arrs2[out_id].compute(executor=ex, callbacks=[cb], **kwj))
                elif case["entry"] == "store":
                    # plan on a second build of the same program (a store call changes the array it is given, so the
                    # planning call and the judged call must not share arrays)
                    arrs_p = P.build_cubed(prog, spec2)
                    kwp = _plan_kw(o, cubed.plan(*[arrs_p[i] for i in prog["outputs"]], optimize_graph=False).dag)
                    lz = cubed.store([arrs_p[out_id]], [H.TraceStore(MemoryStore())], compute=False)
                    fpS = cubed.plan(*lz, **kwp)
                    proj = _projected(fpS.dag)
                    Pmax = max(proj) if proj else 0
                    should_refuse = Pmax > allowed
                    cubed.store([arrs2[out_id]], [tstore], executor=ex, callbacks=[cb], **kwj)
                    got = None
                else:
                    arrs_p = P.build_cubed(prog, spec2)
                    kwp = _plan_kw(o, cubed.plan(*[arrs_p[i] for i in prog["outputs"]], optimize_graph=False).dag)
                    lz = cubed.to_zarr(arrs_p[out_id], H.TraceStore(MemoryStore()), path="t", compute=False)
                    fpS = lz.plan(**kwp)
                    proj = _projected(fpS.dag)
                    Pmax = max(proj) if proj else 0
                    should_refuse = Pmax > allowed
                    cubed.to_zarr(arrs2[out_id], tstore, path="t", executor=ex, callbacks=[cb], **kwj)
                    got = None
            except Exception as e:
                raised = e
            is_mem = isinstance(raised, ValueError) and "allowed_mem" in str(raised)
            labels.add("refused" if is_mem else ("ran" if raised is None else f"other-error:{type(raised).__name__}"))
            labels.add(f"at-boundary:{'P==allowed' if Pmax == allowed else ('P==allowed+1' if Pmax == allowed + 1 else ('P==allowed-1' if Pmax == allowed - 1 else 'other'))}")
            if should_refuse and not is_mem and raised is not None and ex.entered == 0 and not cb.events:
                labels.add(f"refused-for-another-reason:{type(raised).__name__}")
            elif should_refuse and not is_mem:
                fails.append(Failure(f"over-budget-not-refused:{case['entry']}", f"max projected {Pmax} > allowed {allowed} but the call {'returned' if raised is None else 'raised ' + type(raised).__name__}"))
            if not should_refuse and is_mem:
                fails.append(Failure(f"refused-although-fitting:{case['entry']}", f"max projected {Pmax} <= allowed {allowed} but refused: {str(raised)[:120]}"))
            if is_mem:
                if ex.entered:
                    fails.append(Failure("refused-after-execution-entered", f"executor entered {ex.entered}x before the memory error"))
                if cb.events:
                    fails.append(Failure("refused-but-callbacks-fired", f"{[e[0] for e in cb.events][:4]}"))
                if ts is not None and ts.state.writes():
                    w = ts.state.writes()
                    fails.append(Failure("refused-but-store-written", f"{len(w)} writes, e.g. {w[0][1]} {w[0][2]}"))
                if tstore.state.writes():
                    fails.append(Failure("refused-but-target-written", f"{len(tstore.state.writes())} writes to the store target"))
                if scratch is not None:
                    wd = os.path.join(scratch, "work")
                    n = sum(len(f) for _, _, f in os.walk(wd)) if os.path.exists(wd) else 0
                    if n:
                        fails.append(Failure("refused-but-workdir-written", f"{n} files under work_dir"))
            elif raised is None and got is not None:
                msg = P.compare(got, vals[out_id])
                if msg is not None:
                    labels.add("numpy-mismatch(C01)")
        finally:
            if scratch:
                shutil.rmtree(scratch, ignore_errors=True)
        for (which, got_p, need) in spy.bad:
            fails.append(Failure(f"fused-projection-too-small:{which}", f"fused op projected_mem {got_p} < {need} of an operation it replaced"))
        if spy.calls:
            labels.add("fusion-attempted")
    nops = len(proj)
    seen, uniq = set(), []
    for f in fails:
        if f.bucket not in seen:
            seen.add(f.bucket)
            uniq.append(f)
    return Outcome(nontrivial=nops >= 2, labels=tuple(labels), failures=tuple(uniq))


def shards(tier):
    if tier == "quick":
        return [{"kind": "program", "name": f"s{i}", "n": 90, "rotate": 29 + i * 59} for i in range(7)] + [
            {"kind": "program", "name": f"forced{i}", "n": 90, "rotate": 13 + i * 41, "forced": True, "min_ops": 3} for i in range(2)]
    return [{"kind": "program", "name": f"s{i}", "n": 1500, "rotate": 29 + i * 59} for i in range(16)] + [
        {"kind": "program", "name": f"forced{i}", "n": 1500, "rotate": 13 + i * 41, "forced": True, "min_ops": 3} for i in range(4)]


def run_shard(spec, seed, tier) -> Acc:
    acc = Acc()
    if spec["kind"] == "__corpus__":
        return core.corpus_shard(sys.modules[__name__], acc)
    is_known, _ = core.known_matcher(ID)
    opts = {"rotate": spec.get("rotate", 0), "allow_zero": False}
    if spec.get("forced"):
        # trees of binary elementwise operations under optimizer settings that fuse regardless of the memory guard: the fused
        # operation's projection (peak over the predecessors kept alive) exceeds every original operation's
        from vp.ir import OPS

        opts["only_ops"] = sorted(n for n, o in OPS.items() if "binary" in o.tags and "elementwise" in o.tags) + ["pick", "negative"]
        opts["optimizers"] = ["fuse-all", "fuse-all", "fuse-only", "always-never"]
    core.hyp_run(case_strategy(opts, min_ops=spec.get("min_ops", 1)), check_case, seed=seed, max_examples=spec["n"], acc=acc,
                 budget_s=420 if tier == "quick" else 3000, shrink=(tier == "thorough"), is_known=is_known)
    return acc


def replay(case):
    return check_case(case).all_failures()
