"""C09 — resume after a crash gives the same result and never trusts an incomplete array."""
from __future__ import annotations

import json
import sys
import warnings

import numpy as np

import vp  # noqa
from vp import c01, c05, core, prog as P, sinks as S
from vp.core import Acc, Failure, Outcome

ID = "C09"
LEVEL = "fault_enumeration"
RULE = (
    "Programs from the shared generator (dag / storage-rich: fused and unfused plans, multi-output operations, multi-chunk rechunk "
    "tasks, optional store/to_zarr sinks to fresh paths) on a tracing in-memory store. A clean run counts T tasks and W chunk writes; "
    "then EVERY crash point is executed (evenly sampled down to 48 per program when T+W is larger): crash before task k (k=0..T) via "
    "the schedule-owning executor, and crash inside the w-th chunk write (w=1..W) via the store, so a task writing several chunks is cut "
    "in the middle. The crashing run executes each operation's tasks in plan order or in a drawn permutation (so the chunks present "
    "after the crash are an arbitrary subset, not only a prefix). After each crash compute(resume=True) runs on a drawn executor "
    "(schedule-owning, single-threaded, threads, threads with compute_arrays_in_parallel, threads with batch_size); in a third of the programs the resumed run is itself crashed (before its j-th task / "
    "inside its j-th chunk write, j <= 3), held to rules (c) and (d), and resumed a second time. "
    "Oracle: (a) the resumed run either refuses before any task (plans containing arrays whose storage cannot report completeness) or "
    "completes with the clean run's values; (b) an operation skipped on resume had every chunk of every output present after the crash "
    "(from the store listing and stored grid metadata, not from nchunks_initialized); (c) operations whose outputs were complete are "
    "not re-run, except array creation and zero-dimensional outputs; (d) the resumed run issues no delete and changes no chunk that "
    "existed after the crash unless its producing operation was legitimately re-run. One evaluation = one (program, crash point); "
    "non-trivial = the crash left an array partially written or an operation complete and another not started."
)
ASSUMPTIONS = [
    "a crash is an exception at a task boundary or inside a chunk write, completed writes are durable; torn single-chunk writes are the store's contract",
    "stores into pre-existing, fully initialized user targets are outside the generated domain (resume defines 'complete' as 'all chunks present')",
]

MAX_POINTS = 48


def case_strategy(opts=None, max_ops=4):
    from hypothesis import strategies as st

    @st.composite
    def cases(draw):
        prog = draw(P.programs(draw(st.sampled_from(["dag", "storage-rich", "fusion-rich"])), max_ops=max_ops, min_ops=1, opts=opts))
        return {
            "kind": "program",
            "prog": prog,
            "optimize": draw(st.booleans()),
            "resume_executor": draw(st.sampled_from(["schedule", "schedule", "single-threaded", "threads", "threads-parallel", "threads-parallel", "threads-batch"])),
            "sinks": draw(S.sinks_strategy(prog, classes=("fresh", "group"), max_sinks=2, allow_repeat=False)) if draw(st.integers(0, 3)) == 0 else [],
            "points": None,
            # the crashing run executes the tasks of each operation in a drawn order (None: plan order), so the set of chunks that
            # exist after the crash is an arbitrary subset of an operation's chunks, not only a prefix
            "crash_perm": draw(st.sampled_from([None, None, 1, 2, 3])) if not (opts or {}).get("no_perm") else None,
            # the resumed run may crash again (before its j-th task / inside its j-th chunk write) and is resumed a second time
            "second": draw(st.sampled_from([None, None, None, ["task", 0], ["task", 1], ["task", 2], ["write", 1], ["write", 2], ["write", 3]])),
        }

    return cases()


def _quiesce(inner_dict):
    """A crash inside one chunk write leaves the other chunk writes that zarr issued concurrently for the same task running on its
    IO loop; 'the state after the crash' is the state once they have landed. Let the loop run until the store stops changing."""
    import asyncio
    import time

    from zarr.core.sync import sync

    last, stable = None, 0
    for _ in range(50):
        try:
            sync(asyncio.sleep(0.005))
        except Exception:
            time.sleep(0.005)
        n = len(inner_dict)
        stable = stable + 1 if n == last else 0
        last = n
        if stable >= 3:
            break


def _store_arrays(inner_dict):
    """path -> (shape, bounds) for every array with metadata in the store."""
    out = {}
    for k, v in list(inner_dict.items()):
        if k.endswith("zarr.json"):
            try:
                m = json.loads(v.to_bytes())
            except Exception:
                continue
            if m.get("node_type") == "array":
                path = k[: -len("/zarr.json")] if "/" in k else ""
                out[path] = c05.grid_from_meta(m)
    return out


def _complete_paths(inner_dict):
    """paths of arrays all of whose chunk keys are present; and the set of partially written ones."""
    arrays = _store_arrays(inner_dict)
    complete, partial = set(), set()
    for path, (shape, bounds) in arrays.items():
        exp = c05.expected_keys(path, shape, bounds)
        have = {k for k in exp if k in inner_dict}
        if 0 in shape or have == exp:
            complete.add(path)
        elif have:
            partial.add(path)
    return complete, partial, arrays


def check_case(case, acc=None) -> Outcome:
    import cubed
    from zarr.storage import MemoryStore

    from vp import harness as H

    prog = case["prog"]
    labels = {f"resume-exec:{case['resume_executor']}", f"optimize:{case['optimize']}"}
    fails = []
    ts = H.TraceStore(MemoryStore())
    spec = cubed.Spec(intermediate_store=ts, allowed_mem=2_000_000_000, reserved_mem=0)
    inner = ts._store._store_dict
    n_points = 0
    n_nontrivial = 0
    with warnings.catch_warnings():
        warnings.simplefilter("ignore")
        try:
            arrs = P.build_cubed(prog, spec)
            sink_ctx = S.SinkCtx()
            # sinks write into the same traced intermediate store under their own paths so that one listing covers everything
            lazy = []
            for k, s in enumerate(case.get("sinks") or []):
                lazy.append(cubed.to_zarr(arrs[s["node"]], ts, path=f"user{k}/arr" if s["cls"] == "group" else f"user{k}", compute=False))
            outs = [arrs[i] for i in prog["outputs"]] + lazy
            kw = dict(optimize_graph=case["optimize"])
            fp = cubed.plan(*outs, **kw)
            fp.validate()
            ex0 = H.ScheduleExecutor(H.Schedule())
            clean = [np.asarray(r) for r in cubed.compute(*outs, executor=ex0, **kw)]
        except Exception as e:
            labels.add(f"declined-or-failed:{type(e).__name__}")
            return Outcome(labels=tuple(labels))
        T = len(ex0.tasks_run)
        W = len(ts.state.chunk_sets())
        # which op produces which array paths
        produces = {}
        zero_d = set()
        structured = False
        for n, d in fp.dag.nodes(data=True):
            if d.get("type") == "op" and "primitive_op" in d:
                outs_n = [s for s in fp.dag.successors(n)]
                paths = []
                for a in outs_n:
                    t = fp.dag.nodes[a].get("target")
                    if t is None:
                        continue
                    p = getattr(t, "path", None)
                    paths.append(p if p is not None else a)
                    if len(getattr(t, "shape", (1,))) == 0:
                        zero_d.add(n)
                    dt = getattr(t, "dtype", None)
                    if dt is not None and getattr(np.dtype(dt) if not isinstance(dt, list) else np.dtype(dt), "names", None):
                        structured = True
                produces[n] = paths
        if structured:
            labels.add("has-structured-intermediate")
        points = [("task", k) for k in range(T + 1)] + [("write", w) for w in range(1, W + 1)]
        if case.get("points"):
            points = [tuple(p) for p in case["points"]]
        elif len(points) > MAX_POINTS:
            step = len(points) / MAX_POINTS
            points = [points[int(i * step)] for i in range(MAX_POINTS)]
            labels.add("points-sampled")
        labels.add(f"T={min(T, 40) // 10 * 10}+")
        for (kind_, k) in points:
            inner.clear()
            ts.state.clear()
            ts.state.nsets = 0
            ts.state.crash_at_set = None
            sched = H.Schedule(perm_seed=case.get("crash_perm"))
            if kind_ == "task":
                sched.crash_before_task = k
            else:
                ts.state.crash_at_set = k
            ex1 = H.ScheduleExecutor(sched)
            crashed = False
            try:
                cubed.compute(*outs, executor=ex1, **kw)
            except H.Crash:
                crashed = True
            except Exception as e:
                if "crash at chunk set" in str(e) or isinstance(getattr(e, "__cause__", None), H.Crash):
                    crashed = True
                else:
                    labels.add(f"crash-run-other-error:{type(e).__name__}")
                    continue
            ts.state.crash_at_set = None
            if not crashed:
                if kind_ == "task" and k >= T:
                    labels.add("crash-point-after-last-task")
                else:
                    continue
            n_points += 1
            _quiesce(inner)
            snap = {kk: v.to_bytes() for kk, v in list(inner.items())}
            complete, partial, arrays_meta = _complete_paths(inner)
            ops_complete = {n for n, ps in produces.items() if ps and all(p in complete for p in ps)}
            ops_not_started = {n for n, ps in produces.items() if ps and all(p not in complete and p not in partial for p in ps)}
            nontrivial = bool(partial) or (bool(ops_complete) and bool(ops_not_started))
            n_nontrivial += nontrivial
            if nontrivial and acc is not None:
                acc.nt.add(hash((core.case_hash(case), kind_, k)) & 0xFFFFFFFFFFFF)
                if len(acc.samples) < 4 and (not acc.samples or n_points % 11 == 0):
                    acc.samples.append({"program": prog, "optimize": case["optimize"], "resume_executor": case["resume_executor"], "crash_point": [kind_, k],
                                        "T_tasks": T, "W_chunk_writes": W, "partially_written_arrays": sorted(partial), "complete_ops": sorted(ops_complete)})
            ts.state.clear()
            where = f"crash {kind_}#{k} of T={T},W={W}"
            # ---- optionally: the resumed run crashes too; everything below is then judged against the state after the SECOND crash
            if case.get("second"):
                kind2, j = case["second"]
                sched2 = H.Schedule()
                ts.state.nsets = 0
                if kind2 == "task":
                    sched2.crash_before_task = j
                else:
                    ts.state.crash_at_set = j
                ex15 = H.ScheduleExecutor(sched2)
                cb15 = H.RecordingCallback()
                crashed2 = False
                try:
                    cubed.compute(*outs, executor=ex15, callbacks=[cb15], resume=True, **kw)
                except H.Crash:
                    crashed2 = True
                except Exception as e:
                    if "crash at chunk set" in str(e) or isinstance(getattr(e, "__cause__", None), H.Crash):
                        crashed2 = True
                    elif not any(ev[0] == "task_end" for ev in cb15.events) and (structured or isinstance(e, NotImplementedError)):
                        labels.add(f"resume-refused:{type(e).__name__}")
                        ts.state.crash_at_set = None
                        continue
                    else:
                        ts.state.crash_at_set = None
                        fails.append(Failure(f"resume-failed:{type(e).__name__}", f"{where}, first resume (to be crashed at {kind2}#{j}): {e!r}"[:300]))
                        break
                ts.state.crash_at_set = None
                if crashed2:
                    labels.add("second-crash")
                    _quiesce(inner)
                    # the first resumed run is held to the same rules: it must not have deleted or changed what existed
                    dels = [r for r in ts.state.log if r[1] in ("delete", "delete_dir")]
                    if dels:
                        fails.append(Failure("resume-deleted", f"{where}, first resume: {dels[0][1]} {dels[0][2]}"))
                        break
                    ran15 = {ev[1] for ev in cb15.events if ev[0] == "operation_start"}
                    bad = [n for n in sorted(ran15) if n in ops_complete and n not in zero_d and n != "create-arrays"]
                    if bad:
                        fails.append(Failure("recomputed-complete-op", f"{where}, first resume: {bad[0]} was re-run although all its outputs were complete"))
                        break
                    lost = [kk for kk in snap if H.is_chunk_key(kk) and kk not in inner]
                    if lost:
                        fails.append(Failure("chunk-lost-on-resume", f"{where}, first resume: {lost[0]} is gone"))
                        break
                    snap = {kk: v.to_bytes() for kk, v in inner.items()}
                    complete, partial, arrays_meta = _complete_paths(inner)
                    ops_complete = {n for n, ps in produces.items() if ps and all(p in complete for p in ps)}
                    where += f" then crash {kind2}#{j} of the resumed run"
                    ts.state.clear()
                else:
                    # the resumed run finished before its crash point: nothing left to resume; judge it like a plain resumed run below
                    # by re-creating the state after the first crash
                    labels.add("second-crash-point-not-reached")
                    inner.clear()
                    from zarr.core.buffer import default_buffer_prototype

                    for kk, v in snap.items():
                        inner[kk] = default_buffer_prototype().buffer.from_bytes(v)
                    ts.state.clear()
            # ---- resumed run
            rn = case["resume_executor"]
            if rn == "schedule":
                ex2 = H.ScheduleExecutor(H.Schedule())
            else:
                # the resumed run may visit operations by topological generations (compute_arrays_in_parallel) or in batches
                eo = {"threads-parallel": {"compute_arrays_in_parallel": True}, "threads-batch": {"batch_size": 2}}.get(rn, {})
                ex2 = H.RecordingExecutor(H.make_executor(rn.split("-")[0] if rn.startswith("threads") else rn, max_workers=2, **eo))
            cb = H.RecordingCallback()
            try:
                res = [np.asarray(r) for r in cubed.compute(*outs, executor=ex2, callbacks=[cb], resume=True, **kw)]
            except Exception as e:
                entered = ex2.entered
                tasks_done = any(ev[0] == "task_end" for ev in cb.events)
                if not tasks_done and (structured or isinstance(e, NotImplementedError)):
                    labels.add(f"resume-refused:{type(e).__name__}")
                    continue
                fails.append(Failure(f"resume-failed:{type(e).__name__}", f"{where}: {e!r}"[:300]))
                continue
            # (a) values
            for oid, a, b in zip(list(prog["outputs"]) + ["sink"] * len(lazy), clean, res):
                if a.shape != b.shape or not np.array_equal(a, b, equal_nan=True):
                    fails.append(Failure("resumed-result-differs", f"{where}: output {oid} differs from the clean run"))
                    break
            ran = {ev[1] for ev in cb.events if ev[0] == "operation_start"}
            skipped = set(produces) - ran
            # (b) skipped => complete
            for n in sorted(skipped):
                if produces[n] and n not in ops_complete:
                    missing = [p for p in produces[n] if p not in complete]
                    fails.append(Failure("skipped-incomplete-op", f"{where}: {n} was skipped on resume although {missing} was not completely written"))
                    break
            # (c) complete => not re-run (except create-arrays and 0-d outputs)
            for n in sorted(ran):
                if n in ops_complete and n not in zero_d and n != "create-arrays":
                    fails.append(Failure("recomputed-complete-op", f"{where}: {n} was re-run although all its outputs were complete"))
                    break
            # (d) no deletes, no lost or changed chunks
            dels = [r for r in ts.state.log if r[1] in ("delete", "delete_dir")]
            if dels:
                fails.append(Failure("resume-deleted", f"{where}: {dels[0][1]} {dels[0][2]}"))
            now = {kk: v.to_bytes() for kk, v in inner.items()}
            rerun_paths = {p for n in ran for p in produces.get(n, [])}
            for kk, v in snap.items():
                if not H.is_chunk_key(kk):
                    continue
                if kk not in now:
                    fails.append(Failure("chunk-lost-on-resume", f"{where}: {kk} existed after the crash and is gone after the resumed run"))
                    break
                path = H.split_key(kk)[0]
                if now[kk] != v and path not in rerun_paths:
                    fails.append(Failure("chunk-changed-on-resume", f"{where}: {kk} changed although its producer was not re-run"))
                    break
            if fails:
                break
    if acc is not None:
        acc.bump("crash_points_executed", n_points)
        acc.bump("crash_points_nontrivial", n_nontrivial)
        acc.bump("programs", 1)
        acc.evaluations += max(n_points - 1, 0)  # one evaluation = one (program, crash point)
    labels.add(f"points={min(n_points, 48) // 8 * 8}+")
    seen, uniq = set(), []
    for f in fails:
        if f.bucket not in seen:
            seen.add(f.bucket)
            uniq.append(f)
    return Outcome(nontrivial=False if acc is not None else n_nontrivial > 0, labels=tuple(labels), failures=tuple(uniq))


def shards(tier):
    if tier == "quick":
        return [{"kind": "program", "name": f"s{i}", "n": 6, "rotate": 37 + i * 67} for i in range(8)] + [
            {"kind": "program", "name": f"multi-out{i}", "n": 5, "rotate": 11 + i * 31, "multi_output": True} for i in range(3)]
    return [{"kind": "program", "name": f"s{i}", "n": 90, "rotate": 37 + i * 67} for i in range(16)] + [
        {"kind": "program", "name": f"multi-out{i}", "n": 90, "rotate": 11 + i * 31, "multi_output": True} for i in range(6)]


def run_shard(spec, seed, tier) -> Acc:
    acc = Acc()
    if spec["kind"] == "__corpus__":
        return core.corpus_shard(sys.modules[__name__], acc)
    is_known, _ = core.known_matcher(ID)
    opts = {"rotate": spec.get("rotate", 0), "allow_zero": False, "max_dims": 3}
    if spec.get("multi_output"):
        # operations with several outputs (one task writes a chunk of each): a crash between the writes of one task leaves the
        # first output complete and a later one not
        from vp.ir import OPS

        opts["only_ops"] = sorted(n for n, o in OPS.items() if {"multi-output", "multi-output-single-parent", "pick"} & set(o.tags)) + ["add", "negative", "sum"]
    core.hyp_run(case_strategy(opts), lambda c: check_case(c, acc), seed=seed, max_examples=spec["n"], acc=acc,
                 budget_s=420 if tier == "quick" else 3000, shrink=False, is_known=is_known)
    return acc


def replay(case):
    return check_case(case).all_failures()
