#!/bin/bash
# usage: tools/import_all.sh "<groupN>=<m1,m2,..> ..." "<ID:K:extra ...>"   (imports with demo + group result + idle re-run text)
for spec in $1; do
  G=${spec%%=*}; MS=${spec#*=}
  for m in ${MS//,/ }; do
    ID=${m:0:3}; K=${m:3:1}
    { echo "$(cat /tmp/sw/$m.demo); full suite: $(cat /tmp/sw/$G.result)"; [ -f /tmp/sw/$m.idle ] && echo "; $(cat /tmp/sw/$m.idle)"; } | tr '\n' ' ' > /tmp/sw/$m.confirm
    EXTRA=$(echo "$2" | tr ' ' '\n' | grep "^$ID:$K:" | cut -d: -f3)
    /venv/bin/python tools/seeded_tool.py import $ID $K --result /tmp/sw/$m.confirm ${EXTRA:+--extra $EXTRA}
  done
done
