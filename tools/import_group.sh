#!/bin/bash
# usage: tools/import_group.sh <groupN> "<extra checks per mutant as ID:K:C05,C14 ...>"   imports all changes of a verified group into seeded/
G=$1
RES=$(cat /tmp/sw/$G.result)
for m in $(echo "$RES" | sed 's/.*applied together:\[\(.*\) \] full.*/\1/'); do
  ID=${m:0:3}; K=${m:3:1}
  echo "$(cat /tmp/sw/$m.demo); tests: $RES" > /tmp/sw/$m.confirm
  EXTRA=$(echo "$2" | tr ' ' '\n' | grep "^$ID:$K:" | cut -d: -f3)
  /venv/bin/python tools/seeded_tool.py import $ID $K --result /tmp/sw/$m.confirm ${EXTRA:+--extra $EXTRA}
done
