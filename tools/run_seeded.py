#!/usr/bin/env python3
"""Run checks against a seeded change.

    tools/run_seeded.py <seeded dir or patch file> [--checks C05,C14] [--tier quick] [--seeds 1,2]

The patch is applied to a scratch copy of /repo's cubed package (never to /repo itself); the checks run with
VERIF_REPO pointing at the copy; the copy is removed afterwards. Prints one line per (check, seed): CAUGHT / missed.
"""
import argparse
import json
import os
import shutil
import subprocess
import sys
import tempfile

ROOT = os.path.dirname(os.path.dirname(os.path.abspath(__file__)))


def main():
    ap = argparse.ArgumentParser()
    ap.add_argument("patch")
    ap.add_argument("--checks", default="")
    ap.add_argument("--tier", default="quick")
    ap.add_argument("--seeds", default="1")
    ap.add_argument("--keep", action="store_true")
    a = ap.parse_args()
    patch = a.patch
    if os.path.isdir(patch):
        patch = os.path.join(patch, "patch.diff")
    d = tempfile.mkdtemp(prefix="seeded-")
    try:
        subprocess.run(["rsync", "-a", "--exclude", "tests", "--exclude", "__pycache__", "/repo/cubed", d + "/"], check=True)
        r = subprocess.run(["patch", "-p1", "-d", d, "-i", os.path.abspath(patch)], capture_output=True, text=True)
        if r.returncode != 0:
            print("PATCH FAILED", r.stdout[-400:], r.stderr[-400:])
            return 2
        checks = [c for c in a.checks.split(",") if c]
        results = {}
        for c in checks:
            for s in a.seeds.split(","):
                env = dict(os.environ, VERIF_REPO=d, VERIF_SEED=s)
                p = subprocess.run(["/venv/bin/python", "-m", "vp.run", c, "--tier", a.tier], cwd=ROOT, env=env, capture_output=True, text=True)
                viol = [l for l in p.stdout.splitlines() if l.startswith("VIOLATION")]
                buckets = [l.strip() for l in p.stdout.splitlines() if l.strip().startswith("bucket=")]
                results[(c, s)] = (p.returncode, len(viol))
                print(f"{c} seed={s} tier={a.tier}: {'CAUGHT' if p.returncode == 1 else ('missed' if p.returncode == 0 else 'HARNESS-ERROR')} rc={p.returncode} violations={len(viol)}")
                for b in buckets[:3]:
                    print("    " + b[:220])
                if p.returncode == 2:
                    print(p.stderr[-600:])
        return 0
    finally:
        if not a.keep:
            shutil.rmtree(d, ignore_errors=True)


if __name__ == "__main__":
    sys.exit(main())
