#!/bin/bash
# usage: tools/verify_groups.sh "C01A C01B C02A" "C02B C05A ..." ...   each argument = one group of seeded changes
# stage 1 per change: demo on the clean tree / with its own patch.  stage 2 per group: all patches of the group applied
# together (they must not overlap), full test suite once, comparison with the baseline, quiet re-run of failures.
mkdir -p /tmp/sw
G=${G0:-0}
for group in "$@"; do
  G=$((G+1)); WT=/tmp/sw/group$G
  rm -rf $WT; git -C /repo worktree prune; git -C /repo worktree add --detach $WT HEAD -q || continue
  cd $WT
  OK=""
  for m in $group; do
    ID=${m:0:3}; K=${m:3:1}; SRC=/tmp/wt/$ID-out
    /venv/bin/python $SRC/demo$K.py > /tmp/sw/$m.clean.log 2>&1; C=$?
    if git apply $SRC/mut$K.diff 2>/dev/null; then
      /venv/bin/python $SRC/demo$K.py > /tmp/sw/$m.patched.log 2>&1; P=$?
      git apply -R $SRC/mut$K.diff
      echo "demo_clean_rc=$C demo_patched_rc=$P" > /tmp/sw/$m.demo
      OK="$OK $m"
    else
      echo "PATCH DOES NOT APPLY" > /tmp/sw/$m.demo
    fi
  done
  APPLIED=""
  for m in $OK; do
    ID=${m:0:3}; K=${m:3:1}
    if git apply /tmp/wt/$ID-out/mut$K.diff 2>/dev/null; then APPLIED="$APPLIED $m"; else echo "$m: overlaps within group, not applied" >> /tmp/sw/group$G.note; fi
  done
  /venv/bin/python -m pytest -q -p no:cacheprovider --timeout=900 --continue-on-collection-errors -n 14 --junitxml=/tmp/sw/group$G.junit.xml > /tmp/sw/group$G.pytest.log 2>&1
  python3 /verif/tools/compare_baseline.py /tmp/sw/group$G.junit.xml > /tmp/sw/group$G.cmp 2>&1
  BADFILES=$(grep "^BAD" /tmp/sw/group$G.cmp | awk '{print $2}' | sed 's/::.*//' | sed 's/\./\//g' | sed 's/$/.py/' | sort -u | tr '\n' ' ')
  RERUN="none needed"
  if [ -n "$BADFILES" ]; then
    /venv/bin/python -m pytest -q -p no:cacheprovider --timeout=900 -k "not spark" -n 2 $BADFILES > /tmp/sw/group$G.rerun.log 2>&1
    RERUN=$(tail -1 /tmp/sw/group$G.rerun.log)
  fi
  echo "group$G applied together:[$APPLIED ] full: $(tail -1 /tmp/sw/group$G.pytest.log) | $(head -1 /tmp/sw/group$G.cmp) | rerun of [$BADFILES]: $RERUN" > /tmp/sw/group$G.result
  cd /; git -C /repo worktree remove --force $WT
done
