#!/usr/bin/env python3
"""Compare a junit xml of the repository's test suite with /root/.vp/BASELINE.json stable_pass."""
import json, sys, xml.etree.ElementTree as ET
base = json.load(open("/root/.vp/BASELINE.json"))
stable = set(base["stable_pass"])
root = ET.parse(sys.argv[1]).getroot()
res = {}
for tc in root.iter("testcase"):
    name = f"{tc.get('classname')}::{tc.get('name')}"
    st = "pass"
    for ch in tc:
        if ch.tag in ("failure", "error"): st = "fail"
        elif ch.tag == "skipped": st = "skip"
    res[name] = st
missing = [n for n in stable if n not in res]
bad = [n for n in stable if res.get(n) in ("fail", "skip")]
print(f"stable_pass={len(stable)} seen={len(res)} passing_of_stable={sum(1 for n in stable if res.get(n)=='pass')} bad={len(bad)} missing={len(missing)}")
for n in bad[:40]: print("BAD", n, res[n])
for n in missing[:10]: print("MISSING", n)
sys.exit(1 if bad or missing else 0)
