#!/usr/bin/env python3
"""Regenerate the table of seeded changes in DESIGN.md (between the seeded-table markers) from seeded/*/meta.json."""
import glob, json, os, re
ROOT = os.path.dirname(os.path.dirname(os.path.abspath(__file__)))
rows = []
for mp in sorted(glob.glob(os.path.join(ROOT, "seeded", "*", "meta.json"))):
    m = json.load(open(mp))
    by = {}
    for k, v in m.get("detection", {}).items():
        if isinstance(v, dict):
            c, tier, seed = k.split(":")
            by.setdefault((c, tier), []).append(bool(v.get("caught")))
    own = by.get((m["property"], "quick"), [])
    cells = []
    for (c, tier), v in sorted(by.items(), key=lambda kv: (kv[0][0] != m["property"], kv[0])):
        cells.append(f"{c}{'' if tier == 'quick' else ' ' + tier} {sum(v)}/{len(v)}")
    summ = re.sub(r"\s+", " ", m.get("summary", "")).strip()
    short = summ[:150] + ("…" if len(summ) > 150 else "")
    rows.append(f"| {m['id']} | {short.replace('|', '/')} | {', '.join(cells) or 'not evaluated'} | {m.get('note', '')} |")
table = "| id | change (abridged; full text in meta.json) | reported by (check: seeds caught / seeds run, quick tier) | note |\n|---|---|---|---|\n" + "\n".join(rows)
p = os.path.join(ROOT, "DESIGN.md")
s = open(p).read()
b, e = "<!-- seeded-table-begin -->", "<!-- seeded-table-end -->"
assert b in s and e in s
s = s[: s.index(b) + len(b)] + "\n" + table + "\n" + s[s.index(e):]
open(p, "w").write(s)
print(len(rows), "rows")
