#!/bin/bash
# usage: tools/seed_sweep.sh "<seeds>" [tier] [ids...]   runs the checks at several VERIF_SEED values on the unchanged tree; prints one line per run
SEEDS=$1; TIER=${2:-quick}; shift; shift
IDS=${@:-C01 C02 C03 C04 C05 C06 C07 C08 C09 C10 C11 C12 C13 C14 C15 C16 C17 C18 C19 C20}
for s in $SEEDS; do for id in $IDS; do
  t0=$(date +%s)
  VERIF_SEED=$s /venv/bin/python -m vp.run $id --tier $TIER > sweep_${id}_${s}.log 2>&1; rc=$?
  echo "seed=$s $id rc=$rc $(( $(date +%s) - t0 ))s $(grep -c '^VIOLATION' sweep_${id}_${s}.log) violations"; [ $rc -ne 0 ] && grep -E "VIOLATION|bucket=|Traceback|Error" sweep_${id}_${s}.log | head -8
done; done
