#!/bin/bash
# usage: tools/verify_queue.sh "C05 A" "C05 B" ...   -- sequential confirmation of seeded changes (full suite, then quiet re-run of failures)
for x in "$@"; do
  set -- $x; ID=$1; K=$2
  SRC=/tmp/wt/$ID-out; WT=/tmp/sw/$ID$K; OUT=/tmp/sw/$ID$K.result
  mkdir -p /tmp/sw; rm -rf $WT; git -C /repo worktree prune; git -C /repo worktree add --detach $WT HEAD -q || { echo "worktree failed" > $OUT; continue; }
  cd $WT
  /venv/bin/python $SRC/demo$K.py > $WT.clean.log 2>&1; C=$?
  if ! git apply $SRC/mut$K.diff; then echo "PATCH DOES NOT APPLY" > $OUT; cd /; git -C /repo worktree remove --force $WT; continue; fi
  /venv/bin/python $SRC/demo$K.py > $WT.patched.log 2>&1; P=$?
  /venv/bin/python -m pytest -q -p no:cacheprovider --timeout=900 --continue-on-collection-errors -n 14 --junitxml=$WT.junit.xml > $WT.pytest.log 2>&1
  python3 /verif/tools/compare_baseline.py $WT.junit.xml > $WT.cmp 2>&1
  BADFILES=$(grep "^BAD" $WT.cmp | awk '{print $2}' | sed 's/::.*//' | sed 's/\./\//g' | sed 's/$/.py/' | sort -u | tr '\n' ' ')
  RERUN=""
  if [ -n "$BADFILES" ]; then
    /venv/bin/python -m pytest -q -p no:cacheprovider --timeout=900 -k "not spark" -n 2 $BADFILES > $WT.rerun.log 2>&1
    RERUN=$(tail -1 $WT.rerun.log)
  fi
  echo "demo_clean_rc=$C demo_patched_rc=$P full: $(tail -1 $WT.pytest.log) | $(head -1 $WT.cmp) | rerun of [$BADFILES]: $RERUN" > $OUT
  cd /; git -C /repo worktree remove --force $WT
done
