"""debug helper: python tools/find_label.py <module> <label-substring> [tier] — prints cases whose outcome has the label"""
import sys, json, importlib
sys.path.insert(0, "/verif")
import vp
from vp import core
mod = importlib.import_module("vp." + sys.argv[1]); pat = sys.argv[2]; tier = sys.argv[3] if len(sys.argv) > 3 else "quick"
orig = mod.check_case
found = []
def wrapped(case):
    out = orig(case)
    if any(pat in l for l in out.labels) and len(found) < 3:
        found.append(case); print(json.dumps(case)[:3000]); print([l for l in out.labels if pat in l]); sys.stdout.flush()
    return out
mod.check_case = wrapped
specs = mod.shards(tier)
seed = core.verif_seed()
for i, spec in enumerate([{"kind":"__corpus__"}] + list(specs)):
    if spec["kind"] == "__corpus__": continue
    s = core.derive_seed(seed, mod.ID, spec.get("name", spec.get("kind")), i)
    mod.run_shard(spec, s, tier)
    if len(found) >= 3: break
