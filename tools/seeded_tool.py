#!/usr/bin/env python3
"""Maintenance of /verif/seeded/ (independently written breaking changes).

  seeded_tool.py import <ID> <K> [--result /tmp/sw/<ID><K>.result] [--extra C14,C11]
        copy /tmp/wt/<ID>-out/{mut<K>.diff,demo<K>.py,meta<K>.json} to seeded/<ID>-<K>/ and record my confirmation
  seeded_tool.py eval [<dir> ...] [--tier quick] [--seeds 1,2]
        run the checks named in each meta.json ("checks") against the patch (scratch copy, VERIF_REPO) and record the outcome
  seeded_tool.py readme
        regenerate seeded/README.md from the meta files
"""
import argparse
import json
import os
import shutil
import subprocess
import sys
import tempfile

ROOT = os.path.dirname(os.path.dirname(os.path.abspath(__file__)))
SEEDED = os.path.join(ROOT, "seeded")


def cmd_import(a):
    src = a.src or f"/tmp/wt/{a.id}-out"
    d = os.path.join(SEEDED, f"{a.id}-{a.as_k or a.k}")
    os.makedirs(d, exist_ok=True)
    shutil.copy(f"{src}/mut{a.k}.diff", f"{d}/patch.diff")
    shutil.copy(f"{src}/demo{a.k}.py", f"{d}/demo.py")
    meta = {}
    try:
        meta = json.load(open(f"{src}/meta{a.k}.json"))
    except Exception:
        pass
    out = {
        "id": f"{a.id}-{a.as_k or a.k}",
        "property": a.id,
        "summary": meta.get("summary", ""),
        "needs": meta.get("needs", ""),
        "files": meta.get("files", []),
        "author": "fresh sub-agent given only the property text and its own worktree of /repo",
        "author_tests_run": meta.get("tests_run", ""),
        "checks": sorted(set([a.id] + [c for c in (a.extra or "").split(",") if c])),
    }
    if a.result and os.path.exists(a.result):
        out["confirmed_by_me"] = open(a.result).read().strip()
    json.dump(out, open(f"{d}/meta.json", "w"), indent=1)
    print("imported", d)


def run_checks(patch, checks, tier, seeds):
    d = tempfile.mkdtemp(prefix="seeded-")
    res = {}
    try:
        subprocess.run(["rsync", "-a", "--exclude", "tests", "--exclude", "__pycache__", "/repo/cubed", d + "/"], check=True)
        r = subprocess.run(["patch", "-p1", "-d", d, "-i", os.path.abspath(patch)], capture_output=True, text=True)
        if r.returncode != 0:
            return {"error": "patch does not apply: " + (r.stdout + r.stderr)[-300:]}
        for c in checks:
            for s in seeds:
                env = dict(os.environ, VERIF_REPO=d, VERIF_SEED=str(s))
                p = subprocess.run(["/venv/bin/python", "-m", "vp.run", c, "--tier", tier], cwd=ROOT, env=env, capture_output=True, text=True)
                buckets = [l.strip()[7:].split(" count=")[0] for l in p.stdout.splitlines() if l.strip().startswith("bucket=")]
                res[f"{c}:{tier}:seed{s}"] = {"caught": p.returncode == 1, "rc": p.returncode, "buckets": buckets[:4]}
                print(f"  {c} {tier} seed={s}: {'CAUGHT' if p.returncode == 1 else 'missed' if p.returncode == 0 else 'ERROR'} {buckets[:2]}")
    finally:
        shutil.rmtree(d, ignore_errors=True)
    return res


def cmd_eval(a):
    dirs = a.dirs or sorted(os.path.join(SEEDED, x) for x in os.listdir(SEEDED) if os.path.isdir(os.path.join(SEEDED, x)))
    for d in dirs:
        mp = os.path.join(d, "meta.json")
        meta = json.load(open(mp))
        print(meta["id"])
        res = run_checks(os.path.join(d, "patch.diff"), meta.get("checks") or [meta["property"]], a.tier, [int(s) for s in a.seeds.split(",")])
        meta.setdefault("detection", {}).update(res)
        json.dump(meta, open(mp, "w"), indent=1)


def cmd_readme(a):
    rows = []
    for x in sorted(os.listdir(SEEDED)):
        mp = os.path.join(SEEDED, x, "meta.json")
        if not os.path.exists(mp):
            continue
        m = json.load(open(mp))
        det = m.get("detection", {})
        by = {}
        for k, v in det.items():
            if not isinstance(v, dict):
                continue
            c, tier, seed = k.split(":")
            by.setdefault((c, tier), []).append(v.get("caught"))
        cell = "; ".join(f"{c} {tier}: {sum(bool(z) for z in v)}/{len(v)} seeds" for (c, tier), v in sorted(by.items())) or "not evaluated"
        rows.append((m["id"], m["property"], m.get("summary", "").replace("\n", " ")[:260], m.get("needs", "").replace("\n", " ")[:200], cell, m.get("note", "")))
    with open(os.path.join(SEEDED, "README.md"), "w") as f:
        f.write("# Seeded changes\n\nEach directory holds `patch.diff` (apply with `git -C /repo apply`), `demo.py` (run from the repository root: exits 1 with the "
                "change, 0 without) and `meta.json`. They were written by fresh sub-agents that saw only the text of one property and their own worktree, "
                "never `/verif`. I confirmed each one in a scratch worktree (demo on the clean tree and with the patch; the repository's test suite with the "
                "patch, see `confirmed_by_me`), then ran the checks against it (`tools/seeded_tool.py eval`, scratch copy + `VERIF_REPO`; nothing is ever "
                "committed to /repo).\n\n| id | property | change | needs | detection | note |\n|---|---|---|---|---|---|\n")
        for r in rows:
            f.write("| " + " | ".join(str(c).replace("|", "/") for c in r) + " |\n")
    print("wrote README with", len(rows), "rows")


def main():
    ap = argparse.ArgumentParser()
    sub = ap.add_subparsers(dest="cmd")
    p = sub.add_parser("import")
    p.add_argument("id")
    p.add_argument("k")
    p.add_argument("--result")
    p.add_argument("--extra")
    p.add_argument("--src", help="directory holding mut<K>.diff, demo<K>.py, meta<K>.json (default /tmp/wt/<ID>-out)")
    p.add_argument("--as-k", dest="as_k", help="letter to store the change under (second-round changes: C, D)")
    p = sub.add_parser("eval")
    p.add_argument("dirs", nargs="*")
    p.add_argument("--tier", default="quick")
    p.add_argument("--seeds", default="1,2")
    sub.add_parser("readme")
    a = ap.parse_args()
    {"import": cmd_import, "eval": cmd_eval, "readme": cmd_readme}[a.cmd](a)


if __name__ == "__main__":
    main()
