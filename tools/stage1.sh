#!/bin/bash
# usage: tools/stage1.sh C01C C01D ...  -- demo on a clean worktree and with the patch; writes /tmp/sw/<m>.demo
mkdir -p /tmp/sw
for m in "$@"; do
  ID=${m:0:3}; K=${m:3:1}; SRC=/tmp/wt/$ID-out; WT=/tmp/sw/s1-$m
  rm -rf $WT; git -C /repo worktree prune; git -C /repo worktree add --detach $WT HEAD -q || continue
  cd $WT
  timeout 600 /venv/bin/python $SRC/demo$K.py > /tmp/sw/$m.clean.log 2>&1; C=$?
  if git apply $SRC/mut$K.diff 2>/dev/null; then
    timeout 600 /venv/bin/python $SRC/demo$K.py > /tmp/sw/$m.patched.log 2>&1; P=$?
    echo "demo_clean_rc=$C demo_patched_rc=$P" > /tmp/sw/$m.demo
  else
    echo "PATCH DOES NOT APPLY" > /tmp/sw/$m.demo
  fi
  echo "$m: $(cat /tmp/sw/$m.demo) files: $(git status --short | tr '\n' ' ')"
  cd /; git -C /repo worktree remove --force $WT
done
