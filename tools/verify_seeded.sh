#!/bin/bash
# usage: tools/verify_seeded.sh <ID> <k> [full]   -- confirms a sub-agent's seeded change in a fresh worktree of /repo HEAD
ID=$1; K=$2; FULL=$3
SRC=/tmp/wt/$ID-out
WT=/tmp/sw/$ID$K
mkdir -p /tmp/sw; rm -rf $WT; git -C /repo worktree prune; git -C /repo worktree add --detach $WT HEAD -q || exit 2
cd $WT
echo "== $ID$K demo on clean tree"; /venv/bin/python $SRC/demo$K.py > $WT.clean.log 2>&1; echo "rc=$?"
git apply $SRC/mut$K.diff || { echo "PATCH DOES NOT APPLY"; exit 3; }
echo "== demo with patch"; /venv/bin/python $SRC/demo$K.py > $WT.patched.log 2>&1; echo "rc=$?"; tail -3 $WT.patched.log
if [ "$FULL" = "full" ]; then
  echo "== full suite with patch"
  /venv/bin/python -m pytest -q -p no:cacheprovider --timeout=900 --continue-on-collection-errors -n 3 --junitxml=$WT.junit.xml > $WT.pytest.log 2>&1
  tail -1 $WT.pytest.log
  python3 /verif/tools/compare_baseline.py $WT.junit.xml | head -8
fi
cd /; git -C /repo worktree remove --force $WT
