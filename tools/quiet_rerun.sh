#!/bin/bash
# usage: tools/quiet_rerun.sh groupN "C01B C02B ..."   re-runs the load-sensitive test modules with the group's patches applied
G=$1; WT=/tmp/sw/q$G
rm -rf $WT; git -C /repo worktree prune; git -C /repo worktree add --detach $WT HEAD -q || exit 2
cd $WT
for m in $2; do ID=${m:0:3}; K=${m:3:1}; git apply /tmp/wt/$ID-out/mut$K.diff || echo "apply failed $m"; done
/venv/bin/python -m pytest -q -p no:cacheprovider --timeout=900 -k "not spark" -n 2 cubed/tests/array/test_nan_functions.py cubed/tests/runtime/test_local.py cubed/tests/test_core.py::test_default_spec_config_override > /tmp/sw/$G.quiet.log 2>&1
echo "quiet re-run of test_nan_functions.py, runtime/test_local.py, test_default_spec_config_override with [$2] applied: $(tail -1 /tmp/sw/$G.quiet.log)" > /tmp/sw/$G.quiet
cd /; git -C /repo worktree remove --force $WT
