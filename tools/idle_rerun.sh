#!/bin/bash
# usage: tools/idle_rerun.sh C01A C01B ...   (run on an otherwise IDLE machine)
# packs the seeded changes greedily into as few worktrees as their hunks allow and runs the load-sensitive baseline tests
# (hypothesis deadline tests of test_nan_functions, timing tests of runtime/test_local, test_default_spec_config_override)
# in a single process; writes /tmp/sw/<change>.idle
mkdir -p /tmp/sw; REST="$@"; G=0
while [ -n "$REST" ]; do
  G=$((G+1)); WT=/tmp/sw/idle$G; rm -rf $WT; git -C /repo worktree prune; git -C /repo worktree add --detach $WT HEAD -q || exit 2
  cd $WT; IN=""; OUT=""
  for m in $REST; do ID=${m:0:3}; K=${m:3:1}
    if git apply /tmp/wt/$ID-out/mut$K.diff 2>/dev/null; then IN="$IN $m"; else OUT="$OUT $m"; fi
  done
  if [ -z "$IN" ]; then echo "cannot apply: $OUT"; break; fi
  /venv/bin/python -m pytest -q -p no:cacheprovider --timeout=900 -p no:xdist cubed/tests/array/test_nan_functions.py cubed/tests/runtime/test_local.py cubed/tests/test_core.py::test_default_spec_config_override > /tmp/sw/idle$G.log 2>&1
  for m in $IN; do echo "idle single-process re-run of test_nan_functions.py, runtime/test_local.py, test_default_spec_config_override with [$IN ] applied: $(tail -1 /tmp/sw/idle$G.log)" > /tmp/sw/$m.idle; done
  cd /; git -C /repo worktree remove --force $WT
  REST="$OUT"
done
