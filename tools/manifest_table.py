"""Per-property manifest entries (edited as checks are built)."""

CHECKS = {
    "C14": dict(
        level="exploration",
        technique="property-based testing (Hypothesis) of the planner functions and of real rechunk plans against stage invariants; exhaustive enumeration of the small-geometry cube in the thorough tier",
        text="Generated geometries (1-3 dims, sides up to 1e6, biased to co-prime / transpose-like / boundary budgets) are fed to both planner functions and to Array.rechunk; every returned plan is checked against chain, memory, alignment and termination invariants, and small arrays are executed end to end. Exploration cannot prove the unbounded domain; the cube sides<=8 x 1-2 dims is enumerated completely in the thorough tier.",
        design_ref="DESIGN.md section 3 C14",
        note="Trusted: NumPy, zarr, Hypothesis; the planner budget is the max_mem passed to the planner. Operation-level projected memory is checked by C03/C04, not here.",
    ),
}

NOT_BUILT = {}

CHECKS["C01"] = dict(
    level="exploration",
    technique="property-based differential testing: generated programs over the public API (Hypothesis, constructive generator) vs the same program evaluated by NumPy",
    text="Programs (DAGs of up to 6 operations, plus one- and two-operation programs that visit every entry in every run, from a 161-entry table of public functions/operators over 1-3 inputs with independent chunkings, all dtypes, size-0/size-1 dims) are computed under a drawn executor (task-order-permuting sequential, single-threaded, threads, processes) with optimization on/off and compared with NumPy output by output; failures are bucketed by the earliest wrong node and shrunk. Exploration: the space is unbounded, sizes are bounded (sides <= 12, <= 4 dims).",
    design_ref="DESIGN.md section 3 C01",
    note="Trusted: NumPy as reference, Hypothesis, zarr. dtype is not compared (C12). Float comparisons exact where results are exactly representable, stated tolerances otherwise; discontinuous functions of inexact values are not compared.",
)
CHECKS["C17"] = dict(
    level="exploration",
    technique="property-based testing: generated NumPy-valid programs, phase-separated execution (build / plan+validate / execute behind a recording executor), classification of exception type and phase",
    text="Every generated program is NumPy-valid by construction; cubed must either succeed or raise ValueError/TypeError/NotImplementedError/IndexError while building or planning. Any other exception type before execution, and any exception after the executor was entered (fault-free in-memory storage), is a violation; buckets are keyed by phase, exception, innermost cubed frame / failing operation and a root-cause predicate.",
    design_ref="DESIGN.md section 3 C17",
    note="Trusted: the phase boundary is observed with a recording executor wrapper; storage is fault-free MemoryStore. Known findings are listed in KNOWN_FINDINGS.txt.",
)

CHECKS["C12"] = dict(
    level="exploration",
    technique="property-based testing: generated programs executed on a schedule-owning executor whose write proxies check every written block's shape against its target region; declared metadata compared with computed results and stored zarr metadata",
    text="For every generated program all nodes are requested unoptimized (run A) and the outputs optimized (run B). Every task of every operation writes through checking proxies (cubed's own task bodies run unchanged) that compare value.shape with the selection's shape, so a block silently broadcast or truncated by Zarr is seen even when final values happen to be right. Declared shape/dtype/chunks are compared with the computed result, NumPy's shape and the zarr array opened from storage (for lazy store/to_zarr results inside the program: the target itself).",
    design_ref="DESIGN.md section 3 C12",
    note="Zero-element blocks are exempt from the block-shape clause (nothing is written). Trusted: the proxy substitution via dataclasses.replace on BlockwiseSpec.writes_map (public dataclass field).",
)
CHECKS["C05"] = dict(
    level="exploration",
    technique="property-based testing with a trace invariant: generated programs (rechunks under tight memory budgets, store/to_zarr call shapes) run on a schedule-owning executor over a tracing zarr store; per-key single-writer / whole-chunk / coverage analysis against the chunk grid parsed from stored metadata",
    text="Each case executes on a zarr Store wrapper that records every get/set with the task that issued it. For every array written (intermediates, rechunk stages with regular and rectilinear grids, user targets incl. regions, groups, sharded and differently chunked existing arrays) the check requires: all grid keys set, each exactly once and by one task, no read of the key by its writer before the set, nothing outside the grid/region. Tight-budget rechunk geometries are shared with C14's generator.",
    design_ref="DESIGN.md section 3 C05",
    note="Grid truth is parsed from the stored zarr.json (regular and rectilinear), independent of cubed's bookkeeping. Sharded targets are exempt from the no-prior-read clause (zarr reads edge shards itself). Racing writers are not simulated; the single-writer invariant is what excludes races.",
)

CHECKS["C06"] = dict(
    level="exploration",
    technique="property-based schedule sampling: the same plan is executed under a reference schedule and under generated schedules (task permutations, duplicated executions at three timings, cloudpickle round trip, fresh interpreter per task) and the complete store contents are compared byte for byte",
    text="The harness owns the schedule through a DagExecutor that calls cubed's own task functions: it permutes the tasks of each operation, re-runs drawn tasks immediately / after their operation / after all downstream operations (array-creation tasks included), and runs tasks from their serialized form in-process or in a fresh interpreter; separate shards run the same unoptimized plan on the real processes executor with batch_size in {1,2,3}, optional backups and both array-ordering modes and compare its results with in-process execution. Oracle: every key of the store holds identical bytes to the reference schedule, rewritten keys always carry the same bytes, results are equal; random arrays regenerate identically while distinct blocks/arrays differ.",
    design_ref="DESIGN.md section 3 C06",
    note="Duplicates are re-executions of completed tasks (no two writers of one key race). Serialized execution uses a LocalStore directory. Schedules are sampled, not enumerated.",
)

CHECKS["C11"] = dict(
    level="exploration",
    technique="property-based testing of store/to_zarr call shapes: generated sources x targets (sentinel-prefilled, traced) x regions x eager/lazy x repeated sources x executors; targets read back with plain zarr and compared with the expected image; rejected calls must leave no trace",
    text="Sinks are drawn over the nodes of a generated program: fresh paths, groups, existing arrays with equal / different / non-dividing chunking, sharded arrays, aligned regions (offsets, last partial chunk, all-slice(None)), mis-aligned regions, the same source stored several times, eager or lazy (computed together or one by one), on the permuting sequential executor, single-threaded and threads. Every target is read back from the unwrapped store with plain zarr: region = source values (NumPy oracle), complement = sentinel. Mis-aligned regions must raise before any write; a valid call shape that fails after execution started is also reported.",
    design_ref="DESIGN.md section 3 C11",
    note="Trusted: NumPy oracle for source values (C01 tolerances), zarr for reading back. Races under threads are sampled, the structural cause (shared chunks) is C05's invariant.",
)

CHECKS["C18"] = dict(
    level="exploration",
    technique="property-based testing with Hypothesis, one seeded run per multi-array entry point (99 entry points derived from the shared op table and by reflection on cubed.Array): same-Spec control call, then the mixed-Spec call under a never-executor with store/file snapshots and plan-DAG inspection; exact rational oracle (fractions.Fraction) for memory-size literals; plan introspection for budget identity",
    text="For every entry point taking two or more arrays (elementwise functions, all operator dunders incl. reflected and in-place forms, where, clip/diff with array arguments, concat, stack, matmul, tensordot, vecdot, outer, isin, searchsorted, meshgrid, broadcast_arrays, map_blocks, apply_gufunc, take/getitem with a cubed index, compute, plan, visualize, store, to_zarr) two Specs differing in exactly one field (or explicit vs config default) are drawn; the call must raise or - for single-parent outputs / eager index evaluation only - return arrays whose plans do not contain both inputs, and nothing may execute or be written. Budgets in every primitive op and the finalized plan must equal the Spec's. Size literals from a grammar with near-miss units must be interpreted exactly or rejected.",
    design_ref="DESIGN.md section 3 C18",
    note="Spec difference = Spec.__eq__ plus comparison of the plain-data fields; refusal types ValueError/TypeError/NotImplementedError; falsy reserved_mem means unset. Sampled, not exhaustive.",
)

CHECKS["C02"] = dict(
    level="exploration",
    technique="property-based differential testing: generated fusion-rich programs x requested-array sets x optimizer settings; optimized run vs optimize_graph=False run (and NumPy), plus read-back of every requested array from storage with plain zarr",
    text="The unoptimized run provides the reference values; the intermediate store is then emptied and the same arrays are computed under a drawn optimizer (default, multiple-input with drawn limits incl. None, always_fuse/never_fuse subsets, legacy simple_optimize_dag, fuse-all, fuse-only) on a drawn executor. Every requested array must have exactly the reference values (stated float tolerance only where results are not exactly representable) and must be fully materialized in storage. Requested sets deliberately include ancestors of other requested arrays. Programs may contain lazy store/to_zarr results as ordinary nodes (existing targets with equal, dividing or unrelated chunks, or a path): a target that the unoptimized run wrote must also be written by the default, multiple-input and legacy optimizers (targets are emptied between the two runs).",
    design_ref="DESIGN.md section 3 C02",
    note="Forced fusion uses a large allowed_mem; max_total_source_arrays=None is outside the supported parameter domain.",
)

CHECKS["C13"] = dict(
    level="exploration",
    technique="property-based testing with a recording Callback: generated programs and store sinks x local executors x optimize x compute_arrays_in_parallel x batch_size; recorded event sequence checked against the finalized plan's task counts and an ordering grammar",
    text="Every case computes a generated program (multi-output ops, rechunks, region stores, fused plans, array creation) with a Callback that records all events. The check requires one compute_start first / compute_end last, exactly one operation_start before and one operation_end after all task_end events of each operation, task_end.num_tasks summing to primitive_op.num_tasks == len(list(pipeline.mappable)), FinalizedPlan.num_tasks equal to the sum, and the event op set equal to the plan's op set; on the in-process executors the task bodies actually invoked are counted per operation (pipelines wrapped by a counting function) and must equal the advertised numbers, a second registered callback must see the same events, and in half of the cases the same arrays are computed a second time in the same process and judged again - on single-threaded, threads (parallel on/off, batch sizes), processes (sampled) and the schedule-owning executor.",
    design_ref="DESIGN.md section 3 C13",
    note="use_backups stays off here (C08). Event order is the order in which callbacks were invoked in the driver process.",
)

CHECKS["C16"] = dict(
    level="exploration",
    technique="property-based testing with a store trace and a recording executor: generated programs covering the whole op table are built, planned, visualized, repr'd and lazily stored under a tracing intermediate store or a not-yet-existing work_dir; any write, chunk read, directory creation or executor entry before a documented trigger is a violation",
    text="After building every node and after each drawn lazy action (plan with several optimizers, visualize to a scratch file, repr/_repr_html_, store/to_zarr(compute=False) into fresh targets, not-yet-existing region targets and over a path that already holds an array of the same or another shape, rechunk, metadata access) the trace must contain no set/delete/chunk read, the work directory must still be absent or empty, lazy targets must not exist and the executor must not have been entered. Then one documented trigger (compute, eager store/to_zarr, __array__, scalar conversions) is exercised and must enter the executor.",
    design_ref="DESIGN.md section 3 C16",
    note="API coverage of the op table versus cubed.__all__ is reported in the evidence. Inputs opened with from_zarr live in a separate store whose metadata may be read.",
)

CHECKS["C04"] = dict(
    level="exploration",
    technique="property-based boundary testing: thresholds (projected_mem of every op of the unoptimized and optimized plan) are collected under a generous budget, then the same generated program is rebuilt with allowed_mem = t-1, t, t+1; admission model (refuse iff max projected > allowed) plus side-effect observation (recording executor, callbacks, store trace, work_dir) and wrapped fuse/fuse_multiple calls",
    text="Each case sits within +-1 of an admission threshold of its own plan, under a drawn optimizer (dedicated shards: trees of binary operations under the forcing optimizers, where the fused projection exceeds every original one), entry point (compute, Array.compute, store, to_zarr), executor and storage set-up. The call must raise the memory error iff the final plan's maximum projected memory exceeds allowed_mem, and a refusal must have entered no executor, fired no callback and written nothing (intermediate store, target store, work_dir). Non-forcing optimizers must not push a fitting plan over budget; every fusion call must report at least the projected memory of each operation it replaced.",
    design_ref="DESIGN.md section 3 C04",
    note="projected_mem values are taken from the plan (their truth is C03's subject). A rechunk-planner refusal at build time counts as refused before running.",
)

CHECKS["C19"] = dict(
    level="exploration",
    technique="metamorphic property-based testing: each generated program is built and computed under the global default config and under 2-4 drawn explicit resource configurations; acceptance class and values must coincide",
    text="Variants: default config without any Spec, explicit Spec equal to the default, explicit work_dir, MemoryStore / LocalStore intermediate store, compressor None / explicit Blosc, different reserved_mem, executor carried by the Spec, larger allowed_mem. For every variant the acceptance class (accepted, declined at build/plan with the same exception type, failed at execute) must equal the default-config run's and accepted runs must return identical values. Operations that create helper arrays internally are weighted up in the generator.",
    design_ref="DESIGN.md section 3 C19",
    note="Budgets of all variants are >= the default's so memory refusals cannot legitimately differ. Random arrays are excluded from the value comparison (fresh root seed per build).",
)

CHECKS["C09"] = dict(
    level="fault_enumeration",
    technique="fault enumeration over generated programs: every crash point at task granularity (schedule-owning executor) and at chunk-write granularity (exception inside the store's set) is executed, followed by compute(resume=True); oracle from the clean run, the post-crash store listing and the resumed run's trace/callbacks",
    text="For each generated program a clean run yields T tasks and W chunk writes; all T+1+W crash points are executed (evenly sampled to 48 for large plans), the crashing run executing each operation's tasks in plan order or in a drawn permutation (so the chunks present after the crash are an arbitrary subset, not only a prefix), the resumed run on a drawn executor (sequential, single-threaded, threads, threads with compute_arrays_in_parallel or batch_size), and in a third of the programs the resumed run is crashed again and resumed a second time; dedicated shards use multi-output operations, where one task writes a chunk of each output and a crash can separate the two writes. After every crash the resumed computation must either refuse before any task (storage that cannot report completeness) or return the clean run's values; operations skipped must have had all output chunks present (checked against the stored grid metadata), complete operations must not be re-run (except array creation / 0-d outputs), and the resumed run must not delete or change pre-existing chunks.",
    design_ref="DESIGN.md section 3 C09",
    note="Crash = exception at a task boundary or inside a chunk write; completed writes are durable. Pre-existing fully initialized user targets are outside the domain (resume defines complete as all chunks present).",
)

CHECKS["C10"] = dict(
    level="exploration",
    technique="model-based stateful property testing (Hypothesis RuleBasedStateMachine): API call histories over a pool of related lazy arrays with a NumPy shadow per array, checksummed inputs and expected images of all earlier store targets; every step is a JSON record applied by one interpreter, so failing histories replay without Hypothesis",
    text="Rules: new input, derive (shared op table), compute (subset, optimize, resume, executor or configured default), store/to_zarr of any member incl. ancestors of others and already stored members (eager/lazy; fresh, group, existing with equal or different chunks, region; the same member to a second target while its first store is still pending), a derived member computed alone and then again together with some of its ancestors with resume on, compute earlier lazy stores, change the default executor, plan/visualize. A compute of several members that fails although each computes alone is a violation. After every step a drawn member must compute to the NumPy value fixed when it was built, all inputs must be byte-identical and every earlier target must still hold its image.",
    design_ref="DESIGN.md section 3 C10",
    note="Histories bounded (14 / 25 steps); single process; no external mutation of stores. Failures of a step itself are C17's business, the history continues.",
)

CHECKS["C03"] = dict(
    level="exploration",
    technique="property-based measurement: generated (operation template, chunk geometry, dtype, compressor, data class, optimizer mode) cases run on real Zarr inputs with a sequential executor that measures the tracemalloc peak of every task of every operation; a violation must reproduce in three measurements and is attributed to a root cause by re-measuring uncompressed / unfused",
    text="About 80 operation templates (public operations, fused chains, fusions that keep two or three predecessor outputs alive, widening reductions over a short axis; every template is visited in every run) on 2-8 MB chunks for every dtype (square, skinny with 8/4/2-wide chunks, wide, uneven geometries; six dtypes; compressor none/default; compressible/incompressible data; optimize off/default/fuse-all; a narrowing chain also under the legacy pairwise optimizer). For every task: tracemalloc peak <= projected_mem + 0.7 MB (reserved_mem = 0, noise 40-80 kB). The full 9,936-cell domain was surveyed once; nine root causes of under-projection (seven from that survey, two found after adding multi-predecessor fusion templates and 2-wide chunk geometries) are recorded as known findings with corpus probes and kept out of the sampled campaign by construction, so the search continues in the remaining region.",
    design_ref="DESIGN.md section 3 C03",
    note="tracemalloc sees Python/NumPy allocations in all threads, not allocations inside C codecs. Peaks depend on how zarr's IO thread interleaves reads, hence the three-measurement rule. Mutations that only remove slack from a still-valid bound are invisible by design.",
)

CHECKS["C15"] = dict(
    level="exploration",
    technique="bounded-exhaustive and property-based differential testing of the blockwise index algebra against an independent reference model; symbolic execution (provenance terms) of generated fusion DAGs through the real optimizer and the real apply_blockwise stage function against recursive evaluation of the unfused description; structural comparison of optimized vs composed unoptimized key functions on real plans",
    text="Part 1 is exhaustive in the thorough tier within the stated bounds (1 arg <= 4 dims, 2 args <= 4 dims, 3 args <= 2 dims, <= 4 symbols, blocks {1,2,3}, every broadcast / new-axis / contraction assignment, all output blocks; 14.3 M expressions modulo symbol renaming) and sampled beyond them. Part 2 explores generated fusion DAGs (depth <= 3, eight key-function shapes, repeated / None / multi-output predecessors, unequal task counts, all optimizer entry points incl. the legacy one) and real plans; the space of fusion structures is unbounded, so this is exploration, not proof.",
    design_ref="DESIGN.md section 3 C15 and appendix E",
    note="Storage is replaced by stand-ins (virtual arrays in part 1, symbolic arrays in part 2). Only fusions the optimizer's own predicates admit are performed. Real plans are compared on key functions only; values are C02's business.",
)
CHECKS["C08"] = dict(
    level="fault_enumeration",
    technique="fault/straggle-script enumeration and property-based testing of the real async_map_unordered + real tenacity retry wrapper on a virtual-time asyncio loop with a scripted pool (scripts per input and submission; reference model of the retry/backup contract); exhaustive enumeration of small configurations in the thorough tier; end-to-end IO-fault injection on one chunk key of small real computations on the threads executor, compute() called plainly or from inside a running event loop",
    text="For each script (n<=40 inputs; per original/backup submission a completion class fast / exactly-simultaneous-with-twin / 3x-100x straggler and k<=retries+2 leading failures) x use_backups x batch_size {None,<n,=n,>n} x retries {0,1,2} x list/iterator x processing order of same-round completions, the run must end normally with exactly one delivery per input, each backed by a submission that succeeded, or raise the scripted task error for an input none of whose submissions can succeed; never hang (virtual-time hang detector), never another exception; <=2 submissions per input, backups only if enabled; attempts per submission = min(k+1, retries+1). Thorough enumerates completely all scripts over a 3x3 alphabet for 1-2 scripted inputs (+10 fillers) under every option combination and for 3 scripted inputs under a reduced option set (2.3M scripts). Tier B: f in 0..4 injected read/write faults on a single-task chunk key: f<=2 => NumPy values and one task-end per planned task; f>=3 => OSError after exactly 3 attempts.",
    design_ref="DESIGN.md section 3 C08, section 2.5",
    note="The worker pool and the clock are replaced (module attribute cubed.runtime.asyncio.time, restored). All attempts of one submission happen at its completion instant. Future hashes are creation numbers so set iteration is reproducible. Empty input excluded. Nothing requires a backup to be launched. Remote executors are not covered.",
)

CHECKS["C07"] = dict(
    level="exploration",
    technique="harness-owned schedules of the real scheduler: generated plan-shaped DAGs x per-task virtual durations run by the real async_map_dag on a virtual-time event loop with a scripted pool (and by the real single-threaded executor), causal ordering oracle; plus end-to-end generated programs on the threads, single-threaded and processes executors over a tracing store (for the processes executor a picklable wrapper whose copies in the worker processes append to per-pid trace files with system-wide monotonic timestamps) with injected per-key write latency (premature-read / fill-value detection from the trace)",
    text="Tier A decides the scheduling part: because the harness owns every completion time, each generated duration assignment is one interleaving the real async_map_dag (aiostream merge, visit_nodes / visit_node_generations, batching, backups, retries) admits; every task submission must follow the completion of all tasks of all ancestor operations, array creation first. Tier B runs real plans with delayed chunk writes: a chunk read that misses (silent fill value), precedes the completed write of its key, or precedes the array's metadata is a violation; finalized plans must order every operation after create-arrays; a run that fails only under the parallel schedule is attributed to the schedule.",
    design_ref="DESIGN.md section 3 C07, section 2.5",
    note="Tier A models storage latency as task duration. Tier B samples OS interleavings only through injected latency; events of different worker processes are ordered by CLOCK_MONOTONIC. Thread-pool internals are not explored.",
)

CHECKS["C20"] = dict(
    level="exploration",
    technique="property-based testing across a serialization boundary: a sender (same process with reset name counters, or a fresh interpreter) builds a generated program and cloudpickles the lazy outputs; a receiver with its own counters unpickles, computes them alone and combined with locally built arrays in drawn roles; NumPy oracle",
    text="Cases vary the program, the sender's and receiver's counter positions, the number of local arrays, the combination (either operand of add/subtract/where/stack/concat, two pickled arrays with shared ancestry) and optimization; sampled cases use a real child interpreter. The pickled arrays alone and every combination must equal NumPy, and the result must plan, rechunk and store like any other array. Overlapping name ranges are the recorded known finding (corpus probe in both modes); the sampled campaign keeps the ranges disjoint so the search continues behind it.",
    design_ref="DESIGN.md section 3 C20",
    note="Emulation resets cubed's four module-level name counters; the work directory is emptied and the blob re-deserialized between the stand-alone and the combined computation so stale intermediates cannot mask a mis-wiring. Same cubed version on both sides.",
)
