"""Per-property manifest entries (edited as checks are built)."""

CHECKS = {
    "C14": dict(
        level="exploration",
        technique="property-based testing (Hypothesis) of the planner functions and of real rechunk plans against stage invariants; exhaustive enumeration of the small-geometry cube in the thorough tier",
        text="Generated geometries (1-3 dims, sides up to 1e6, biased to co-prime / transpose-like / boundary budgets) are fed to both planner functions and to Array.rechunk; every returned plan is checked against chain, memory, alignment and termination invariants, and small arrays are executed end to end. Exploration cannot prove the unbounded domain; the cube sides<=8 x 1-2 dims is enumerated completely in the thorough tier.",
        design_ref="DESIGN.md section 3 C14",
        note="Trusted: NumPy, zarr, Hypothesis; the planner budget is the max_mem passed to the planner. Operation-level projected memory is checked by C03/C04, not here.",
    ),
}

NOT_BUILT = {}

CHECKS["C01"] = dict(
    level="exploration",
    technique="property-based differential testing: generated programs over the public API (Hypothesis, constructive generator) vs the same program evaluated by NumPy",
    text="Programs (DAGs of up to 6 operations from a 160-entry table of public functions/operators over 1-3 inputs with independent chunkings, all dtypes, size-0/size-1 dims) are computed under a drawn executor (task-order-permuting sequential, single-threaded, threads, processes) with optimization on/off and compared with NumPy output by output; failures are bucketed by the earliest wrong node and shrunk. Exploration: the space is unbounded, sizes are bounded (sides <= 12, <= 4 dims).",
    design_ref="DESIGN.md section 3 C01",
    note="Trusted: NumPy as reference, Hypothesis, zarr. dtype is not compared (C12). Float comparisons exact where results are exactly representable, stated tolerances otherwise; discontinuous functions of inexact values are not compared.",
)
CHECKS["C17"] = dict(
    level="exploration",
    technique="property-based testing: generated NumPy-valid programs, phase-separated execution (build / plan+validate / execute behind a recording executor), classification of exception type and phase",
    text="Every generated program is NumPy-valid by construction; cubed must either succeed or raise ValueError/TypeError/NotImplementedError/IndexError while building or planning. Any other exception type before execution, and any exception after the executor was entered (fault-free in-memory storage), is a violation; buckets are keyed by phase, exception, innermost cubed frame / failing operation and a root-cause predicate.",
    design_ref="DESIGN.md section 3 C17",
    note="Trusted: the phase boundary is observed with a recording executor wrapper; storage is fault-free MemoryStore. Known findings are listed in KNOWN_FINDINGS.txt.",
)
