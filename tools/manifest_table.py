"""Per-property manifest entries (edited as checks are built)."""

CHECKS = {
    "C14": dict(
        level="exploration",
        technique="property-based testing (Hypothesis) of the planner functions and of real rechunk plans against stage invariants; exhaustive enumeration of the small-geometry cube in the thorough tier",
        text="Generated geometries (1-3 dims, sides up to 1e6, biased to co-prime / transpose-like / boundary budgets) are fed to both planner functions and to Array.rechunk; every returned plan is checked against chain, memory, alignment and termination invariants, and small arrays are executed end to end. Exploration cannot prove the unbounded domain; the cube sides<=8 x 1-2 dims is enumerated completely in the thorough tier.",
        design_ref="DESIGN.md section 3 C14",
        note="Trusted: NumPy, zarr, Hypothesis; the planner budget is the max_mem passed to the planner. Operation-level projected memory is checked by C03/C04, not here.",
    ),
}

NOT_BUILT = {}
