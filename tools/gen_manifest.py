#!/usr/bin/env python3
"""Regenerates /verif/MANIFEST.json from the table below (keeps the manifest valid and in one place)."""
import json
import os
import sys

ROOT = os.path.dirname(os.path.dirname(os.path.abspath(__file__)))
sys.path.insert(0, ROOT)
from tools.manifest_table import CHECKS, NOT_BUILT  # noqa: E402

PY = "/venv/bin/python"


def main():
    props = [json.loads(l)["id"] for l in open(os.path.join(ROOT, "properties.jsonl"))]
    checks = []
    for pid in props:
        c = CHECKS.get(pid)
        if not c:
            continue
        checks.append(
            {
                "property_id": pid,
                "quick_cmd": f"{PY} -m vp.run {pid} --tier quick",
                "thorough_cmd": f"{PY} -m vp.run {pid} --tier thorough",
                "evidence_file": f"evidence/{pid}.json",
                "replay_cmd_template": f"{PY} -m vp.run {pid} --replay {{path}}",
                "engine": c.get("engine", "vp"),
                "level_claimed": {"category": c["level"], "text": c["text"], "design_ref": c["design_ref"]},
                "level_note": c["note"],
                "technique": c["technique"],
            }
        )
    na = [{"property_id": p, "reason": NOT_BUILT.get(p, "check not built yet in this session; see DESIGN.md section 3 for the planned design")} for p in props if p not in CHECKS]
    man = {
        "version": 1,
        "setup_cmd": f"{PY} -c 'import hypothesis' 2>/dev/null || /venv/bin/pip install --no-index --find-links /opt/veriftools/wheels hypothesis",
        "hooks": {
            "guard": "CUBED_DEV_CUBED_VERIF",
            "enable": "no source hooks: all observation goes through public extension points (DagExecutor, zarr Store wrappers via Spec(intermediate_store=...), Callback API, tracemalloc, a virtual-time asyncio loop); cubed is imported from /repo's working tree on every run",
            "baseline_off_cmd": "cd /repo && /venv/bin/python -m pytest -ra -q -p no:cacheprovider --timeout=900 --continue-on-collection-errors",
            "source_commits": [],
            "add_only": True,
        },
        "engines": [
            {
                "name": "vp",
                "path": "vp/",
                "serves_properties": [c["property_id"] for c in checks],
                "kind_free_text": "Hypothesis-driven generators (programs, schedules, fault scripts, histories) with explicit oracles; collect-bucket-shrink; replay files; see DESIGN.md",
            }
        ],
        "checks": checks,
        "not_applicable": na,
        "notes": "All checks: cwd=/verif, `python -m vp.run <ID> --tier quick|thorough`; VERIF_SEED selects the Hypothesis seed; exit 0 held / 1 VIOLATION / 2 harness error. KNOWN_FINDINGS.txt lists recorded genuine defects (KNOWN-FINDING lines) and fixed ones.",
    }
    with open(os.path.join(ROOT, "MANIFEST.json"), "w") as f:
        json.dump(man, f, indent=1)
    print("wrote MANIFEST.json with", len(checks), "checks;", len(na), "not claimed")


if __name__ == "__main__":
    main()
